#!/bin/bash
# tools/chaos.sh [IDs...]: run quick checks while the implementation fails at random (harness/chaos.py).  Every run must end
# with rc=1 (a verdict); rc=2 means a driver or a trace specification that cannot cope with a misbehaving implementation.
cd /verif
for c in ${@:-C03 C09 C10 C11 C12 C15 C16 C17 C18 C07 C08 C13 C19 C14 C05 C04 C06}; do
  out=$(VERIF_CHAOS=${CHAOS_N:-997} VERIF_EVIDENCE_DIR=/tmp/ev_fuzz VERIF_REPLAY_DIR=/tmp/rp_fuzz bin/check $c 2>&1 | grep -v WARNING)
  echo "$out" | grep -E "MACHINERY-ERROR" | cut -c1-500 | head -3
  echo "$out" | tail -1
done
