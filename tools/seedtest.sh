#!/bin/bash
# tools/seedtest.sh <pid lower> <k>  : confirm the seeded change /tmp/out_<pid>/mutant<k>.diff in the scratch worktree
# /tmp/wt_<pid> (demo fails with it / passes without; baseline suite still 393 passed), then apply it to /repo,
# run the property's quick check, and undo it straight afterwards.  Prints one summary line.
pid=$1; k=$2; P=$(echo $pid | tr a-z A-Z)
WT=${WT:-/tmp/wt_$pid}; OUT=${OUT:-/tmp/out_$pid}; D=$OUT/mutant$k.diff
run_demo() { (cd $WT && LD_LIBRARY_PATH=/tmp/icu73 PYTHONPATH=$WT timeout 300 /venv/bin/python $OUT/demo$k.py >/dev/null 2>&1); echo $?; }
git -C $WT checkout -q -- . ; clean=$(run_demo)
git -C $WT apply $D || { echo "$P m$k: patch does not apply"; exit 1; }
mut=$(run_demo)
base=$(cd $WT && /venv/bin/python -m pytest -q -p no:cacheprovider --continue-on-collection-errors 2>&1 | tail -1)
# run the check against the scratch worktree with the change applied (VERIF_REPO redirects the harness; /repo untouched)
out=$(cd /verif && VERIF_REPO=$WT VERIF_EVIDENCE_DIR=/tmp/seed_evidence_$pid VERIF_REPLAY_DIR=/tmp/seed_replays_$pid timeout 3000 bin/check ${CHECK:-$P} --tier quick 2>&1 | tail -25)
rc=$(echo "$out" | grep -c "^VIOLATION property=")
crc=$(echo "$out" | grep -oE "rc=[0-9]+" | tail -1)
git -C $WT checkout -q -- .
echo "$out" | grep -E "rejected:|MACHINERY" | head -4
echo "$P m$k: demo_clean_rc=$clean demo_mutant_rc=$mut baseline='$base' check_detected=$rc check_${crc:-rc=none}"
