#!/venv/bin/python
"""Development aid: which lines of a property's anchored files does its quick check never execute?

usage: tools/anchorcov.py C18 [--tier quick] [--norun]
Runs bin/check with VERIF_COVERAGE, combines the per-process data and prints, per anchored file, the functions with
lines no driver reached.  A line that never runs cannot expose a change made to it: the list is a to-do for drivers.
"""
import ast
import glob
import json
import os
import subprocess
import sys

import coverage

pid = sys.argv[1].upper()
tier = "quick"
if "--tier" in sys.argv:
    tier = sys.argv[sys.argv.index("--tier") + 1]
d = f"/tmp/cov_{pid}"
if "--norun" not in sys.argv:
    subprocess.call(["rm", "-rf", d])
    env = dict(os.environ, VERIF_COVERAGE=d, VERIF_EVIDENCE_DIR="/tmp/ev_cov", VERIF_REPLAY_DIR="/tmp/rp_cov")
    out = subprocess.run(["bin/check", pid, "--tier", tier], cwd="/verif", env=env, capture_output=True, text=True).stdout
    print(out.strip().splitlines()[-1])
files = [f for f in glob.glob(d + "/cov.*")]
c = coverage.Coverage(data_file=d + "/all", config_file=False)
c.combine(files, keep=True)
c.save()
prop = [json.loads(l) for l in open("/verif/properties.jsonl") if json.loads(l)["id"] == pid][0]
data = c.get_data()
measured = set(data.measured_files())
tot_m = tot_s = 0
for rel in prop["anchors"]["files"]:
    path = "/repo/" + rel
    if not os.path.exists(path):
        print("??", rel)
        continue
    if path not in measured:
        print(f"{rel}: NEVER IMPORTED/RUN")
        continue
    _, stmts, _, missing, _ = c.analysis2(path)
    tot_m += len(missing)
    tot_s += len(stmts)
    if not missing:
        continue
    tree = ast.parse(open(path).read())
    funcs = []
    for node in ast.walk(tree):
        if isinstance(node, (ast.FunctionDef, ast.AsyncFunctionDef)):
            funcs.append((node.lineno, node.end_lineno, node.name))
    ms = set(missing)
    rows = []
    for a, b, name in funcs:
        inner = [x for x in ms if a <= x <= b]
        # attribute a line to the innermost function only
        inner = [x for x in inner if not any(a < a2 <= x <= b2 for a2, b2, _ in funcs if (a2, b2) != (a, b) and a <= a2 and b2 <= b)]
        if inner:
            rows.append((name, a, sorted(inner)))
    print(f"{rel}: {len(missing)}/{len(stmts)} statements never run")
    for name, a, inner in sorted(rows, key=lambda r: r[1]):
        print(f"    {name}@{a}: {inner if len(inner) <= 12 else str(inner[:12]) + '...'}")
print(f"TOTAL {pid}: {tot_m}/{tot_s} anchored statements never run")
