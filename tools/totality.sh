#!/bin/bash
# tools/totality.sh [IDs...]: run quick checks with a fraction of the recorded events damaged (results dropped, exceptions
# recorded) and report any MACHINERY-ERROR: the trace specifications must reject such events, not fail to evaluate.
cd /verif
for c in ${@:-C03 C09 C10 C11 C12 C15 C16 C17 C18 C07 C08 C13 C19 C20 C14 C05 C04 C06}; do
  out=$(VERIF_FUZZ_EVENTS=0.02 VERIF_EVIDENCE_DIR=/tmp/ev_fuzz VERIF_REPLAY_DIR=/tmp/rp_fuzz bin/check $c 2>&1 | grep -v WARNING)
  echo "$out" | grep -E "MACHINERY-ERROR" | cut -c1-400 | head -3
  echo "$out" | tail -1
done
