#!/usr/bin/env python3
"""Copy confirmed sixth-round seeded changes from /tmp/out6_<pid>/ to /verif/seeded/<PID>/m<k+15>/ with meta.json."""
import json, os, shutil, sys
results = json.loads(sys.argv[1])  # {"c19": {"1": "detected by ...", ...}}
for pid, ks in results.items():
    for k, how in ks.items():
        src = f"/tmp/out6_{pid}"
        dst = f"/verif/seeded/{pid.upper()}/m{int(k) + 15}"
        os.makedirs(dst, exist_ok=True)
        shutil.copy(f"{src}/mutant{k}.diff", f"{dst}/patch.diff")
        shutil.copy(f"{src}/demo{k}.py", f"{dst}/demo.py")
        meta = json.load(open(f"{src}/meta{k}.json"))
        meta.update({
            "breaks_property": pid.upper(),
            "round": 6,
            "needs_to_manifest": meta.get("needs"),
            "confirmed": "tools/seedtest.sh (WT=/tmp/wt6_%s OUT=/tmp/out6_%s) %s %s: demo exits 0 on the clean worktree and non-zero with the patch; baseline suite still 393 passed / 68 collection errors; quick check run with VERIF_REPO pointing at the patched scratch worktree" % (pid, pid, pid, k),
            "check_result": how,
        })
        json.dump(meta, open(f"{dst}/meta.json", "w"), indent=1)
print("ok")
