#!/usr/bin/env python3
"""Regenerates /verif/MANIFEST.json from the table below (single source of truth for the interface)."""
import json
import os

HERE = os.path.dirname(os.path.dirname(os.path.abspath(__file__)))
BASELINE = ("cd /repo && env -u PYODA_TIME_VERIF /venv/bin/python -m pytest -ra -q -p no:cacheprovider --timeout=900 "
            "--continue-on-collection-errors")

CHECKS = {
    "C01": dict(
        category="model_checking",
        text=("TLC model-checks the month-level calendar odometer of Calendars.tla over the real year ranges (bijection, order, "
              "year closure); the real package is walked day by day through several routes (day->date, date->day, plus_days, "
              "comparison, other-calendar round trip, Period.days_between), run-length compressed to month runs, and TLC validates "
              "every run/year/probe event against the self-consistency odometer (month lengths reported by the calendar define "
              "where every day must be). Thorough walks all ~75M (calendar, day) pairs."),
        design_ref="DESIGN.md section 5 C01",
        note="Day numbers observed through LocalDate._days_since_epoch/_ctor(days_since_epoch); quick tier samples years (phase by seed) but covers every year boundary.",
        technique="TLA+ calendar odometer model-checked by TLC + TLC trace validation of run-compressed walks of the real calendars",
    ),
    "C02": dict(
        category="model_checking",
        text=("Calendars.tla transcribes the published rules (Gregorian, Julian, Coptic, 8 tabular Islamic, Hebrew molad arithmetic "
              "in both numberings, Persian simple and Birashk arithmetic) independently of the code; TLC cross-checks the oracle's "
              "two formulations for every year, then validates every walked month run, year table, leap flag and ISO weekday of the "
              "real package against it; ISO additionally against datetime.date day for day."),
        design_ref="DESIGN.md section 5 C02",
        note="Epochs are stated as Julian dates in the spec; Persian arithmetic claimed from AP 475 (earlier years reported as divergences only).",
        technique="independent TLA+ transcription of published calendar rules + TLC trace validation of the implementation's walks",
    ),
    "C03": dict(
        category="model_checking",
        text=("Elapsed.tla states Duration/Instant/Offset as integers of nanoseconds (T3 numerals + a BigInt library written in TLA+ "
              "and self-checked by TLC); ElapsedImpl.tla is the floor-day normal-form machine model-checked on scaled constants "
              "(normalisation, refinement, truncating accessors, raise-only-out-of-range); every public factory, operator, accessor "
              "and conversion of the real types is recorded on boundary-biased operands and TLC recomputes each result exactly "
              "(division by its defining predicate, floats to a stated error bound)."),
        design_ref="DESIGN.md section 5 C03",
        note="Operands are built with the trusted normal-form constructors; sampling is dense at sign/day/tick/range edges but not exhaustive; floats checked to 2^-50 relative to the larger intermediate.",
        technique="TLA+ integer semantics (BigInt/T3) + scaled normal-form model in TLC + TLC trace validation of recorded calls",
    ),
    "C04": dict(
        category="model_checking",
        text=("ZoneTimeline.tla states the partition laws; ZoneWalk.tla models the walk and the implementation-shaped lookup "
              "(binary search over precalculated periods handing over to a periodic tail with a clamped first interval) and TLC "
              "checks lookup = declarative partition and that the walk covers the line for all small zones; every tzdb id and "
              "fixed-offset zones are walked through the real API and TLC validates every interval (abutting, maximal, contains "
              "the instant asked for, wall = standard + savings, within min/max, ends at the end of time) plus in-interval probes."),
        design_ref="DESIGN.md section 5 C04",
        note="Quick tier walks 12 zones (by seed) to year 9999 and the rest to 2100 plus 9989-9999; thorough walks all ~1.8M intervals.",
        technique="TLA+ zone partition/walk model checked by TLC + TLC trace validation of interval walks of every real zone",
    ),
    "C05": dict(
        category="model_checking",
        text=("ZoneLocalMapping.tla gives the declarative meaning of map_local (the set of instants whose local rendering is the value) "
              "and a transcription of the guess-and-probe algorithm with its day-granular pre-checks; TLC proves them equal on all small "
              "zones with jumps up to a whole day; on real zones, local times at nanosecond/second/gap/day distances around every "
              "transition are mapped and TLC recomputes the pre-image set from the logged interval window, checking count, early/late, "
              "first/last/single, strict and lenient resolvers and the reverse rendering."),
        design_ref="DESIGN.md section 5 C05",
        note="Quick tier: 62 zones x transitions 1900-2040 (max 40 per zone) + oddest zones from the start of time + range-end windows; at_start_of_day not yet covered.",
        technique="TLA+ declarative-vs-algorithm model checked by TLC + TLC trace validation of map_local around every transition",
    ),
    "C06": dict(
        category="model_checking",
        text=("TLC itself reads both real database files (as byte sequences) and parses them field by field with the NzdFile/NzdCodec "
              "specification: string pool, every zone's precalculated periods and tail rules, version, alias map; the trace lists in file "
              "order what the real package derived from each field and how each zone behaves through the public API; TLC checks ids, "
              "names, transition instants, wall offsets and savings of every precalculated period against the bytes, tail intervals "
              "against ZoneRules.tla (yearly rules evaluated by plain calendar arithmetic, model-checked separately), and the provider's "
              "sorted id list, aliases, fixed-offset ids and self-validation."),
        design_ref="DESIGN.md section 5 C06",
        note="Quick tier compares the first 30 and last 12 tail intervals per zone and walks every 40th zone's tail to 9999; thorough compares all. CLDR windows mapping and zone locations fields are decoded by NzdFile.tla and compared too.",
        technique="independent TLA+ decoder of the database bytes run by TLC + rule evaluation in TLA+, compared with API walks by trace validation",
    ),
    "C07": dict(
        category="model_checking",
        text=("PatternSemantics.tla states what a token sequence can represent (captured fields, precision, 12/24-hour and am/pm "
              "completeness, era with year-of-era, template merging) and when numeric fields are delimited; a reference format/parse "
              "semantics for numeric time patterns is model-checked by TLC (Representable => Parse(Format(v)) = v for every pattern of "
              "up to 3 tokens x a value grid); on the real package, random custom patterns and the built-in round-trip/ISO patterns of 7 "
              "types are exercised in the invariant and random ICU cultures over all calendars, and TLC decides per event whether the "
              "round-trip law applies and checks round trip, re-format (also for spliced texts that no value produces) and determinism (also "
              "against a fresh interpreter). PatternFormat.tla is the reference formatter the model-checked law is stated on; the real texts "
              "of generated patterns are compared with it as a reference clause."),
        design_ref="DESIGN.md section 5 C07",
        note="Name fields only for cultures with distinct, digit-free names that are not proper prefixes of one another at the place parsed, and ISO/Gregorian dates; empty renderings make no promise; the reference formatter's comparison is a reference clause (the property promises laws, not a particular text).",
        technique="TLA+ representability/delimitedness spec + reference semantics model-checked by TLC + TLC trace validation of format/parse events",
    ),
    "C08": dict(
        category="model_checking",
        text=("TextProtocol.tla states the create/parse protocol; PatternScan.tla models the quoting layer of the pattern language as a "
              "scanner state machine and TLC proves its totality (never stuck, always ends Ok or a named error) over all texts up to 4-5 "
              "characters; on the real package every small text over the structural alphabet, standard patterns, random token "
              "concatenations and malformed families are created for 7 pattern types and several cultures, and formatted values plus "
              "mutations / out-of-range / non-ASCII / empty / NUL inputs are parsed; TLC replays each outcome through the protocol "
              "(creation: ok | InvalidPatternError; parse: success with a valid value | failure with its error available; no exception, "
              "no hang). As reference clauses the spec also predicts which texts are patterns (PatternGrammar.tla: field-level grammar of "
              "all seven types, model-checked total and a refinement of the scanner) and what local-time and offset patterns parse a text "
              "to (PatternParse.tla)."),
        design_ref="DESIGN.md section 5 C08",
        note="Grammar and reference parser are reference clauses (DIVERGE, never exit 1): the property allows any outcome that is a valid result; embedded patterns are outside the grammar; the parser covers local-time patterns without designator fields and offset patterns.",
        technique="TLA+ protocol + scanner state machine checked by TLC (totality) + TLC trace validation of fuzzed create/parse outcomes",
    ),
    "C09": dict(
        category="model_checking",
        text=("DateArith.tla defines month ordinals in chronological order (Hebrew: molad month count, both numberings), plus_months as "
              "ordinal + k with the day kept or clamped, plus_years with the documented Hebrew Adar/30th rules; TLC checks that ordinals "
              "are a chronological bijection and the arithmetic laws on windows of real calendars; real plus_days/weeks/months/years in "
              "all calendars and Period.between on four operand types with random unit subsets are recorded and TLC checks landing month, "
              "day adjustment, range raising, and the between laws (between start and end, exact with the finest unit, one sign, maximal "
              "for single units, only requested units) plus normalize/to_duration totals in BigInt."),
        design_ref="DESIGN.md section 5 C09",
        note="Between laws are checked through the implementation's own start + period (whose arithmetic is validated by the plus_* events); Badi intercalary-day month arithmetic is a reference clause.",
        technique="TLA+ month-ordinal arithmetic model checked by TLC + TLC trace validation of plus_*/between events",
    ),
    "C10": dict(
        category="model_checking",
        text=("LocalTimeArith.tla states time-of-day addition as modular arithmetic and transcribes the two-branch carry/borrow algorithm "
              "of the time period field; TLC proves them equal for all times x amounts in +-3 days on scaled days; real LocalTime, "
              "LocalDateTime (all calendars, range edges), Period addition and time adjusters are recorded and TLC recomputes every "
              "result on the nanosecond time line (T3 numerals, amounts far beyond 64 bit as mixed-radix digits)."),
        design_ref="DESIGN.md section 5 C10",
        note="Periods with months/years belong to C09; date validity of the carried day is C01's.",
        technique="TLA+ modular-arithmetic spec vs transcribed algorithm in TLC + TLC trace validation of recorded calls",
    ),
    "C11": dict(
        category="model_checking",
        text=("OffsetValues.tla defines offset/zoned values as (instant, offset, calendar[, zone]) with derived local time and states "
              "the laws (instant stable under offset/calendar change, exact shift with parts retained, difference = elapsed time); TLC "
              "checks the laws on a grid with double day carries; every constructor/with_*/plus/minus/diff/adjuster/conversion route "
              "of OffsetDateTime/OffsetDate/OffsetTime/ZonedDateTime is recorded and validated, zoned offsets against the zone "
              "interval containing the instant."),
        design_ref="DESIGN.md section 5 C11",
        note="Zone intervals are taken from the zone API (validated by C04/C06); 16 zones per run.",
        technique="TLA+ value laws checked by TLC + TLC trace validation of recorded operations",
    ),
    "C12": dict(
        category="model_checking",
        text=("ValueLaws.tla gives each value an abstract key, an ordering key and a comparability group; TLC checks that the "
              "lexicographic comparison is a total order consistent with key equality; for 17 value types, triples of values from small "
              "parameter pools (equal-but-distinct objects, all calendars) are compared with every operator and TLC checks reflexivity, "
              "symmetry, transitivity, equality iff documented components equal, hash/set consistency, agreement of <,<=,>,>=, "
              "compare_to, min, max with one order, cross-calendar and unrelated-type refusal; immutability probes call every public "
              "zero-argument / plus_* / with_* method and operator and compare the projection before and after."),
        design_ref="DESIGN.md section 5 C12",
        note="Keys are projected by the driver from public accessors (calendar ordinal, day number, nanoseconds...); assigning to existing public properties must fail, adding unrelated new attributes is not considered mutation.",
        technique="TLA+ equality/order laws checked by TLC + TLC trace validation of relation tables over value triples",
    ),
    "C13": dict(
        category="model_checking",
        text=("conc/YearStartCache.tla (slot + validator cache, lock-free, line-level steps), LazyZoneMap.tla (check-load-store with "
              "and without a lock) and LraCache.tla (locked least-recently-added cache) are explored by TLC over all interleavings "
              "of 2-3 threads, with negative configurations (key span beyond the validator, lock removed) as non-vacuity; on the real "
              "package, adversarial query orders (years 1024 apart in every calendar, instants 512x32 days apart through caching "
              "zones, permuted provider lookups, more cultures than the format-info cache holds) are compared with cold-cache "
              "evaluations and Calendars.tla, and TLC-simulated two-thread schedules are enforced line by line on a shared "
              "calculator, a fresh provider, a fresh format info (LazyTables.tla) and a real _Cache (LraCache.tla's unlocked-test variant); "
              "FixedZoneCache.tla models the fixed-zone cache filled by the first caller; first callers under other cultures and factory "
              "routes are tried in fresh interpreters."),
        design_ref="DESIGN.md section 5 C13",
        note="Schedules are enforced at Python line granularity for two threads; free-running 16-thread histories are judged too (a wrong answer there is a verdict, a clean run proves nothing).",
        technique="TLA+ cache/lock models checked by TLC over all interleavings + schedule-enforced replay on real threads + TLC trace validation",
    ),
    "C14": dict(
        category="model_checking",
        text=("NzdCodec.tla specifies every documented encoding (varint, zig-zag, 4-way milliseconds with its canonical choice, "
              "transition markers/hours/minutes/raw ticks, strings, yearly rules, alternating maps, precalculated zones) with "
              "encoders and byte-cursor decoders; TLC proves Dec(Enc(v)) = v, exact consumption and the canonical-length rule on "
              "residue-complete sub-domains; the real writer's bytes must equal Enc(v) and the real reader must return v consuming "
              "exactly those bytes (junk appended), on the same domains, and every rule-based zone of both real database files must "
              "re-encode to its original bytes, which the spec decoder must also parse and re-encode identically."),
        design_ref="DESIGN.md section 5 C14",
        note="Quick tier: +-2 ms around every whole minute of the 2-day millisecond domain (thorough: every whole second) plus random values; signed counts within +-2^30.",
        technique="TLA+ codec specification model-checked by TLC + TLC trace validation of real writer/reader byte streams",
    ),
    "C15": dict(
        category="model_checking",
        text=("PyBridge.tla relates standard-library field tuples to the day / nanosecond time lines (Gregorian day numbers from "
              "Calendars.tla, truncation toward the start of time for points and toward zero for spans, model-checked on a grid); "
              "dates, times, naive/aware datetimes, timedeltas and offsets are converted both ways through the real API and TLC "
              "validates exactness, round trips and raising outside years 1..9999. Thorough enumerates every datetime.date."),
        design_ref="DESIGN.md section 5 C15",
        note="Aware datetimes whose UTC instant lies outside the Instant range (within 18 h of datetime.min/max) cannot convert and are not claimed.",
        technique="TLA+ correspondence predicates checked by TLC + TLC trace validation of conversions",
    ),
    "C16": dict(
        category="model_checking",
        text=("WeekYear.tla defines a regular week-year start declaratively (the unique first-day-of-week within minDays of the calendar "
              "year start) and weekday navigation; TLC proves the closed form equals the declarative definition for all 49 rules x all "
              "year-start weekdays and that navigation is minimal; for all 71 rules, windows of consecutive days around year starts in "
              "every calendar are observed through the real rule objects and TLC checks the round trip, week <= weeks-in-week-year, "
              "advance every seven days from the first day of week, the declarative week number for regular rules, ISO vs stdlib "
              "isocalendar, next/previous(-or-same) and the n-th-weekday-of-month constructor."),
        design_ref="DESIGN.md section 5 C16",
        note="Calendar year starts are read from the calculators (cross-checked against Calendars.tla for arithmetic calendars); BCL-style irregular rules are held to the self-consistency clauses, their exact shape is a reference clause.",
        technique="TLA+ declarative week-year definition checked by TLC + TLC trace validation of per-day observations",
    ),
    "C17": dict(
        category="model_checking",
        text=("Iso8601.tla generates the ISO-8601 extended-format text of dates, times (shortest and nine-digit fractions), date-times, "
              "instants and offsets over code points (fixed widths, no trailing zeros, Z); TLC checks the generators on a small domain; "
              "for values over the domain shared with the standard library TLC checks that pyoda's text equals the generated text, that "
              "datetime.fromisoformat reads it back to the same value, and that pyoda parses the standard library's isoformat() text to "
              "the value. Thorough enumerates every date of years 1-9999."),
        design_ref="DESIGN.md section 5 C17",
        note="The independent reader (Python 3.12 datetime) truncates fractions to microseconds; offsets of whole minutes.",
        technique="TLA+ ISO text generators + TLC trace validation of four-way agreement with the standard library",
    ),
    "C18": dict(
        category="model_checking",
        text=("Intervals.tla defines DateInterval/Interval operations and TLC proves they are the set operations on all pairs over a "
              "small day range; real DateInterval pairs in every calendar (adjacent, overlapping, nested, range ends), constructor "
              "rejections, mixed calendars, Interval membership/bounds/duration incl. unbounded ends and YearMonth.to_date_interval "
              "are recorded and validated by TLC."),
        design_ref="DESIGN.md section 5 C18",
        note="Interval has no intersection/union in this port; those clauses are exercised on DateInterval only.",
        technique="TLA+ set-semantics spec checked by TLC + TLC trace validation",
    ),
    "C19": dict(
        category="model_checking",
        text=("TLC explores every interleaving of the line-level FakeClock model (2 threads x 2 ops, 3 x 1, liveness, "
              "negative configs for the nested-lock deadlock and for a removed lock); the real FakeClock/ZonedClock/"
              "SystemClock are bound to the trivial model by TLC trace validation of sequential op sequences and by "
              "TLC-chosen thread schedules enforced line-by-line on real threads whose histories TLC checks for "
              "linearizability and distinct reads."),
        design_ref="DESIGN.md section 5 C19",
        note=("Schedules are enforced at Python line granularity; values projected via Instant/Duration internal "
              "day+nanosecond fields; SystemClock compared to time.time_ns at tick granularity."),
        technique="TLA+ line-level lock model checked by TLC + trace validation / linearizability search of real histories",
    ),
    "C20": dict(
        category="fault_enumeration",
        text=("Every structurally distinct fault of the two real database files is enumerated (truncation at every field boundary +-1 and a "
              "stride of bytes; 1-4 byte substitutions, insertions and deletions at field ids, length bytes, first/last/random data bytes of "
              "every field, the version header); each faulted stream is loaded, its ids listed and the damaged zone plus random ids "
              "fetched, every call under an alarm and an address-space limit; TLC replays each outcome through the TzdbLoader.tla protocol "
              "automaton (works | InvalidPyodaDataError; no hang, no memory exhaustion, no other exception)."),
        design_ref="DESIGN.md section 5 C20",
        note="The TLA+ part is a small protocol automaton; the weight is in the enumeration. Quick: ~12k faulted streams; thorough: ~150k.",
        technique="fault enumeration over the file structure, outcomes validated by TLC against a TLA+ loader protocol automaton",
    ),
}

NOT_APPLICABLE = {}


def main():
    ids = [json.loads(l)["id"] for l in open(os.path.join(HERE, "properties.jsonl"))]
    checks = []
    for pid in ids:
        if pid not in CHECKS:
            continue
        c = CHECKS[pid]
        checks.append({
            "property_id": pid,
            "quick_cmd": f"bin/check {pid} --tier quick",
            "thorough_cmd": f"bin/check {pid} --tier thorough",
            "evidence_file": f"/verif/evidence/{pid}.json",
            "replay_cmd_template": f"bin/check {pid} --replay {{path}}",
            "engine": "tlc-trace",
            "level_claimed": {"category": c["category"], "text": c["text"], "design_ref": c["design_ref"]},
            "level_note": c["note"],
            "technique": c["technique"],
        })
    na = [{"property_id": pid, "reason": NOT_APPLICABLE.get(pid, "check not built yet in this round (planned; see DESIGN.md section 5)")}
          for pid in ids if pid not in CHECKS]
    hooks_commits = []
    m = {
        "version": 1,
        "setup_cmd": "sh bin/setup",
        "hooks": {
            "guard": "PYODA_TIME_VERIF",
            "enable": "bin/check exports PYODA_TIME_VERIF=1; the package is imported straight from /repo's working tree (no build step)",
            "baseline_off_cmd": BASELINE,
            "source_commits": hooks_commits,
            "add_only": True,
        },
        "engines": [
            {"name": "tlc-trace", "path": "bin/check",
             "serves_properties": [c["property_id"] for c in checks],
             "kind_free_text": ("TLA+ specifications under spec/ model-checked with TLC; Python drivers record traces from the real "
                                "package and TLC validates them against the same specifications; TLC behaviours are replayed into the code")},
        ],
        "checks": checks,
        "not_applicable": na,
        "notes": "See DESIGN.md. Known findings: known_findings.json. Seeded changes: seeded/.",
    }
    json.dump(m, open(os.path.join(HERE, "MANIFEST.json"), "w"), indent=1)
    print("checks:", [c["property_id"] for c in checks], "not claimed:", len(na))


if __name__ == "__main__":
    main()
