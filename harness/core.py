"""Harness core: TLC runner, trace files, verdict protocol, evidence, known findings.

No domain logic lives here (or in the drivers): TLC is the only oracle. This module only
  * starts TLC (exhaustive / simulate / trace validation) on modules under /verif/spec,
  * collects the REJECT / DIVERGE lines the trace specs print,
  * matches them against /verif/known_findings.json,
  * writes evidence and replay files and produces the exit status.

Exit codes: 0 held, 1 violation (with a VIOLATION line), 2 machinery failure.
"""

from __future__ import annotations

import concurrent.futures as cf
import json
import os
import re
import shutil
import subprocess
import sys
import time
from dataclasses import dataclass, field
from pathlib import Path
from typing import Any, Callable, Iterable

VERIF = Path(__file__).resolve().parent.parent
REPO = Path(os.environ.get("VERIF_REPO", "/repo"))
SPEC = VERIF / "spec"
WORK = VERIF / ".work"
EVID = Path(os.environ.get("VERIF_EVIDENCE_DIR", str(VERIF / "evidence")))
JAR = "/opt/veriftools/tla/tla2tools.jar:/opt/veriftools/tla/CommunityModules-deps.jar"
NCPU = os.cpu_count() or 4


class MachineryError(Exception):
    pass


class SutRaised(Exception):
    """The implementation raised, from inside its own code, an exception the driver had no event for.

    Drivers record the exceptions a property talks about as events; anything else that escapes from inside pyoda_time while
    it is being driven means a public call the property covers did not complete.  It becomes a verdict (not a machinery
    failure): clause implementation_raised_while_being_driven, keyed by exception class and raising site."""

    def __init__(self, exc: str, where: str, message: str):
        super().__init__(exc, where, message)
        self.exc, self.where, self.message = exc, where, message


def classify_exception(e: BaseException):
    """SutRaised if the innermost frame of e lies in the repository's package, else None (harness / environment fault)."""
    if isinstance(e, SutRaised):
        return e
    import traceback as _tb

    frames = [f for f in _tb.extract_tb(e.__traceback__) if not f.filename.endswith("harness/chaos.py")]
    if not frames:
        return None
    inner = frames[-1]
    root = str(REPO / "pyoda_time")
    if inner.filename.startswith(root):
        return SutRaised(type(e).__name__, f"{inner.filename[len(str(REPO)) + 1:]}:{inner.name}", str(e)[:300])
    return None


class _Guarded:
    """Picklable wrapper for worker functions: re-raises implementation exceptions as SutRaised (which survives pickling)."""

    def __init__(self, fn):
        self.fn = fn

    def __call__(self, x):
        try:
            return self.fn(x)
        except Exception as e:  # noqa: BLE001
            s = classify_exception(e)
            if s is not None:
                raise s from None
            raise


def spec_library() -> str:
    dirs = [str(SPEC)] + [str(p) for p in sorted(SPEC.rglob("*")) if p.is_dir()]
    return os.pathsep.join(dirs)


@dataclass
class TlcResult:
    module: str
    mode: str
    generated: int = 0
    distinct: int = 0
    depth: int = 0
    ok: bool = False
    wall_s: float = 0.0
    printed: list = field(default_factory=list)  # parsed PrintT tuples
    error: str = ""
    out: str = ""
    coverage: dict = field(default_factory=dict)


from harness.tlaval import parse as _parse_tla_value


def parse_printed(out: str) -> list:
    """Collect every top-level <<...>> value printed by PrintT (may span lines)."""
    res = []
    lines = out.splitlines()
    i = 0
    while i < len(lines):
        ln = lines[i].strip()
        if ln.startswith("<<"):
            buf = ln
            depth = buf.count("<<") - buf.count(">>")
            while depth > 0 and i + 1 < len(lines):
                i += 1
                buf += " " + lines[i].strip()
                depth = buf.count("<<") - buf.count(">>")
            try:
                res.append(_parse_tla_value(buf))
            except Exception:
                pass
        i += 1
    return res


def run_tlc(
    module: str,
    cfg: str,
    *,
    workdir: Path,
    mode: str = "check",
    workers: int | str = "auto",
    env: dict | None = None,
    simulate: str | None = None,
    depth: int | None = None,
    seed: int | None = None,
    timeout: int = 3600,
    heap: str = "4g",
    deque: bool = False,
    coverage: bool = False,
    extra: list | None = None,
    tag: str = "",
) -> TlcResult:
    """Run TLC on spec module `module` (found through the spec library path) with cfg text `cfg`."""
    workdir.mkdir(parents=True, exist_ok=True)
    src = None
    for p in SPEC.rglob(module + ".tla"):
        src = p
        break
    if src is None:
        raise MachineryError(f"spec module {module} not found")
    name = f"{module}{('_' + tag) if tag else ''}"
    rundir = workdir / f"tlc_{name}"
    if rundir.exists():
        shutil.rmtree(rundir)
    rundir.mkdir(parents=True)
    shutil.copy(src, rundir / (module + ".tla"))
    (rundir / (module + ".cfg")).write_text(cfg)
    props = [f"-DTLA-Library={spec_library()}"]
    if deque:
        props.append("-Dtlc2.tool.queue.IStateQueue=StateDeque")
    cmd = ["java", "-XX:+UseParallelGC", f"-Xmx{heap}", "-Xss64m", *props, "-cp", JAR, "tlc2.TLC"]
    if simulate is not None:
        cmd += ["-simulate", simulate]
    if depth is not None:
        cmd += ["-depth", str(depth)]
    if seed is not None:
        cmd += ["-seed", str(seed)]
    cmd += ["-workers", str(workers), "-metadir", str(rundir / "states"), "-noGenerateSpecTE"]
    if coverage:
        cmd += ["-coverage", "1"]
    cmd += ["-deadlock"] if False else []
    if extra:
        cmd += extra
    cmd += ["-config", module + ".cfg", module + ".tla"]
    e = dict(os.environ)
    e.pop("JAVA_TOOL_OPTIONS", None)
    if env:
        e.update({k: str(v) for k, v in env.items()})
    t0 = time.time()
    try:
        p = subprocess.run(cmd, cwd=rundir, env=e, capture_output=True, text=True, timeout=timeout)
        out = p.stdout + p.stderr
        rc = p.returncode
    except subprocess.TimeoutExpired as ex:
        out = (ex.stdout or b"").decode() if isinstance(ex.stdout, bytes) else (ex.stdout or "")
        out += "\nTIMEOUT"
        rc = -9
    r = TlcResult(module=module, mode=mode, out=out, wall_s=time.time() - t0)
    m = None
    for m in re.finditer(r"(\d+) states generated, (\d+) distinct states found", out):
        pass
    if m:
        r.generated, r.distinct = int(m.group(1)), int(m.group(2))
    m = re.search(r"depth of the complete state graph search is (\d+)", out)
    if m:
        r.depth = int(m.group(1))
    r.printed = parse_printed(out)
    finished = "Model checking completed. No error has been found." in out or (
        simulate is not None and rc in (0, -9) and "Error:" not in out
    )
    r.ok = bool(finished and rc == 0) or (simulate is not None and "Error:" not in out and rc in (0,))
    if not r.ok:
        errs = [ln for ln in out.splitlines() if ln.startswith("Error:") or "is violated" in ln or "TIMEOUT" in ln]
        r.error = "; ".join(errs[:4]) or f"rc={rc}"
    if coverage:
        for mm in re.finditer(r"<(\w+) line \d+, col \d+ to line \d+, col \d+ of module (\w+)>: (\d+):(\d+)", out):
            r.coverage[f"{mm.group(2)}.{mm.group(1)}"] = int(mm.group(4))
    (rundir / "tlc.out").write_text(out)
    shutil.rmtree(rundir / "states", ignore_errors=True)
    return r


# ---------------------------------------------------------------------------------------------


@dataclass
class Reject:
    prop: str
    clause: str
    key: dict
    event: Any = None
    verdict: bool = True  # False = reference-clause divergence (never exit 1)
    shard: int | None = None


def _mem_budget_gb() -> float:
    """Memory the parallel trace validators may use together: 60 % of what is available now (at least 8 GB)."""
    try:
        for line in open("/proc/meminfo"):
            if line.startswith("MemAvailable:"):
                return max(8.0, int(line.split()[1]) / 1048576 * 0.6)
    except OSError:
        pass
    return 16.0


def _group_divergences(diverg, cap: int = 20) -> list:
    """Reference-clause mismatches grouped by key: how many, and one event (cut short) to look at."""
    groups: dict[str, dict] = {}
    for d in diverg:
        k = json.dumps(d.key, sort_keys=True, default=str)
        g = groups.get(k)
        if g is None:
            ex = json.dumps(d.event, default=str) if d.event is not None else ""
            groups[k] = g = {"clause": d.clause, "key": d.key, "count": 0, "example": ex[:700]}
        g["count"] += 1
    return sorted(groups.values(), key=lambda g: -g["count"])[:cap]


class Ctx:
    def __init__(self, pid: str, tier: str, seed: int, level: str = "model_checking"):
        self.pid = pid
        self.tier = tier
        self.seed = seed
        self.level = level
        self.t0 = time.time()
        self.workdir = WORK / f"{pid}-{os.getpid()}"
        if self.workdir.exists():
            shutil.rmtree(self.workdir, ignore_errors=True)
        self.workdir.mkdir(parents=True, exist_ok=True)
        self.tlc_runs: list[TlcResult] = []
        self.rejects: list[Reject] = []
        self.traces = 0
        self.events = 0
        self.samples: list = []
        self.assumptions: list[str] = []
        self.notes: dict = {}
        self.machinery_errors: list[str] = []
        self.exhaustive = False
        self.rule = ""
        self.distinct_nontrivial = 0

    @property
    def quick(self) -> bool:
        return self.tier == "quick"

    # -- model checking of the spec itself ---------------------------------------------------
    def mc(self, module: str, cfg: str, **kw) -> TlcResult:
        r = run_tlc(module, cfg, workdir=self.workdir, mode="mc", **kw)
        self.tlc_runs.append(r)
        if not r.ok:
            self.machinery_errors.append(f"MC {module}: {r.error}")
        return r

    def mc_expect_violation(self, module: str, cfg: str, what: str, **kw) -> TlcResult:
        """Negative (non-vacuity) configuration: TLC must find the stated violation."""
        r = run_tlc(module, cfg, workdir=self.workdir, mode="mc-negative", **kw)
        if what not in r.out:
            self.machinery_errors.append(f"negative MC {module} did not find '{what}': {r.error}")
        else:
            r.ok = True
        self.tlc_runs.append(r)
        return r

    # -- symbolic check with Apalache (complement to TLC: full integer range, real constants) ------------
    def apalache(self, module: str, inv: str, *, cinit: str | None = None, expect_violation: bool = False, timeout: int = 900):
        src = next(SPEC.rglob(module + ".tla"), None)
        if src is None:
            self.machinery_errors.append(f"apalache module {module} not found")
            return
        rundir = self.workdir / f"apa_{module}"
        rundir.mkdir(parents=True, exist_ok=True)
        shutil.copy(src, rundir / src.name)
        cmd = ["apalache-mc", "check", "--init=Init", "--next=Next", f"--inv={inv}", "--length=0", f"--out-dir={rundir / 'out'}"]
        if cinit:
            cmd.append(f"--cinit={cinit}")
        cmd.append(src.name)
        t0 = time.time()
        try:
            p = subprocess.run(cmd, cwd=rundir, capture_output=True, text=True, timeout=timeout)
            out = p.stdout + p.stderr
        except subprocess.TimeoutExpired:
            out = "TIMEOUT"
        holds = len(re.findall(r"state invariant \d+ holds", out))
        ok = "The outcome is: NoError" in out
        viol = "violated" in out and "The outcome is: Error" in out
        rec = {"module": module, "invariant": inv, "obligations_discharged": holds if ok else 0, "outcome": "NoError" if ok else ("Error" if viol else "unknown"),
               "expected": "Error" if expect_violation else "NoError", "wall_s": round(time.time() - t0, 1)}
        self.notes.setdefault("apalache", []).append(rec)
        if (expect_violation and not viol) or (not expect_violation and not ok):
            self.machinery_errors.append(f"apalache {module}/{inv}: outcome {rec['outcome']} (expected {rec['expected']})")
        shutil.rmtree(rundir / "out", ignore_errors=True)

    # -- trace validation ----------------------------------------------------------------------
    def validate(
        self,
        module: str,
        cfg: str,
        traces: list | None,
        *,
        shards: list | None = None,
        shard_size: int = 20000,
        key_of: Callable[[dict, str], dict] | None = None,
        ntraces: int | None = None,
        env: dict | None = None,
        timeout: int = 3600,
        heap: str = "3g",
        expect_len: bool = True,
        deque: bool = False,
        tag: str = "",
    ) -> list[Reject]:
        """Validate a list of events (one linear trace per shard) with the trace spec `module`.

        The trace spec consumes one event per state, prints <<"REJECT", clause, index>> (or
        <<"DIVERGE", clause, index>>) on a mismatch and carries on; the run is accepted when TLC
        finishes without error and the number of distinct states is len(events)+1.
        """
        if shards is None:
            shards = [traces[i : i + shard_size] for i in range(0, len(traces), shard_size)] or [[]]
        fuzz = float(os.environ.get("VERIF_FUZZ_EVENTS", "0") or 0)
        if fuzz > 0:
            # development aid (tools/totality.sh): damage a fraction of the events the way a misbehaving implementation would
            # (a result missing and an exception recorded instead) to show that the trace spec stays total: rejections, never
            # a TLC evaluation error
            import random as _r

            fr = _r.Random(12345)
            keep = None

            def damage(e):
                if not isinstance(e, dict) or fr.random() > fuzz:
                    return e
                e = dict(e)
                cands = [k2 for k2 in e if k2 in ("res", "back", "after", "sp", "signs", "over", "parsed", "reformat", "res_cal", "res_dim", "consumed",
                                                   "safe", "sum", "diff", "rebuilt", "changed", "acc", "tod", "more", "name", "offset", "text", "again")]
                for k2 in fr.sample(cands, min(len(cands), fr.randint(1, 3))):
                    del e[k2]
                e.setdefault(fr.choice(["exc", "rexc", "exc"]), "ValueError")
                return e

            shards = [[damage(e) for e in sh] for sh in shards]
        nevents = sum(len(s) for s in shards)
        tdir = self.workdir / f"traces_{module}{tag}"
        tdir.mkdir(parents=True, exist_ok=True)
        files = []
        for k, sh in enumerate(shards):
            f = tdir / f"shard{k}.json"
            with open(f, "w") as fh:
                json.dump(sh, fh, separators=(",", ":"))
            files.append(f)

        unevaluable: dict[int, list] = {}

        def failed_call(ev) -> bool:
            """Does the event record a call of the implementation that failed (so that results may legitimately be missing)?"""
            if not isinstance(ev, dict):
                return False
            if any(k2 in ev for k2 in ("exc", "rexc", "wexc", "dur_exc", "safe_exc")):
                return True
            if isinstance(ev.get("out"), str) and ev["out"] != "ok":
                return True
            return any(isinstance(p2, dict) and str(p2.get("out", "")).startswith("raised") for p2 in ev.get("parses", []) if isinstance(ev.get("parses"), list))

        def one(k):
            e = {"TRACE_FILE": str(files[k])}
            if env:
                e.update(env)
            # A trace spec is meant to be total, but an event recording a *failed call* can lack a field the spec reads without
            # a guard; TLC then stops with an evaluation error.  Such an event is itself the evidence of a violation (the call
            # failed where the spec expected results): it is set aside as a verdict and the rest of the shard is validated.
            removed = []
            cur = list(shards[k])
            index = list(range(1, len(cur) + 1))          # original 1-based positions of the events still in the file
            for _attempt in range(40):
                r = run_tlc(
                    module, cfg, workdir=self.workdir, mode="trace", workers=1, env=e, timeout=timeout, heap=heap,
                    deque=deque, tag=f"{tag}s{k}",
                )
                if r.ok or "The behavior up to this point is" not in (r.out or ""):
                    break
                tail = r.out[r.out.rfind("The behavior up to this point is"):]
                ls = re.findall(r"\bl = (\d+)", tail)
                if not ls:
                    break
                pos = int(ls[-1])
                if not (1 <= pos <= len(cur)) or not failed_call(cur[pos - 1]):
                    break
                removed.append((index[pos - 1], cur[pos - 1]))
                del cur[pos - 1]
                del index[pos - 1]
                with open(files[k], "w") as fh:
                    json.dump(cur, fh, separators=(",", ":"))
            unevaluable[k] = (removed, index)
            return r

        new: list[Reject] = []
        # one JVM per shard, in parallel - but never more of them than fit in memory with their heaps full (the thorough tier's shards
        # are millions of events: 16 x 6 GB was more than the machine has, and the kernel killed the check)
        try:
            gb = float(heap.rstrip("gG")) if heap.lower().endswith("g") else float(heap.rstrip("mM")) / 1024
        except ValueError:
            gb = 4.0
        fit = max(2, int(_mem_budget_gb() // max(gb, 0.5)))
        with cf.ThreadPoolExecutor(max_workers=min(NCPU, len(shards), NCPU if self.quick else fit)) as ex:
            results = list(ex.map(one, range(len(shards))))
        for k, (removed, index) in unevaluable.items():
            for orig, ev in removed:
                clause = "call_failed_where_results_were_required"
                key = key_of(ev, clause) if key_of else {"clause": clause}
                key.setdefault("clause", clause)
                new.append(Reject(self.pid, clause, key, ev, verdict=True, shard=k))
        for k, r in enumerate(results):
            self.tlc_runs.append(r)
            if not r.ok:
                self.machinery_errors.append(f"trace validation {module} shard {k}: {r.error}")
                continue
            removed_k, index_k = unevaluable.get(k, ([], list(range(1, len(shards[k]) + 1))))
            if expect_len and r.distinct != len(shards[k]) - len(removed_k) + 1:
                self.machinery_errors.append(
                    f"trace validation {module} shard {k}: consumed {r.distinct - 1} of {len(shards[k]) - len(removed_k)} events"
                )
            for pv in r.printed:
                if isinstance(pv, list) and len(pv) >= 3 and pv[0] in ("REJECT", "DIVERGE"):
                    clause, idx = pv[1], pv[2]
                    if isinstance(clause, str) and clause.startswith("machinery_"):
                        self.machinery_errors.append(f"{module} shard {k} event {idx}: {clause}")
                        continue
                    if isinstance(idx, int) and 1 <= idx <= len(index_k):
                        idx = index_k[idx - 1]            # position in the original shard (events set aside shift the file)
                    ev = shards[k][idx - 1] if isinstance(idx, int) and 1 <= idx <= len(shards[k]) else None
                    key = key_of(ev, clause) if (key_of and ev is not None) else {"clause": clause}
                    rj = Reject(self.pid, clause, key, ev, verdict=(pv[0] == "REJECT"), shard=k)
                    if len(pv) > 3:
                        rj.key.setdefault("detail", pv[3]) if False else None
                    new.append(rj)
        self.rejects.extend(new)
        self.events += nevents
        self.traces += ntraces if ntraces is not None else len(shards)
        return new

    def sample(self, x, cap: int = 6):
        if len(self.samples) < cap:
            self.samples.append(x)

    # -- verdict -----------------------------------------------------------------------------------
    def finish(self) -> int:
        wall = time.time() - self.t0
        findings = load_findings()
        open_f = [f for f in findings if f.get("property") == self.pid and f.get("status") == "open"]
        viol = []
        known_hit: dict[int, int] = {}
        diverg = []
        for rj in self.rejects:
            if not rj.verdict:
                diverg.append(rj)
                continue
            hit = None
            for i, f in enumerate(open_f):
                if all(rj.key.get(k) == v for k, v in f["key"].items()):
                    hit = i
                    break
            if hit is None:
                viol.append(rj)
            else:
                known_hit[hit] = known_hit.get(hit, 0) + 1
        for i, f in enumerate(open_f):
            # a listed finding is printed on every run (it is a property of the unchanged tree)
            n = known_hit.get(i, 0)
            print(f"KNOWN-FINDING: property={self.pid} {f['what']} (key={json.dumps(f['key'], sort_keys=True)}; hit {n}x this run)")
        if os.environ.get("VERIF_DUMP_DIVERGE"):       # development aid: every reference-clause mismatch with its event
            with open(os.environ["VERIF_DUMP_DIVERGE"], "w") as fh:
                for d in diverg:
                    fh.write(json.dumps({"clause": d.clause, "key": d.key, "event": d.event}, default=str) + "\n")
        states = sum(r.distinct for r in self.tlc_runs)
        trans = sum(r.generated for r in self.tlc_runs)
        cov: dict[str, Any] = {
            "states": states,
            "transitions": trans,
            "traces_validated_against_impl": self.traces,
            "events_validated": self.events,
            "evaluations": max(self.events, 1),
            "distinct_nontrivial": max(self.distinct_nontrivial, 0),
            "rule": self.rule,
            "samples": self.samples[:8] or ["(none)"],
            "exhaustive": self.exhaustive,
            "tlc_runs": [
                {"module": r.module, "mode": r.mode, "distinct": r.distinct, "generated": r.generated, "depth": r.depth,
                 "ok": r.ok, "wall_s": round(r.wall_s, 2), **({"action_coverage": r.coverage} if r.coverage else {})}
                for r in self.tlc_runs
                if r.mode != "trace"
            ],
            "trace_shards": sum(1 for r in self.tlc_runs if r.mode == "trace"),
            "divergences": _group_divergences(diverg),
            "known_findings_hit": {open_f[i]["what"]: n for i, n in known_hit.items()},
            **self.notes,
        }
        ev = {
            "property_id": self.pid,
            "tier": self.tier,
            "seed": self.seed,
            "level": self.level,
            "coverage": cov,
            "assumptions": self.assumptions,
            "wall_s": round(wall, 2),
            "violations": len(viol),
        }
        if self.machinery_errors:
            ev["coverage"]["machinery_errors"] = self.machinery_errors[:10]
        EVID.mkdir(parents=True, exist_ok=True)
        (EVID / f"{self.pid}.json").write_text(json.dumps(ev, indent=1, default=str))
        rc = 0
        if viol:
            rdir = Path(os.environ.get("VERIF_REPLAY_DIR", str(VERIF / "replays")))
            rdir.mkdir(parents=True, exist_ok=True)
            rp = rdir / f"{self.pid}-{self.tier}-{self.seed}.json"
            rp.write_text(
                json.dumps(
                    {"property": self.pid, "seed": self.seed, "tier": self.tier,
                     "violations": [{"clause": v.clause, "key": v.key, "event": v.event} for v in viol[:200]]},
                    indent=1, default=str,
                )
            )
            seen = set()
            for v in viol[:10]:
                s = json.dumps(v.key, sort_keys=True, default=str)
                if s in seen:
                    continue
                seen.add(s)
                print(f"  rejected: clause={v.clause} key={s}")
            print(f"VIOLATION property={self.pid} replay={rp}")
            rc = 1
        if self.machinery_errors:
            for m in self.machinery_errors[:10]:
                print(f"MACHINERY-ERROR: {m}", file=sys.stderr)
            if rc == 0:
                rc = 2
        if not os.environ.get("VERIF_KEEP_WORK"):
            shutil.rmtree(self.workdir, ignore_errors=True)
        print(
            f"[{self.pid}] tier={self.tier} seed={self.seed} states={states} transitions={trans} "
            f"traces={self.traces} events={self.events} violations={len(viol)} divergences={len(diverg)} wall={wall:.1f}s rc={rc}"
        )
        return rc


def load_findings() -> list:
    p = VERIF / "known_findings.json"
    if not p.exists():
        return []
    return json.loads(p.read_text())


# ---------------------------------------------------------------------------------------------
# number serialisation helpers (pure serialisation, no domain logic)

LIMB = 10000


def limbs(n: int) -> dict:
    """sign + little-endian base-10^4 limbs (JsonDeserialize mangles ints >= 2^31)."""
    s = (n > 0) - (n < 0)
    a = abs(n)
    ds = []
    while a:
        ds.append(a % LIMB)
        a //= LIMB
    return {"s": s, "d": ds}


def cps(s: str) -> list:
    return [ord(c) for c in s]


def parallel_map(fn, items: Iterable, procs: int = NCPU, chunksize: int = 1) -> list:
    """Run fn over items in worker processes (fork), preserving order."""
    import multiprocessing as mp

    items = list(items)
    fn = _Guarded(fn)
    if procs <= 1 or len(items) <= 1:
        return [fn(x) for x in items]
    from harness import cov

    # (an executor rather than multiprocessing.Pool: a worker that dies - killed, out of memory, interpreter crash - breaks
    #  the pool with an exception instead of leaving map() waiting for ever)
    import concurrent.futures as cf
    from concurrent.futures.process import BrokenProcessPool

    ex = cf.ProcessPoolExecutor(max_workers=min(procs, len(items)), mp_context=mp.get_context("fork"), initializer=cov.worker_init)
    try:
        return list(ex.map(fn, items, chunksize=max(1, chunksize)))
    except BrokenProcessPool as e:
        raise MachineryError(f"a worker process died while running {getattr(fn.fn, '__name__', fn)}: {e}") from e
    finally:
        ex.shutdown(wait=True, cancel_futures=True)
