from __future__ import annotations

import argparse
import importlib
import os
import sys
import traceback


def main() -> int:
    ap = argparse.ArgumentParser()
    ap.add_argument("pid")
    ap.add_argument("--tier", default=os.environ.get("VERIF_TIER", "quick"), choices=["quick", "thorough"])
    ap.add_argument("--replay", default=None)
    a = ap.parse_args()
    seed = int(os.environ.get("VERIF_SEED", "0") or 0)
    pid = a.pid.upper()
    from harness import cov
    from harness.core import Ctx, MachineryError

    cov.start()
    if os.environ.get("VERIF_CHAOS"):
        from harness import chaos

        chaos.install()

    mod = importlib.import_module(f"harness.props.{pid.lower()}")
    ctx = Ctx(pid, a.tier, seed, level=getattr(mod, "LEVEL", "model_checking"))
    try:
        if a.replay:
            mod.replay(ctx, a.replay)
        else:
            mod.run(ctx)
    except MachineryError as e:
        ctx.machinery_errors.append(str(e))
    except Exception as e:  # noqa: BLE001
        from harness.core import Reject, classify_exception

        sut = classify_exception(e)
        if sut is not None:
            # the implementation raised while being driven and no event covers it: a verdict, keyed by class and site
            ctx.rejects.append(Reject(pid, "implementation_raised_while_being_driven",
                                      {"clause": "implementation_raised_while_being_driven", "exc": sut.exc, "where": sut.where},
                                      {"message": sut.message}))
            print(f"  rejected: clause=implementation_raised_while_being_driven exc={sut.exc} where={sut.where}: {sut.message}")
        else:
            ctx.machinery_errors.append("harness exception: " + traceback.format_exc()[-1500:])
    rc = ctx.finish()
    cov.save()
    return rc


if __name__ == "__main__":
    sys.stdout.reconfigure(line_buffering=True)
    rc = main()
    sys.stdout.flush()
    os._exit(rc)  # daemon threads blocked on a deadlocked lock must not keep the process alive
