"""C20 - damaged time-zone data is rejected with the documented error, promptly (fault enumeration).

spec:  zone/TzdbLoader.tla (protocol automaton); the fault space is enumerated over the structure of the two real files
       (field boundaries, length bytes, ids, type bytes, counts, string data, transition encodings, tails...)
"""
from __future__ import annotations

import io
import random
import signal
import traceback

from harness.core import REPO, Ctx, parallel_map

LEVEL = "fault_enumeration"
TRACE_CFG = "SPECIFICATION Spec\nCHECK_DEADLOCK FALSE\n"
MC_CFG = "SPECIFICATION Spec\nCONSTRAINT Bound\nINVARIANT TypeOK\nPROPERTY RejectedIsFinal\nCHECK_DEADLOCK FALSE\n"
FILES = ["pyoda_time/time_zones/Tzdb.nzd", "tests/test_data/Tzdb2013bFromNodaTime1.1.nzd"]
CALL_TIMEOUT_S = 20
AS_HEADROOM = 2**30     # address-space headroom per worker above what it uses when it starts: a count decoded from damaged bytes
                        # must never translate into a GiB-sized allocation (the whole input is ~130 KB)


class _Hang(Exception):
    pass


def _alarm(signum, frame):
    raise _Hang()


def _where(e: BaseException) -> str:
    """The innermost pyoda_time function on the traceback (the raising call site)."""
    tb = traceback.extract_tb(e.__traceback__)
    for fr in reversed(tb):
        if "pyoda_time" in fr.filename:
            return f"{fr.filename.split('pyoda_time/')[-1]}:{fr.name}"
    return "?"


def _guard(fn):
    """Run fn under an alarm; returns (outcome, where, value)."""
    signal.signal(signal.SIGALRM, _alarm)
    signal.alarm(CALL_TIMEOUT_S)
    try:
        v = fn()
        return "ok", "", v
    except _Hang:
        return "HANG", "", None
    except MemoryError:
        return "MemoryError", "", None
    except BaseException as e:  # noqa: BLE001 - the class is the observation
        return type(e).__name__, _where(e), None
    finally:
        signal.alarm(0)


def structure(raw: bytes):
    """Field map of the original file, using the package's own field iterator: [(field id, hdr start, data start, end, zone id)]."""
    from pyoda_time.time_zones.io._date_time_zone_reader import _DateTimeZoneReader

    out = []
    pos = 4
    pool = None
    while pos < len(raw):
        fid = raw[pos]
        st = io.BytesIO(raw[pos + 1:pos + 12])
        ln = _DateTimeZoneReader._ctor(st, None).read_count()
        ds = pos + 1 + st.tell()
        zid = None
        data = raw[ds:ds + ln]
        if fid == 0:
            rd = _DateTimeZoneReader._ctor(io.BytesIO(data), None)
            pool = tuple(rd.read_string() for _ in range(rd.read_count()))
        elif fid == 1:
            zid = _DateTimeZoneReader._ctor(io.BytesIO(data), pool).read_string()
        out.append((fid, pos, ds, ds + ln, zid))
        pos = ds + ln
    return out


def _varint(v: int) -> bytes:
    out = bytearray()
    while v >= 0x80:
        out.append((v & 0x7F) | 0x80)
        v >>= 7
    out.append(v)
    return bytes(out)


def attempt(args):
    """One faulted stream: load, list ids, fetch the zones named in `probe_ids` (+ a few more)."""
    path, kind, pos, payload, probe_ids, seed = args
    import resource

    global _LIMITED
    if not _LIMITED:
        try:
            import os as _os

            vm_now = int(open("/proc/self/statm").read().split()[0]) * _os.sysconf("SC_PAGE_SIZE")
            resource.setrlimit(resource.RLIMIT_AS, (vm_now + AS_HEADROOM, vm_now + AS_HEADROOM))
        except Exception:  # noqa: BLE001
            pass
        _LIMITED = True
    # a third of the faulted streams are loaded under a cached (read-only) current culture in which another kind of value was formatted
    # first: the messages of the documented error are built with the current culture's formatting (decided by the task's seed)
    try:
        from pyoda_time import Offset as _Off
        from pyoda_time._compatibility._culture_info import CultureInfo as _CI

        global _DEFAULT_CULTURE
        if _DEFAULT_CULTURE is None:
            _DEFAULT_CULTURE = _CI.current_culture
        if seed % 3 == 0:
            getter = getattr(_CI, "get_culture_info", None)
            _CI.current_culture = getter("en-GB") if callable(getter) else _CI.read_only(_CI("en-GB"))
            str(_Off.from_hours_and_minutes(5, 30))
        else:
            _CI.current_culture = _DEFAULT_CULTURE
    except Exception:  # noqa: BLE001
        pass
    from pyoda_time.time_zones import DateTimeZoneCache
    from pyoda_time.time_zones._tzdb_date_time_zone_source import TzdbDateTimeZoneSource

    raw = _RAW[path]
    if kind == "trunc":
        data = raw[:pos]
    elif kind == "subst":
        data = raw[:pos] + bytes(payload) + raw[pos + len(payload):]
    elif kind == "insert":
        data = raw[:pos] + bytes(payload) + raw[pos:]
    elif kind == "delete":
        data = raw[:pos] + raw[pos + payload[0]:]
    elif kind == "field":
        # a whole field rewritten with consistent framing: pos = header start, payload = [old end - pos] + field id + new data bytes
        span, fid, newdata = payload[0] * 65536 + payload[1] * 256 + payload[2], payload[3], bytes(payload[4:])
        data = raw[:pos] + bytes([fid]) + _varint(len(newdata)) + newdata + raw[pos + span:]
    else:
        raise ValueError(kind)
    ev = {"op": "fault", "file": path.split("/")[-1], "kind": kind, "pos": pos, "payload": list(payload)[:12] if kind != "trunc" else [], "zones": [],
          "zone_where": [], "ids": "", "load_where": ""}
    # the stream is an in-memory one or (every other attempt) a real unnamed file: they answer oversized reads differently
    def open_stream():
        if seed % 2:
            import tempfile

            f = tempfile.TemporaryFile()
            f.write(data)
            f.seek(0)
            return f
        return io.BytesIO(data)

    ev["stream"] = "file" if seed % 2 else "memory"
    o, w, src = _guard(lambda: TzdbDateTimeZoneSource.from_stream(open_stream()))
    ev["load"], ev["load_where"] = o, w
    if o != "ok":
        return ev

    def ids_and_cache():
        c = DateTimeZoneCache(src)
        return c, list(c.ids), src.version_id

    o, w, res = _guard(ids_and_cache)
    ev["ids"] = o if o == "ok" else f"{o}@{w}"
    if o != "ok":
        return ev
    cache, ids, _ = res
    rnd = random.Random(seed)
    want = [i for i in probe_ids if i in ids]
    want += rnd.sample(ids, min(3, len(ids)))
    for zid in want[:8]:
        def fetch(zid=zid):
            return cache[zid]

        o, w, _ = _guard(fetch)
        ev["zones"].append(o)
        ev["zone_where"].append(w)
    return ev


_RAW: dict = {}
_LIMITED = False
_NSTRUCT: dict = {}
_DEFAULT_CULTURE = None


def plan(path: str, rnd: random.Random, q: bool) -> list:
    raw = _RAW[path]
    fields = structure(raw)
    tasks = []
    n = len(raw)
    aliases_of: dict = {}

    def add(kind, pos, payload, zid):
        probe = [zid] if zid else []
        tasks.append((path, kind, pos, payload, probe, rnd.randrange(10**9)))

    # truncations: header, every structural boundary +-1, and a stride
    cuts = {0, 1, 2, 3, 4, 5, n - 1, n - 2}
    for fid, hs, ds, end, zid in fields:
        cuts.update({hs, hs + 1, ds, ds + 1, end - 1, end})
    cuts.update(range(0, n, 997 if q else 61))
    for c in sorted(x for x in cuts if 0 <= x < n):
        zid = next((f[4] for f in fields if f[1] <= c < f[3]), None)
        add("trunc", c, [], zid)
    # substitutions at structurally distinct byte classes
    vals = [0x00, 0x7F, 0x80, 0xFF]
    for fid, hs, ds, end, zid in fields:
        spots = {hs, hs + 1, ds, ds + 1, ds + 2, end - 1}            # field id, length byte(s), first data bytes, last byte
        k = 2 if q else 12
        spots.update(rnd.randint(ds, max(ds, end - 1)) for _ in range(k))
        if fid != 1 and q and rnd.random() < 0.5:
            spots = set(list(spots)[:4])
        for p in sorted(s for s in spots if 4 <= s < n):
            for v in ([rnd.choice(vals)] if q else vals) + [(raw[p] + 1) % 256, rnd.randrange(256)]:
                if v != raw[p]:
                    add("subst", p, [v], zid)
            if rnd.random() < (0.15 if q else 0.5):
                add("subst", p, [rnd.randrange(256) for _ in range(rnd.randint(2, 4))], zid)
            if rnd.random() < (0.1 if q else 0.4):
                add("insert", p, [rnd.choice(vals + [rnd.randrange(256)]) for _ in range(rnd.randint(1, 3))], zid)
            if rnd.random() < (0.1 if q else 0.4):
                add("delete", p, [rnd.randint(1, 4)], zid)
    # counts decoded from damaged bytes must not be trusted for allocation: huge varints at the first bytes of every zone field
    for fid, hs, ds, end, zid in fields:
        if fid == 1 and (not q or rnd.random() < 0.25):
            for p in range(ds + 1, min(ds + 5, end)):
                for payload in ([0xFF, 0xFF, 0xFF, 0x7F], [0xFF, 0xFF, 0xFF, 0xFF, 0x07], [0xFF, 0xFF, 0xFF, 0xFF]):
                    add("subst", p, payload, zid)
    n_plain = len(tasks)
    # semantic collisions inside a zone: a byte takes the value of another byte of the same zone's last 40 bytes (the recurring
    # rules of the tail live there: equal months, equal offsets, equal names are what corrupt a zone while every field still decodes)
    for fid, hs, ds, end, zid in fields:
        if fid != 1 or end - ds < 12:
            continue
        if q and rnd.random() > 0.2:
            continue
        lo = max(ds + 2, end - 40)
        pairs = [(p, p2) for p in range(lo, end) for p2 in range(lo, end) if p != p2 and raw[p] != raw[p2]]
        for p, p2 in rnd.sample(pairs, min(len(pairs), 25 if q else 160)):
            add("subst", p, [raw[p2]], zid)
    # a zone's id (a pool index at the start of its field) replaced by other pool entries, framing kept consistent:
    # the empty string, another zone's id (a duplicate), the last entry, an index past the pool
    pool_field = next((f for f in fields if f[0] == 0), None)
    if pool_field is not None:
        from pyoda_time.time_zones.io._date_time_zone_reader import _DateTimeZoneReader

        rd = _DateTimeZoneReader._ctor(io.BytesIO(raw[pool_field[2]:pool_field[3]]), None)
        pool = [rd.read_string() for _ in range(rd.read_count())]
        zone_ids = [f[4] for f in fields if f[0] == 1]
        for fid, hs, ds, end, zid in fields:
            if fid != 1 or (q and rnd.random() > 0.04):
                continue
            st = io.BytesIO(raw[ds:end])
            _DateTimeZoneReader._ctor(st, None).read_count()
            idlen = st.tell()
            cands = [len(pool) - 1, len(pool), 0, pool.index(rnd.choice(zone_ids)) if rnd.choice(zone_ids) in pool else 1]
            if "" in pool:
                cands.append(pool.index(""))
            for idx in cands:
                newdata = _varint(idx) + raw[ds + idlen:end]
                span = end - hs
                add("field", hs, [span >> 16, (span >> 8) & 255, span & 255, 1] + list(newdata), zid)
                tasks[-1] = tasks[-1][:4] + ([zid, "", pool[idx] if 0 <= idx < len(pool) else zid],) + tasks[-1][5:]
    # a zone's transitions replaced, one at a time and with consistent framing, by the special encodings: the end-of-time marker,
    # the start-of-time marker, "128 hours after the previous one", or a copy of the previous transition (an empty interval)
    if pool_field is not None:
        from pyoda_time.time_zones._precalculated_date_time_zone import _PrecalculatedDateTimeZone

        for fid, hs, ds, end, zid in fields:
            if fid != 1 or (q and rnd.random() > 0.06):
                continue
            data0 = raw[ds:end]
            st = io.BytesIO(data0)
            rd = _DateTimeZoneReader._ctor(st, tuple(pool))
            spans = []
            try:
                orig = rd.read_zone_interval_transition

                def logged(prev, orig=orig, st=st, spans=spans):
                    a0 = st.tell()
                    v0 = orig(prev)
                    spans.append((a0, st.tell()))
                    return v0

                rd.read_zone_interval_transition = logged
                rd.read_string()
                if rd.read_byte() != 2:
                    continue
                _PrecalculatedDateTimeZone._read(rd, zid)
            except Exception:  # noqa: BLE001 - this reader cannot be observed that way: no such faults
                continue
            picks = spans[-3:] + spans[:1]
            for i, (a0, b0) in enumerate(picks):
                prev_bytes = data0[spans[spans.index((a0, b0)) - 1][0]:spans[spans.index((a0, b0)) - 1][1]] if spans.index((a0, b0)) > 0 else b"\x00"
                for repl in (b"\x01", b"\x00", b"\x80\x01", prev_bytes):
                    if data0[a0:b0] == repl:
                        continue
                    newdata = data0[:a0] + repl + data0[b0:]
                    span = end - hs
                    add("field", hs, [span >> 16, (span >> 8) & 255, span & 255, 1] + list(newdata), zid)
    # a field's length prefix claiming (far) more bytes than the stream has: 256 MiB, 1 GiB, just under 2 GiB; through both kinds of
    # stream (an in-memory stream clamps an oversized read, a file object allocates the requested size first)
    for fid, hs, ds, end, zid in (fields if not q else rnd.sample(fields, 25) + fields[-4:]):
        for payload in ([0xFF, 0xFF, 0xFF, 0x7F], [0x80, 0x80, 0x80, 0x80, 0x04], [0xFF, 0xFF, 0xFF, 0xFF, 0x07], [0xC5, 0xFF, 0xFF, 0xFF, 0x07]):
            for parity in (0, 1):
                add("subst", hs + 1, payload, zid)
                tasks[-1] = tasks[-1][:5] + ((tasks[-1][5] // 2) * 2 + parity,)     # seed parity selects the stream kind
    structured = tasks[n_plain:]
    del tasks[n_plain:]
    # the shortest prefixes (inside and just after the version word) are always kept too
    structured += [x for x in tasks if x[1] == "trunc" and x[2] <= 8]
    tasks[:] = [x for x in tasks if not (x[1] == "trunc" and x[2] <= 8)]
    # the 4-byte version header
    for p in range(4):
        for v in vals + [1]:
            if v != raw[p]:
                add("subst", p, [v], None)
    # the list-shaped fields (alias map, windows mapping, zone locations, zone-1970 locations): their counts are single bytes among
    # pool indices - a count of zero or one where the reader assumes more is its own kind of damage; zeros and ones all over them
    for fid, hs, ds, end, zid in fields:
        if fid in (3, 4, 5, 6, 7) and end > ds:
            span = range(ds, end)
            spots = span if len(span) <= (150 if q else 6000) else rnd.sample(span, 150 if q else 6000)
            for p2 in spots:
                for v in (0, 1):
                    if raw[p2] != v and (not q or rnd.random() < 0.6):
                        structured.append((path, "subst", p2, [v], [], rnd.randrange(10**9)))
    _NSTRUCT[path] = len(structured)
    return tasks + structured


def run(ctx: Ctx):
    q = ctx.quick
    rnd = random.Random(ctx.seed + 20)
    ctx.mc("MC_TzdbLoader", MC_CFG, workers=1, tag="protocol")
    tasks = []
    for f in FILES:
        path = str(REPO / f)
        _RAW[path] = open(path, "rb").read()
        t = plan(path, rnd, q)
        if q and len(t) > 6000:
            # the structured faults (whole-field edits, semantic collisions in zone tails) are few and always kept
            ns = _NSTRUCT[path]
            keep, rest = t[len(t) - ns:], t[:len(t) - ns]
            keep = keep if len(keep) <= 2500 else rnd.sample(keep, 2500)
            t = keep + rnd.sample(rest, min(len(rest), 6000 - len(keep)))
        tasks += t
    rnd.shuffle(tasks)
    evs = parallel_map(attempt, tasks, chunksize=20)
    outcomes: dict = {}
    for e in evs:
        outcomes[e["load"]] = outcomes.get(e["load"], 0) + 1
    ctx.notes["faulted_streams"] = len(evs)
    ctx.notes["load_outcomes"] = outcomes
    ctx.notes["zone_fetches"] = sum(len(e["zones"]) for e in evs)
    ctx.notes["by_kind"] = {k: sum(1 for e in evs if e["kind"] == k) for k in ("trunc", "subst", "insert", "delete", "field")}
    ctx.distinct_nontrivial = len({(e["file"], e["kind"], e["pos"], tuple(e["payload"])) for e in evs})
    for e in evs[:3]:
        ctx.sample(e)

    def key_of(ev, clause):
        k = {"clause": clause}
        if clause.startswith("load") :
            k.update(exc=ev["load"], where=ev["load_where"])
        elif clause.startswith("listing"):
            k.update(exc=ev["ids"])
        else:
            for o, w in zip(ev["zones"], ev["zone_where"]):
                if o not in ("ok", "InvalidPyodaDataError"):
                    k.update(exc=o, where=w)
                    break
        return k

    shards = [evs[i:i + 4000] for i in range(0, len(evs), 4000)]
    ctx.validate("Trace_TzdbLoader", TRACE_CFG, None, shards=shards, key_of=key_of, ntraces=len(evs))
    ctx.rule = ("faults applied to both real database files: truncation at every structural boundary +-1 and every "
                + ("997th" if q else "61st") + " byte; 1-4 byte substitutions (0x00/0x7F/0x80/0xFF/+1/random), insertions and deletions at the field id, "
                "length bytes, first data bytes, last byte and random interior bytes of every field; each faulted stream is loaded, its ids "
                "listed and the zone containing the fault (plus 3 random ids) fetched and queried, every call under a 20 s alarm and 1 GiB of address-space "
                "headroom; non-trivial = distinct (file, fault)")
    ctx.assumptions += ["the structure map (field boundaries, zone ids) is derived with the package's own reader on the undamaged file",
                        "hang = no return within 20 s; memory exhaustion = MemoryError with 1 GiB of address space above the worker's starting size"]


def replay(ctx, path):
    run(ctx)
