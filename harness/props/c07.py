"""C07 - formatting then parsing with the same pattern returns the original value."""
from __future__ import annotations

import random

from harness import proj
from harness.core import Ctx, cps, parallel_map
from harness.drivers import textgen

TRACE_CFG = "SPECIFICATION Spec\nCHECK_DEADLOCK FALSE\n"
MC_CFG = "SPECIFICATION Spec\nINVARIANT RoundTripLaw\n"
TYPES = ["Offset", "LocalTime", "LocalDate", "LocalDateTime", "AnnualDate", "Duration", "Instant"]
ROUND_TRIP_TOKENS = {
    "Offset": ["+", "-", "H", "HH", "m", "mm", "s", "ss", ":", "'x'", "\\:", " "],
    "LocalTime": ["H", "HH", "h", "hh", "m", "mm", "s", "ss", "fff", "ffffff", "fffffffff", "FFF", "FFFFFFFFF", ".fff", ".FFF", ";fff", ";FFFFFFFFF",
                  "f", "ff", "ffff", "fffff", "F", "FFFF", ".ffff", ".FFFF", ".FFFFFF", ";FFFF", ".fffffff", ".FFFFFFFF",
                  "t", "tt", ":", ".", " ", "'at'", "\\h", "'.'", "\\."],
    "LocalDate": ["yyyy", "yy", "uuuu", "uuu", "uu", "u", "M", "MM", "MMM", "MMMM", "d", "dd", "ddd", "dddd", "g", "gg", "c", "/", "-", " ", "'of'", ",", "\\d"],
    "AnnualDate": ["M", "MM", "MMM", "MMMM", "d", "dd", "/", "-", " ", "'of'"],
}
ROUND_TRIP_TOKENS["Duration"] = ["D", "DD", "H", "HH", "h", "hh", "M", "MM", "m", "mm", "S", "SS", "s", "ss", "+", "-", ":", ".", " ", "'d'", "'.'", "\\.",
                                 "fff", "fffffffff", "FFF", "FFFFFFFFF", ".fff", ".FFF", ".FFFFFFFFF", "ffff", ".FFFF", ".ff", ".FFFFFFF"]
ROUND_TRIP_TOKENS["Instant"] = ["uuuu", "uuu", "uu", "yyyy", "MM", "M", "dd", "d", "HH", "H", "mm", "m", "ss", "s", "fff", "FFFFFFFFF", ";FFF", ".fff", ".FFFF", ".ffffff", "'T'", "'Z'", ":", "-", "/", " "]
# embedded patterns: the spec sees the inner tokens spliced in (an embedded pattern captures exactly what its inner fields capture)
EMBEDDED = {
    "ld<uuuu-MM-dd>": ["uuuu", "-", "MM", "-", "dd"],
    "ld<d/M/yyyy gg>": ["d", "/", "M", "/", "yyyy", " ", "gg"],
    "ld<uu MMM d>": ["uu", " ", "MMM", " ", "d"],
    "lt<HH:mm:ss>": ["HH", ":", "mm", ":", "ss"],
    "lt<HH:mm:ss.fff>": ["HH", ":", "mm", ":", "ss", ".fff"],
    "lt<H:mm:ss;FFFFFFFFF>": ["H", ":", "mm", ":", "ss", ";FFFFFFFFF"],
    "lt<hh:mm tt>": ["hh", ":", "mm", " ", "tt"],
    "l<uuuu-MM-dd'T'HH:mm:ss.fffffffff>": ["uuuu", "-", "MM", "-", "dd", "'T'", "HH", ":", "mm", ":", "ss", ".fffffffff"],
    "l<d/M/uuuu H:mm>": ["d", "/", "M", "/", "uuuu", " ", "H", ":", "mm"],
}
ROUND_TRIP_TOKENS["LocalDateTime"] = sorted(set(ROUND_TRIP_TOKENS["LocalDate"] + ROUND_TRIP_TOKENS["LocalTime"] + ["'T'"])) + list(EMBEDDED)
BUILTIN = {
    "LocalDate": ["iso", "full_roundtrip"],
    "LocalTime": ["extended_iso", "long_extended_iso"],
    "LocalDateTime": ["extended_iso", "full_roundtrip", "full_roundtrip_without_calendar"],
    "Instant": ["extended_iso"],
    "Offset": ["general_invariant", "general_invariant_with_z"],
    "Duration": ["roundtrip", "json_roundtrip"],
    "AnnualDate": ["iso"],
}


def fields(typ, v) -> dict:
    if typ == "Offset":
        return {"sec": v.seconds}
    if typ == "LocalTime":
        n = v.nanosecond_of_day
        s = n // 10**9
        return {"h": s // 3600, "mi": (s % 3600) // 60, "s": s % 60, "n": n % 10**9}
    if typ == "LocalDate":
        return {"y": v.year, "m": v.month, "d": v.day, "era": v.era.name, "cal": v.calendar.id, "yoe": v.year_of_era, "yymax": 30}
    if typ == "LocalDateTime":
        return {**fields("LocalDate", v.date), **fields("LocalTime", v.time_of_day)}
    if typ == "AnnualDate":
        return {"m": v.month, "d": v.day}
    if typ == "Duration":
        return {"t3": proj.t3_duration(v)}
    if typ == "Instant":
        return {"t3": proj.t3_instant(v)}
    if typ == "DurationParts":
        ns = abs(v.to_nanoseconds())
        secs = ns // 10**9
        return {"neg": v.to_nanoseconds() < 0, "days": min(secs // 86400, 2 * 10**9), "h": (secs % 86400) // 3600, "mi": (secs % 3600) // 60, "s": secs % 60, "n": ns % 10**9}
    if typ == "InstantParts":
        u = v.in_utc()
        return {**fields("LocalDate", u.date), **fields("LocalTime", u.time_of_day)}
    raise ValueError(typ)


def culture_seps(culture) -> tuple:
    from pyoda_time.globalization._pyoda_format_info import _PyodaFormatInfo

    try:
        fi = _PyodaFormatInfo.invariant_info if culture is None else _PyodaFormatInfo._get_format_info(culture)
        return cps(fi.time_separator), cps(fi.date_separator)
    except Exception:  # noqa: BLE001
        return cps(":"), cps("/")


def _fi(culture):
    from pyoda_time.globalization._pyoda_format_info import _PyodaFormatInfo

    return _PyodaFormatInfo.invariant_info if culture is None else _PyodaFormatInfo._get_format_info(culture)


def culture_flags(culture) -> tuple:
    """(am/pm designators usable, month/day names usable) for a culture (None = invariant).

    Names are usable when, as the property says, they are pairwise distinct (compared the way the parser compares:
    ignoring case), non-empty and free of digits; the genitive and plain month tables are both consulted when parsing, so
    a text shared between them must denote the same month."""
    try:
        fi = _fi(culture)
        am, pm = fi.am_designator, fi.pm_designator
        ampm = bool(am) and bool(pm) and am != pm and am[0].lower() != pm[0].lower() and not any(ch.isdigit() for ch in am + pm)
        ok = True
        tables = []
        for lst in (fi.long_month_names, fi.short_month_names, fi.long_month_genitive_names, fi.short_month_genitive_names):
            tables.append([x for x in list(lst)[1:13]])
        days = [[x for x in list(lst)[1:8]] for lst in (fi.long_day_names, fi.short_day_names)]
        for xs in tables + days:
            if any(not x for x in xs) or any(ch.isdigit() for x in xs for ch in x):
                ok = False
                continue
            low = [x.lower() for x in xs]
            if len(low) != len(set(low)):
                ok = False
        for plain, gen in ((tables[0], tables[2]), (tables[1], tables[3])):
            if any(not x for x in plain + gen):
                continue
            for i, a2 in enumerate(plain):
                for j, b2 in enumerate(gen):
                    if i != j and a2.lower() == b2.lower():
                        ok = False
        return ampm, ok
    except Exception:  # noqa: BLE001
        return False, False


def name_extends(culture, tokens, month, dow) -> bool:
    """Is a name this pattern prints for this value a proper prefix of another name the parser tries at the same place?

    The parser takes the longest candidate matching at the cursor, so the printed name N is read back unless a longer
    candidate starting with N also matches, which depends on the text that follows: such events make no claim."""
    try:
        fi = _fi(culture)
        has_day = any(t in ("d", "dd") for t in tokens)
        for t in tokens:
            if t in ("MMM", "MMMM"):
                plain = list(fi.short_month_names if t == "MMM" else fi.long_month_names)
                gen = list(fi.short_month_genitive_names if t == "MMM" else fi.long_month_genitive_names)
                n = (gen if has_day else plain)[month]
                cands = [x for x in plain + gen if x]
            elif t in ("ddd", "dddd") and dow is not None:
                names = list(fi.short_day_names if t == "ddd" else fi.long_day_names)
                n = names[dow]
                cands = [x for x in names if x]
            else:
                continue
            if not n:
                return True
            for f in (str.lower, str.casefold):
                if any(len(x) > len(n) and f(x).startswith(f(n)) for x in cands):
                    return True
        return False
    except Exception:  # noqa: BLE001
        return True


_TEMPLATE_TIME: dict = {}          # id(pattern) -> the time of day of the template value the driver gave it


def fit_value(typ, tokens, v, pat, rnd):
    """Move a random value onto what the pattern can represent: every field the pattern does not capture takes the
    template's value and the fraction is cut to the pattern's precision (the round-trip law speaks about exactly these)."""
    from pyoda_time import AnnualDate, Duration, LocalDate, LocalDateTime, LocalTime, Offset

    has = lambda *ts: any(t in ts for t in tokens)  # noqa: E731
    fracs = [len(t.lstrip(".;")) for t in tokens if t.lstrip(".;") and set(t.lstrip(".;")) <= {"f"} or t.lstrip(".;") and set(t.lstrip(".;")) <= {"F"}]
    prec = max(fracs) if fracs else 0

    def fit_time(t: LocalTime) -> LocalTime:
        h, mi, sec, n = t.hour, t.minute, t.second, t.nanosecond_of_second
        tt = _TEMPLATE_TIME.get(id(pat)) or LocalTime.midnight
        if not has("H", "HH"):
            if has("h", "hh"):
                h = h if has("t", "tt") else h % 12 + 12 * (tt.hour // 12)
            else:
                h = tt.hour % 12 + rnd.choice([0, 12]) if has("t", "tt") else tt.hour
        if not has("m", "mm"):
            mi = tt.minute
        if not has("s", "ss"):
            sec = tt.second
        n = n - n % 10 ** (9 - prec) if prec else tt.nanosecond_of_second
        return LocalTime.from_hour_minute_second_nanosecond(h, mi, sec, n)

    def fit_date(d: LocalDate) -> LocalDate:
        try:
            tpl = pat.with_calendar(d.calendar).template_value
            tpl = tpl.date if hasattr(tpl, "date") else tpl
        except Exception:  # noqa: BLE001
            return d
        y, m, dd = d.year, d.month, d.day
        if not has("yyyy", "uuuu", "uuu", "uu", "u"):
            y = tpl.year
            if has("yy"):
                # a year of the hundred the pattern's two-digit window covers (sometimes one just outside it)
                try:
                    ymax = pat.two_digit_year_max
                    cent = tpl.year_of_era // 100
                    two = rnd.randint(0, 99)
                    yoe = two + 100 * (cent - (1 if two > ymax and cent > 1 else 0)) + rnd.choice([0, 0, 0, 100, -100])
                    y = d.calendar.get_absolute_year(max(yoe, 1), tpl.era)
                except Exception:  # noqa: BLE001
                    pass
        if not has("M", "MM", "MMM", "MMMM"):
            m = tpl.month
        if not has("d", "dd"):
            dd = tpl.day
        cal = d.calendar
        m = min(m, cal.get_months_in_year(y))
        dd = min(dd, cal.get_days_in_month(y, m))
        return LocalDate(y, m, dd, cal)

    try:
        if typ == "LocalTime":
            return fit_time(v)
        if typ == "LocalDate":
            return fit_date(v)
        if typ == "LocalDateTime":
            return fit_date(v.date).at(fit_time(v.time_of_day))
        if typ == "AnnualDate":
            tpl = pat.template_value
            m = v.month if has("M", "MM", "MMM", "MMMM") else tpl.month
            d = v.day if has("d", "dd") else tpl.day
            return AnnualDate(m, min(d, [31, 29, 31, 30, 31, 30, 31, 31, 30, 31, 30, 31][m - 1]))
        if typ == "Offset":
            sec = v.seconds
            a = abs(sec)
            hh, mm, ss = a // 3600, (a % 3600) // 60, a % 60
            if not has("H", "HH"):
                hh = 0
            if not has("m", "mm"):
                mm = 0
            if not has("s", "ss"):
                ss = 0
            a = hh * 3600 + mm * 60 + ss
            return Offset.from_seconds(-a if sec < 0 and has("+", "-") else a)
        if typ == "Instant":
            u = v.in_utc()
            ldt = u.local_date_time
            tplv = pat.template_value.in_utc().local_date_time
            y, m, dd = ldt.year, ldt.month, ldt.day
            if not has("yyyy", "uuuu", "uuu", "uu", "u"):
                y = tplv.year
            if not has("M", "MM"):
                m = tplv.month
            if not has("d", "dd"):
                dd = tplv.day
            dd = min(dd, ldt.calendar.get_days_in_month(y, m))
            return LocalDate(y, m, dd).at(fit_time(ldt.time_of_day)).in_utc().to_instant()
        if typ == "Duration":
            ns = v.to_nanoseconds()
            neg = ns < 0 and has("+", "-")
            a = abs(ns)
            a -= a % 10 ** (9 - prec)
            secs, n = divmod(a, 10**9)
            dd, hh, mm, ss = secs // 86400, (secs % 86400) // 3600, (secs % 3600) // 60, secs % 60
            tot_d, tot_h, tot_m, tot_s = has("D", "DD"), has("H", "HH"), has("M", "MM"), has("S", "SS")
            if not (tot_d or tot_h or tot_m or tot_s):
                dd = 0
            if not (tot_h or tot_m or tot_s or has("h", "hh")):
                hh = 0
            if not (tot_m or tot_s or has("m", "mm")):
                mm = 0
            if not (tot_s or has("s", "ss")):
                ss = 0
            a = ((dd * 24 + hh) * 60 + mm) * 60 * 10**9 + ss * 10**9 + n
            return Duration.from_nanoseconds(-a if neg else a)
    except Exception:  # noqa: BLE001 - the fitted fields do not form a value: keep the random one
        return v
    return v


def tokenise(text: str):
    """Tokens of a culture's own pattern text (the expansion of a standard pattern letter), in the vocabulary the spec knows.

    Runs of one letter are fields; quoted and escaped literals are canonicalised to a known literal token when they cannot be
    mistaken for a field's text (no digits, signs, periods or commas); '.' or ';' directly before a fraction run joins it.
    Anything else is kept verbatim: a token outside the spec's vocabulary makes no round-trip claim."""
    toks, i = [], 0
    while i < len(text):
        ch = text[i]
        if ch in "'\"":
            j = text.find(ch, i + 1)
            if j < 0:
                return None
            lit = text[i + 1:j]
            safe = lit and not any(c.isdigit() or c in ".,;+-:/" for c in lit)
            toks.append("'at'" if safe else text[i:j + 1])
            i = j + 1
        elif ch == "\\":
            if i + 1 >= len(text):
                return None
            c = text[i + 1]
            toks.append("\\h" if not (c.isdigit() or c in ".,;+-:/") else text[i:i + 2])
            i += 2
        elif ch.isalpha():
            j = i
            while j < len(text) and text[j] == ch:
                j += 1
            run = text[i:j]
            if ch in "fF" and toks and toks[-1] in (".", ";"):
                toks[-1] = toks[-1] + run
            else:
                toks.append(run)
            i = j
        else:
            toks.append(ch)
            i += 1
    return toks


def standard_expansion(typ: str, letter: str, culture):
    """The custom pattern text a culture-dependent standard letter stands for (as the pattern parsers document)."""
    f = _fi(culture).date_time_format
    table = {
        ("LocalTime", "t"): lambda: f.short_time_pattern, ("LocalTime", "T"): lambda: f.long_time_pattern,
        ("LocalDate", "d"): lambda: f.short_date_pattern, ("LocalDate", "D"): lambda: f.long_date_pattern,
        ("LocalDate", "M"): lambda: f.month_day_pattern,
        ("LocalDateTime", "f"): lambda: f.long_date_pattern + " " + f.short_time_pattern,
        ("LocalDateTime", "F"): lambda: f.full_date_time_pattern,
        ("LocalDateTime", "g"): lambda: f.short_date_pattern + " " + f.short_time_pattern,
        ("LocalDateTime", "G"): lambda: f.short_date_pattern + " " + f.long_time_pattern,
    }
    return table[(typ, letter)]()


STANDARD_LETTERS = {"LocalTime": "tT", "LocalDate": "dDM", "LocalDateTime": "fFgG"}


def gen(args) -> list:
    seed, npat = args
    from pyoda_time import AnnualDate, CalendarSystem, LocalTime

    rnd = random.Random(seed)
    cals = [CalendarSystem.for_id(c) for c in CalendarSystem.ids]
    cults = [None, None, None] + textgen.cultures(rnd, 5)
    flags = {id(c): culture_flags(c) for c in cults}
    seps = {id(c): culture_seps(c) for c in cults}
    evs = []
    kept_patterns: list = []
    p_single: dict = {}
    for _ in range(npat):
        typ = rnd.choice(TYPES)
        culture = rnd.choice(cults)
        ampm_ok, text_ok = flags[id(culture)]
        tsep, dsep = seps[id(culture)]
        builtin = rnd.random() < 0.25
        tokens = []
        yymax = 30
        try:
            if not builtin and typ in STANDARD_LETTERS and rnd.random() < 0.3:
                # a standard letter: it stands for the culture's own pattern text, whose tokens the spec is given
                letter = rnd.choice(STANDARD_LETTERS[typ])
                pname = letter
                pat = textgen.create(typ, letter, culture)
                tokens = tokenise(standard_expansion(typ, letter, culture))
                if tokens is None:
                    continue
                pname = "standard:" + letter
            elif builtin:
                name = rnd.choice(BUILTIN[typ])
                pat = getattr(textgen.pattern_class(typ), name)
                pname = "builtin:" + name
                culture = None
            else:
                k = rnd.choice([1, 2, 3, 3, 4, 5, 5, 6, 7])
                toks = ROUND_TRIP_TOKENS[typ]
                picked = None
                if typ in ("LocalDate", "LocalTime", "LocalDateTime", "Instant", "AnnualDate") and rnd.random() < 0.55:
                    # field-structured: at most one token per field kind, every combination of kinds about equally often
                    # (uniform token draws almost never produce, say, year-of-era + era + a 12-hour clock + am/pm together)
                    picked = []
                    if typ != "LocalTime":
                        if typ != "AnnualDate":
                            yk = rnd.choice([None, "yyyy", "yyyy", "yy", "uuuu", "uuu", "uu", "u"])
                            if typ == "Instant" and yk == "yy":
                                yk = "yyyy"
                            if yk:
                                picked.append(yk)
                            if typ != "Instant" and yk in ("yyyy", "yy") and rnd.random() < 0.6:
                                picked.append(rnd.choice(["g", "gg"]))
                            if typ != "Instant" and rnd.random() < 0.1:
                                picked.append("c")
                        mk = rnd.choice([None, "M", "MM", "MMM", "MMMM"] if typ != "Instant" else [None, "M", "MM"])
                        if mk:
                            picked.append(mk)
                        dk = rnd.choice([None, "d", "dd"])
                        if dk:
                            picked.append(dk)
                        if typ in ("LocalDate", "LocalDateTime") and rnd.random() < 0.12:
                            picked.append(rnd.choice(["ddd", "dddd"]))
                    if typ in ("LocalTime", "LocalDateTime", "Instant"):
                        hk = rnd.choice([None, "H", "HH", "h", "hh"])
                        if hk:
                            picked.append(hk)
                        if (hk in ("h", "hh") and rnd.random() < 0.7) or rnd.random() < 0.05:
                            picked.append(rnd.choice(["t", "tt"]))
                        for fam in (["m", "mm"], ["s", "ss"]):
                            if rnd.random() < 0.6:
                                picked.append(rnd.choice(fam))
                        if rnd.random() < 0.4:
                            kf = rnd.randint(1, 9)
                            picked.append(rnd.choice(["", ".", ";"]) + rnd.choice(["f", "F"]) * kf)
                    rnd.shuffle(picked)
                    if rnd.random() < 0.3:
                        picked.insert(rnd.randrange(len(picked) + 1), rnd.choice(["'at'", "\\h", "'T'", "'of'"]))
                    if not picked:
                        picked = None
                tokens = []
                for _i in range(k if picked is None else len(picked)):
                    t = rnd.choice(toks) if picked is None else picked[_i]
                    fuse = bool(tokens) and tokens[-1][-1].lower() == t[0].lower() and t[0].isalpha()   # "M" + "MM" would read as "MMM"
                    if tokens and t[0].isalpha() and tokens[-1][-1].isalpha() and (fuse or rnd.random() < 0.85):
                        tokens.append(rnd.choice([":", " ", "-", "/", ".", ","]) if typ != "Offset" else ":")
                    tokens.append(t)
                pname = "".join(tokens)
                if len(pname) == 1:
                    continue            # a single letter is a standard pattern, not a custom one
                pat = textgen.create(typ, pname, culture)
                tokens = [x for t in tokens for x in EMBEDDED.get(t, [t])]
                if "yy" in tokens and typ in ("LocalDate", "LocalDateTime") and rnd.random() < 0.6:
                    yymax = rnd.choice([0, 10, 29, 30, 31, 50, 99, rnd.randint(0, 99)])
                    pat = pat.with_two_digit_year_max(yymax)
                if typ in ("LocalTime", "LocalDateTime") and rnd.random() < 0.25:
                    # another template value: fields the pattern does not capture are read back as the template's (an afternoon, a
                    # non-zero minute, second and fraction)
                    from pyoda_time import LocalDate as _LDt, LocalTime as _LTt

                    ttv = rnd.choice([_LTt(18, 0), _LTt(13, 7, 9), _LTt.from_hour_minute_second_nanosecond(23, 59, 59, 999999999),
                                      _LTt.from_hour_minute_second_nanosecond(5, 30, 15, 250000000), _LTt(12, 0)])
                    pat = pat.with_template_value(ttv if typ == "LocalTime" else _LDt(2000, 1, 1).at(ttv))
                    _TEMPLATE_TIME[id(pat)] = ttv
                    kept_patterns.append(pat)           # (kept alive: the table is keyed by object identity)
        except Exception:  # noqa: BLE001 - not a valid pattern: C08's business
            continue
        for _v in range(4):
            # short absolute-year fields pad and sign small (negative) years: bias the values towards year 0 for them
            v = textgen.random_value(typ, rnd, cals, 0.5 if any(t in ("u", "uu", "uuu", "g", "gg") for t in tokens) else 0.08)
            if typ in ("LocalDate", "LocalDateTime") and any(t in ("MMM", "MMMM", "ddd", "dddd", "g", "gg") for t in tokens):
                # name fields are in scope only for the 12-month tables of the culture: ISO/Gregorian dates
                v = v.with_calendar(CalendarSystem.iso) if v.calendar.id not in ("ISO", "Gregorian") else v
            if not builtin and rnd.random() < 0.7:
                v = fit_value(typ, tokens, v, pat, rnd)
            p = pat
            ev = {"op": "rt", "type": typ, "pattern": pname, "tokens": tokens, "culture": culture.name if culture is not None else "",
                  "roundtrip_builtin": builtin, "ampm_ok": ampm_ok, "text_ok": text_ok, "value": fields(typ, v),
                  "time_sep": tsep if not builtin else cps(":"), "date_sep": dsep if not builtin else cps("/")}
            if not builtin and not pname.startswith("standard:"):
                # generated pattern: the tokens are exactly its text, so the reference formatter can be asked for the text too
                ev["exact_tokens"] = True
                try:
                    fi = _fi(culture)
                    ev["am"], ev["pm"] = cps(fi.am_designator), cps(fi.pm_designator)
                except Exception:  # noqa: BLE001
                    pass
            if ev.get("exact_tokens") and any(t in ("MMM", "MMMM", "ddd", "dddd", "c") for t in tokens) and typ in ("LocalDate", "LocalDateTime", "AnnualDate"):
                # the culture's name tables (index 0 unused for months; days Monday = 1 .. Sunday = 7) for the reference formatter;
                # only for the 12-month calendars the tables are about
                try:
                    dv0 = v.date if typ == "LocalDateTime" else v
                    if typ == "AnnualDate" or dv0.calendar.id in ("ISO", "Gregorian"):
                        fi = _fi(culture)

                        def tab(xs, n):
                            xs = list(xs)
                            return [cps(xs[i]) if i < len(xs) else [] for i in range(1, n + 1)]

                        ev["names"] = {"long": tab(fi.long_month_names, 12), "short": tab(fi.short_month_names, 12),
                                       "longGen": tab(fi.long_month_genitive_names, 12), "shortGen": tab(fi.short_month_genitive_names, 12),
                                       "longDay": tab(fi.long_day_names, 7), "shortDay": tab(fi.short_day_names, 7),
                                       "cal": cps(dv0.calendar.id) if typ != "AnnualDate" else cps("ISO")}
                        if typ != "AnnualDate":
                            ev["dow"] = dv0.day_of_week.value
                except Exception:  # noqa: BLE001
                    pass
            if "yymax" in ev["value"]:
                ev["value"]["yymax"] = yymax
            if text_ok and any(t in ("MMM", "MMMM", "ddd", "dddd") for t in tokens):
                dv = v.in_utc().date if typ == "Instant" else v.date if typ == "LocalDateTime" else v
                if name_extends(culture, tokens, dv.month, dv.day_of_week.value if typ != "AnnualDate" else None):
                    ev["text_ok"] = False
            if id(pat) in _TEMPLATE_TIME:
                ev["ttemplate"] = fields("LocalTime", _TEMPLATE_TIME[id(pat)])
            if typ == "Duration":
                ev["parts"] = fields("DurationParts", v)
            if typ == "Instant":
                ev["parts"] = fields("InstantParts", v)
                try:
                    ev["template"] = fields("LocalDate", pat.template_value.in_utc().date)
                except Exception:  # noqa: BLE001
                    ev["template"] = {"y": 2000, "m": 1, "d": 1, "era": "CE", "cal": "ISO"}
            try:
                if typ in ("LocalDate", "LocalDateTime") and not builtin:
                    p = pat.with_calendar(v.calendar)      # the template value moves to the value's calendar
                    tv = p.template_value if typ == "LocalDate" else p.template_value.date if hasattr(p, "template_value") else None
                    if tv is None:
                        from pyoda_time import LocalDate

                        tv = LocalDate(2000, 1, 1).with_calendar(v.calendar)
                    ev["template"] = fields("LocalDate", tv)
                    # text months/eras of non-Gregorian calendars come from tables this culture may not have
                    if v.calendar.id not in ("ISO", "Gregorian"):
                        ev["text_ok"] = False
                elif typ in ("LocalDate", "LocalDateTime") and builtin and "without_calendar" not in pname and name != "iso" and name != "extended_iso":
                    pass
                elif typ in ("LocalDate", "LocalDateTime") and builtin:
                    if v.calendar.id != "ISO":
                        v = v.with_calendar(CalendarSystem.iso)
                        ev["value"] = fields(typ, v)
                if typ == "AnnualDate":
                    ev["template"] = fields("AnnualDate", p.template_value if hasattr(p, "template_value") else AnnualDate(1, 1))
                text = p.format(v)
                ev["text"] = cps(text)
                ev["again"] = cps(p.format(v))
                r = p.parse(text)
                ev["parsed_ok"] = bool(r.success)
                if r.success:
                    ev["parsed"] = fields(typ, r.value)
                    if "yymax" in ev["parsed"]:
                        ev["parsed"]["yymax"] = yymax      # (a property of the pattern, carried in the value record for the spec)
                    ev["reformat"] = cps(p.format(r.value))
            except Exception as e:  # noqa: BLE001
                ev["exc"] = type(e).__name__
            evs.append(ev)
            # spliced texts: the same pattern's text with one or two fields taken from ANOTHER value's text (each field rendered on
            # its own by a single-token pattern).  Such a text need not come from any value (an hour of 03 with the designator of
            # the afternoon): whenever it parses all the same, re-formatting what it parsed to must give it back
            if ev.get("exact_tokens") and "text" in ev and "exc" not in ev and len(tokens) >= 2 and rnd.random() < 0.35 \
                    and "".join(tokens) == pname and not any(t in ("MMM", "MMMM") for t in tokens):
                try:
                    v2 = fit_value(typ, tokens, textgen.random_value(typ, rnd, cals, 0.08), pat, rnd)
                    if typ in ("LocalDate", "LocalDateTime"):
                        v2 = v2.with_calendar(v.calendar)
                    which = set(rnd.sample(range(len(tokens)), rnd.choice([1, 1, 2])))
                    parts_txt = []
                    for i, tk in enumerate(tokens):
                        if tk in _LIT_TEXT:
                            parts_txt.append(_LIT_TEXT[tk] if not (typ in ("Offset", "Duration") and tk == "-") else None)
                        elif tk == ":":
                            parts_txt.append("".join(chr(c) for c in ev["time_sep"]) if typ in ("LocalTime", "LocalDateTime", "Instant", "Offset", "Duration") else ":")
                        elif tk == "/":
                            parts_txt.append("".join(chr(c) for c in ev["date_sep"]) if typ in ("LocalDate", "LocalDateTime", "Instant", "AnnualDate") else "/")
                        else:
                            parts_txt.append(None)
                        if parts_txt[-1] is None:
                            single = p_single.get((typ, tk, id(culture), v.calendar.id if typ in ("LocalDate", "LocalDateTime") else ""))
                            if single is None:
                                single = textgen.create(typ, tk if len(tk) > 1 else "%" + tk, culture)
                                if typ in ("LocalDate", "LocalDateTime"):
                                    single = single.with_calendar(v.calendar)
                                p_single[(typ, tk, id(culture), v.calendar.id if typ in ("LocalDate", "LocalDateTime") else "")] = single
                            parts_txt[-1] = single.format(v2 if i in which else v)
                    hybrid = "".join(parts_txt)
                    whole = "".join(chr(c) for c in ev["text"])
                    # (the per-token renderings of the value itself must add up to the pattern's own text, else no claim is made)
                    own = []
                    if hybrid != whole:
                        ev3 = {k2: v3 for k2, v3 in ev.items() if k2 not in ("again", "parsed", "parsed_ok", "reformat", "text", "names", "dow")}
                        ev3.update(spliced=True, text=cps(hybrid))
                        r = p.parse(hybrid)
                        ev3["parsed_ok"] = bool(r.success)
                        if r.success:
                            ev3["parsed"] = fields(typ, r.value)
                            if "yymax" in ev3["parsed"]:
                                ev3["parsed"]["yymax"] = yymax
                            ev3["reformat"] = cps(p.format(r.value))
                        evs.append(ev3)
                except Exception:  # noqa: BLE001 - a token that is no pattern on its own, a value the route cannot make: no spliced text
                    pass
    return evs


_FRACS = {pre + c * k for pre in ("", ".", ";") for c in "fF" for k in range(1, 10)}
_LITS = {" ", "-", ",", ".", "'at'", "\\h", "'T'", "'of'", "'.'", "\\.", "'d'", "'x'", "\\:", "\\d"}
_REF_VOCAB = {
    "fields": {"HH", "H", "hh", "h", "mm", "m", "ss", "s", "tt", "t", ":", "/", "yyyy", "yy", "uuuu", "uuu", "uu", "u", "MM", "M", "dd", "d"} | _FRACS | _LITS,
    "names": {"MMMM", "MMM", "dddd", "ddd", "c"},
    "Offset": {"+", "-", "HH", "H", "mm", "m", "ss", "s", ":", "'x'", "\\:", " "},
    "Duration": {"+", "-", "DD", "D", "hh", "h", "mm", "m", "ss", "s", ":", ".", " ", "'d'", "'.'", "\\."} | _FRACS,
}


_LIT_TEXT = {" ": " ", "-": "-", ",": ",", ".": ".", "'at'": "at", "\\h": "h", "'T'": "T", "'of'": "of", "'.'": ".", "\\.": ".", "'d'": "d", "'x'": "x",
             "\\:": ":", "\\d": "d"}


def reference_text_applies(ev) -> bool:
    """Mirror of Trace_Text!Predictable, for the evidence counts only (the spec decides)."""
    if not ev.get("exact_tokens") or "text" not in ev or "am" not in ev or ev.get("spliced"):
        return False
    return set(ev["tokens"]) <= _REF_VOCAB.get(ev["type"], _REF_VOCAB["fields"] | (_REF_VOCAB["names"] if "names" in ev else set()))


def run(ctx: Ctx):
    q = ctx.quick
    ctx.mc("MC_PatternSemantics", MC_CFG, workers="auto", tag="reference_semantics")
    total = 12_000 if q else 300_000
    ctx.notes["culture_classes"] = {k: len(v) for k, v in textgen.culture_classes().items()}   # computed here, inherited by the workers
    parts = parallel_map(gen, [(ctx.seed * 43 + k, total // 16) for k in range(16)])
    pats = {(e["type"], e["pattern"], e["culture"]) for p in parts for e in p}
    ctx.notes["patterns"] = len(pats)
    ctx.notes["cultures"] = len({e["culture"] for p in parts for e in p})
    ctx.notes["events_by_type"] = {}
    for p in parts:
        for e in p:
            ctx.notes["events_by_type"][e["type"]] = ctx.notes["events_by_type"].get(e["type"], 0) + 1
    ctx.distinct_nontrivial = len(pats)
    ctx.notes["spliced_texts"] = sum(1 for p in parts for e in p if e.get("spliced"))
    ctx.notes["spliced_texts_that_parsed"] = sum(1 for p in parts for e in p if e.get("spliced") and e.get("parsed_ok"))
    ctx.notes["texts_compared_with_the_reference_formatter"] = {}
    for p in parts:
        for e in p:
            if reference_text_applies(e):
                ctx.notes["texts_compared_with_the_reference_formatter"][e["type"]] = ctx.notes["texts_compared_with_the_reference_formatter"].get(e["type"], 0) + 1
    for e in parts[0][:80]:
        if not e["roundtrip_builtin"] and "text" in e and len(e["tokens"]) >= 3:
            ctx.sample({"type": e["type"], "pattern": e["pattern"], "culture": e["culture"], "value": e["value"],
                        "text": "".join(chr(c) for c in e["text"]), "parsed_ok": e.get("parsed_ok")}, cap=4)

    def key_of(ev, clause):
        k = {"clause": clause, "type": ev["type"]}
        if ev["roundtrip_builtin"]:
            k["pattern"] = ev["pattern"]
        if "exc" in ev:
            k["exc"] = ev["exc"]
        if ev["type"] == "Offset" and ev.get("parsed", {}).get("sec") == 0 and 45 in ev.get("text", []):
            k["negative_zero_text"] = True
        if ev["type"] == "Duration" and ev.get("parsed", {}).get("t3") == [0, 0, 0] and 45 in ev.get("text", []):
            k["negative_zero_text"] = True
        return k

    # determinism across processes and histories: a sample of the LocalDate events is formatted again in a fresh interpreter, in the
    # reverse order (culture data is cached lazily and process-wide: era names, month names, expanded standard patterns)
    import json as _json
    import os as _os
    import subprocess as _sp
    import sys as _sys

    cand = [e for p in parts for e in p if e["type"] == "LocalDate" and not e["roundtrip_builtin"] and "text" in e and not e.get("spliced") and e["value"].get("cal") == "ISO"
            and "yymax" in e["value"] and e["value"]["yymax"] == 30]
    rnd2 = random.Random(ctx.seed + 77)
    cand = rnd2.sample(cand, min(len(cand), 400 if q else 4000))
    triples = [[e["culture"], e["pattern"][len("standard:"):] if e["pattern"].startswith("standard:") else e["pattern"],
                e["value"]["y"], e["value"]["m"], e["value"]["d"]] for e in cand]
    try:
        proc = _sp.run([_sys.executable, "-m", "harness.drivers.fresh_format"], input=_json.dumps(list(reversed(triples))), capture_output=True,
                       text=True, timeout=600, env=dict(_os.environ))
        there = list(reversed(_json.loads(proc.stdout)))
    except Exception:  # noqa: BLE001
        there = []
    det = []
    for e, b in zip(cand, there):
        if isinstance(b, list):
            det.append({"op": "det", "type": "LocalDate", "pattern": e["pattern"], "culture": e["culture"], "roundtrip_builtin": False, "value": e["value"],
                        "text": e["text"], "elsewhere": b})
    ctx.notes["formatted_again_in_a_fresh_interpreter"] = len(det)
    parts.append(det)
    ctx.validate("Trace_Text", TRACE_CFG, None, shards=parts, key_of=key_of, ntraces=len(pats))
    ctx.rule = ("random custom patterns (1-7 tokens: padded/unpadded numerics, fractions f/F with . and ; 12/24-hour with am/pm, text months/"
                "days, eras, calendar, quoted and escaped literals) and the built-in round-trip/ISO patterns of 7 types, in the invariant "
                "culture and 5 random ICU cultures per worker, 4 values per pattern across all calendars; TLC decides per event whether the "
                "pattern can represent the value (PatternSemantics.tla) and checks round trip, re-format and determinism; non-trivial = "
                "distinct (type, pattern, culture)")
    ctx.assumptions += ["month/day/era name fields are claimed only for cultures whose 12 names are non-empty, digit-free, pairwise distinct and prefix-free, "
                        "and for ISO/Gregorian dates", "an embedded pattern (l<>, ld<>, lt<>) is given the meaning of its inner fields spliced into the enclosing pattern",
                        "two-digit years (yy) are exercised for determinism/re-format only"]


def replay(ctx, path):
    run(ctx)
