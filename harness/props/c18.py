"""C18 - Interval and DateInterval behave as the sets of instants or days they denote."""
from __future__ import annotations

import random

from harness import proj
from harness.core import Ctx, parallel_map

TRACE_CFG = "SPECIFICATION Spec\nCHECK_DEADLOCK FALSE\n"
MC_CFG = "SPECIFICATION Spec\nCONSTANT N = {n}\nINVARIANT SetLaws\n"
IMIN = [-2000000000, 0, 0]
IMAX = [2000000000, 0, 0]


def _opt(x):
    return [False, 0, 0] if x is None else [True, x.start._days_since_epoch, x.end._days_since_epoch]


def _len(x):
    """The length the object reports (asked directly: the len() builtin itself refuses a negative answer with its own exception)."""
    try:
        return x.__len__()
    except Exception:  # noqa: BLE001
        return -10**9


def _try(fn):
    try:
        fn()
        return "ok"
    except Exception as e:  # noqa: BLE001
        return type(e).__name__


def gen(args) -> list:
    seed, n = args
    from pyoda_time import CalendarSystem, DateInterval, Duration, Instant, Interval, LocalDate, YearMonth

    rnd = random.Random(seed)
    cals = [CalendarSystem.for_id(c) for c in CalendarSystem.ids]
    arith = [c for c in cals if c.id not in ("Badi", "Um Al Qura", "Persian Algorithmic")]
    evs = []
    ctor = LocalDate._ctor

    def rdays(cal, near=None):
        lo, hi = cal._min_days, cal._max_days
        c = rnd.random()
        if near is not None and c < 0.7:
            return min(max(near + rnd.choice([-40, -3, -2, -1, 0, 1, 2, 3, 40, rnd.randint(-400, 400)]), lo), hi)
        if c < 0.15:
            return lo + rnd.randint(0, 3)
        if c < 0.3:
            return hi - rnd.randint(0, 3)
        return rnd.randint(lo, hi)

    for _ in range(n):
        c = rnd.random()
        cal = rnd.choice(cals)
        if c < 0.55:
            s1 = rdays(cal)
            e1 = min(s1 + rnd.choice([0, 0, 1, 2, 5, 30, 299, 300, 301, 365, 400, rnd.randint(0, 300), rnd.randint(300, 800)]), cal._max_days)
            s2 = rdays(cal, near=rnd.choice([s1, e1]))
            e2 = min(s2 + rnd.choice([0, 0, 1, 2, 5, 30, rnd.randint(0, 300)]), cal._max_days)
            if rnd.random() < 0.1:
                s2, e2 = e1 + 1, min(e1 + 1 + rnd.randint(0, 3), cal._max_days)   # exactly adjacent
                if s2 > cal._max_days:
                    continue
            if rnd.random() < 0.05:
                s2, e2 = s1, e1
            a = DateInterval(ctor(days_since_epoch=s1, calendar=cal), ctor(days_since_epoch=e1, calendar=cal))
            b = DateInterval(ctor(days_since_epoch=s2, calendar=cal), ctor(days_since_epoch=e2, calendar=cal))
            mem = []
            for d in {s1 - 1, s1, s1 + 1, e1 - 1, e1, e1 + 1, s2, e2, rnd.randint(s1 - 5, e1 + 5)}:
                if cal._min_days <= d <= cal._max_days:
                    ld = ctor(days_since_epoch=d, calendar=cal)
                    mem.append([d, (ld in a) and a.contains(ld)])
            import itertools

            # (bounded: an iteration that does not stop at the end must not hang the driver; calendars are compared too)
            its = list(itertools.islice(iter(a), e1 - s1 + 3)) if e1 - s1 <= 900 else None
            days = None if its is None else [x._days_since_epoch if x.calendar == cal else -10**9 for x in its]
            if days is None:
                it = [s1, e1, e1 - s1 + 1, True]
            else:
                it = [days[0] if days else -1, days[-1] if days else -1, len(days), all(y == x + 1 for x, y in zip(days, days[1:]))]
            evs.append({"op": "di_pair", "cal": cal.id, "a": [s1, e1], "b": [s2, e2], "len_a": _len(a), "len_b": _len(b),
                        "a_contains_b": (b in a) and a.contains(b), "b_contains_a": a in b,
                        "inter": _opt(a & b), "inter_rev": _opt(b.intersection(a)), "union": _opt(a | b), "union_rev": _opt(b.union(a)),
                        "mem": mem, "iter": it, "eq": a == b and a.equals(b) and not (a != b), "hash_eq": hash(a) == hash(b)})
        elif c < 0.65:
            cal2 = rnd.choice(cals) if rnd.random() < 0.4 else cal
            s = rdays(cal)
            e = s + rnd.choice([-1, -2, 0, 1, -30, 5])
            try:
                d1 = ctor(days_since_epoch=s, calendar=cal)
                d2 = ctor(days_since_epoch=e, calendar=cal2)
            except Exception:  # noqa: BLE001
                continue
            evs.append({"op": "di_ctor", "s": s, "e": e, "same_cal": cal.id == cal2.id, "out": _try(lambda: DateInterval(d1, d2))})
            if cal.id != cal2.id:
                try:
                    a = DateInterval(d1, d1)
                    b = DateInterval(d2, d2)
                except Exception:  # noqa: BLE001
                    continue
                for f in (lambda: a | b, lambda: a & b, lambda: b in a, lambda: d2 in a):
                    evs.append({"op": "di_mixed", "out": _try(f)})
        elif c < 0.9:
            imin = proj.ns_from_t3(proj.t3_instant(Instant.min_value))
            imax = proj.ns_from_t3(proj.t3_instant(Instant.max_value))

            def rinst():
                cc = rnd.random()
                if cc < 0.15:
                    return None
                if cc < 0.3:
                    return rnd.choice([imin, imax, imin + 1, imax - 1])
                if cc < 0.42:
                    return rnd.randint(imin // proj.NPD + 5, imax // proj.NPD - 5) * proj.NPD + rnd.choice([0, 0, 0, 1, -1])     # (on or next to a midnight)
                return rnd.randint(imin, imax) if cc < 0.7 else rnd.randint(-10**12, 10**12)

            s, e = rinst(), rinst()
            if s is not None and e is not None and rnd.random() < 0.8 and e < s and rnd.random() < 0.8:
                s, e = e, s
            if s is not None and e is not None and rnd.random() < 0.1:
                e = s

            def mk(ns):
                if ns is None:
                    return None
                if rnd.random() < 0.25 and imin + 3 * proj.NPD < ns < imax - 3 * proj.NPD:
                    # the same instant as the result of arithmetic (an instant is the point on the time line, however it was arrived at):
                    # an earlier instant plus a duration, the two times of day often adding up to exactly one day
                    x = rnd.randrange(1, proj.NPD)
                    y = (ns - x) % proj.NPD if rnd.random() < 0.5 else proj.NPD - x
                    a = ns - y - rnd.randint(0, 2) * proj.NPD
                    if a % proj.NPD == x or rnd.random() < 0.5:
                        try:
                            r = Instant._ctor(days=a // proj.NPD, nano_of_day=a % proj.NPD) + Duration._ctor(days=(ns - a) // proj.NPD, nano_of_day=(ns - a) % proj.NPD)
                            return r
                        except Exception:  # noqa: BLE001
                            pass
                return Instant._ctor(days=ns // proj.NPD, nano_of_day=ns % proj.NPD)

            ev = {"op": "iv", "s": IMIN if s is None else proj.t3_from_ns(s), "e": IMAX if e is None else proj.t3_from_ns(e)}
            try:
                iv = Interval(mk(s), mk(e))
                ev["out"] = "ok"
            except Exception as ex:  # noqa: BLE001
                ev["out"] = type(ex).__name__
                evs.append(ev)
                continue
            ev["has_start"], ev["has_end"] = iv.has_start, iv.has_end
            ev["start_raises"] = _try(lambda: iv.start) != "ok"
            ev["end_raises"] = _try(lambda: iv.end) != "ok"
            try:
                ev["duration"] = proj.t3_duration(iv.duration)
                ev["duration_raises"] = False
            except Exception:  # noqa: BLE001
                ev["duration_raises"] = True
            mem = []
            for t in {s, e, None if s is None else s - 1, None if s is None else s + 1, None if e is None else e - 1,
                      None if e is None else e + 1, imin, imax, rnd.randint(imin, imax)}:
                if t is not None and imin <= t <= imax:
                    inst = mk(t)
                    mem.append([proj.t3_from_ns(t), (inst in iv) and iv.contains(inst)])
            ev["mem"] = mem
            parts = list(iv)
            ev["iter_ok"] = parts == [mk(s), mk(e)]
            evs.append(ev)
        else:
            cal = rnd.choice(cals)
            y = rnd.choice([cal.min_year, cal.max_year, rnd.randint(cal.min_year, cal.max_year)])
            nm = cal.get_months_in_year(y)
            m = rnd.choice([rnd.randint(1, nm), rnd.randint(1, nm), nm, max(1, nm - 1), min(nm, 2), min(nm, 6), min(nm, 12)])
            try:
                di = YearMonth(year=y, month=m, calendar=cal).to_date_interval()
            except Exception:  # noqa: BLE001
                continue
            ev = {"op": "ym", "cal": cal.id, "y": y, "m": m, "s": di.start._days_since_epoch, "e": di.end._days_since_epoch,
                  "first": LocalDate(y, m, 1, cal)._days_since_epoch, "dim": cal.get_days_in_month(y, m)}
            try:
                # the month that follows in time (month numbers need not follow the order of the months: Hebrew scriptural numbering
                # starts the year at month 7): the one holding the day after this month's last day, as the day line says
                after = ctor(days_since_epoch=LocalDate(y, m, 1, cal)._days_since_epoch + cal.get_days_in_month(y, m), calendar=cal) \
                    if LocalDate(y, m, 1, cal)._days_since_epoch + cal.get_days_in_month(y, m) <= cal._max_days else None
                if after is not None:
                    nxt = YearMonth(year=after.year, month=after.month, calendar=cal).to_date_interval()
                    ev["next_s"] = nxt.start._days_since_epoch
                    ev["union_defined"] = (di | nxt) is not None and _len(di | nxt) == _len(di) + _len(nxt)
            except Exception:  # noqa: BLE001
                ev["next_s"], ev["union_defined"] = -10**9, False
            evs.append(ev)
    return evs


def run(ctx: Ctx):
    q = ctx.quick
    ctx.mc("MC_Intervals", MC_CFG.format(n=6 if q else 9), workers="auto", tag="sets")
    total = 50_000 if q else 1_000_000
    parts = parallel_map(gen, [(ctx.seed * 77 + k, total // 16) for k in range(16)])
    for e in parts[0][:30]:
        if e["op"] in ("di_pair", "iv"):
            ctx.sample(e, cap=4)
    ctx.distinct_nontrivial = sum(1 for p in parts for e in p if e["op"] in ("di_pair", "iv"))

    def key_of(ev, clause):
        return {"clause": clause, "op": ev["op"]}

    ctx.validate("Trace_Intervals", TRACE_CFG, None, shards=parts, key_of=key_of, ntraces=len(parts))
    ctx.rule = ("pairs of date intervals in every calendar (disjoint, adjacent by exactly one day, overlapping, nested, identical, "
                "single-day, at calendar range ends) with len/iter/in/contains/&/|; constructor rejections and mixed calendars; "
                "instant intervals incl. unbounded and empty ones; YearMonth.to_date_interval; non-trivial = a pair/interval event")


def replay(ctx, path):
    run(ctx)
