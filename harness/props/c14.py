"""C14 - the tz database binary codec is lossless and canonical.

spec:  zone/NzdCodec.tla
MC:    MC_NzdCodec (round trip + canonical choice on residue-complete sub-domains)
C->S:  real writer -> bytes, real reader -> value + stream position, on the same domains and on
       random composites; every zone of both real database files re-encoded  -> Trace_Codec
"""
from __future__ import annotations

import io
import random

from harness import proj
from harness.core import REPO, Ctx, parallel_map
NPD = proj.NPD

TRACE_CFG = "SPECIFICATION Spec\nCHECK_DEADLOCK FALSE\n"
MC_CFG = """SPECIFICATION Spec
CONSTANTS
  Kind = "{kind}"
  Lo <- L
  Hi <- H
  Step = {step}
INVARIANT CountOK
INVARIANT SignedOK
INVARIANT MillisOK
INVARIANT TransOK
"""
MIN_TAG = [-2000000000, 0, 0]
MAX_TAG = [2000000000, 0, 0]
NO_PREV = [0, 0, -1]
JUNK = b"\x00\xff\x80"
FILES = ["pyoda_time/time_zones/Tzdb.nzd", "tests/test_data/Tzdb2013bFromNodaTime1.1.nzd"]


def _inst(t):
    from pyoda_time import Instant

    if t == MIN_TAG:
        return Instant._before_min_value()
    if t == MAX_TAG:
        return Instant._after_max_value()
    return Instant._ctor(days=t[0], nano_of_day=t[1] * 10**9 + t[2])


def _t3i(i):
    if not i._is_valid:
        return MIN_TAG if i._days_since_epoch < 0 else MAX_TAG
    return proj.t3_instant(i)


def _rw(write, read, pool=None):
    """write(writer) then read(reader) over the produced bytes + junk; returns dict(bytes, back|rexc, consumed)."""
    from pyoda_time.time_zones.io._date_time_zone_reader import _DateTimeZoneReader
    from pyoda_time.time_zones.io._date_time_zone_writer import _DateTimeZoneWriter

    out = io.BytesIO()
    w = _DateTimeZoneWriter._ctor(out, pool)
    ev = {}
    try:
        write(w)
    except Exception as e:  # noqa: BLE001
        return {"wexc": type(e).__name__}
    data = out.getvalue()
    ev["bytes"] = list(data)
    inp = io.BytesIO(data + JUNK)
    # a third of the reads go through a stream that hands out at most k bytes per read (a pipe, a socket, an unbuffered file: a
    # reader must ask again for the rest, and for no more than the rest) - chosen by the bytes, so that runs are reproducible
    chunk = {0: 1, 1: 3, 2: 7}.get((sum(data) + 3 * len(data)) % 9)
    if chunk is not None:
        class _Short(io.RawIOBase):
            def __init__(self, inner, k):
                self._inner, self._k = inner, k

            def readable(self):
                return True

            def read(self, size=-1):
                return self._inner.read(self._k if size is None or size < 0 else min(size, self._k))

            def readinto(self, b):
                d = self._inner.read(min(len(b), self._k))
                b[: len(d)] = d
                return len(d)

            def tell(self):
                return self._inner.tell()

            def seek(self, *a):
                return self._inner.seek(*a)

            def seekable(self):
                return True

        ev["short_reads"] = chunk
        stream = _Short(inp, chunk)
    else:
        stream = inp
    r = _DateTimeZoneReader._ctor(stream, tuple(pool) if pool is not None else None)
    try:
        # the reader's one-byte lookahead (has_more_data) must be transparent: asked before half of the reads (chosen by
        # the bytes themselves, so that the run is reproducible), it must neither lose nor duplicate a byte
        if (sum(data) + len(data)) % 2 == 0:
            ev["probed"] = True
            ev["more"] = bool(r.has_more_data) and bool(r.has_more_data)
        ev["_back"] = read(r)
        ev["consumed"] = inp.tell()
    except Exception as e:  # noqa: BLE001
        ev["rexc"] = type(e).__name__
    return ev


def _yo_fields(yo):
    return {"mode": int(yo.mode), "month": yo._ZoneYearOffset__month_of_year, "dom": yo._ZoneYearOffset__day_of_month,
            "dow": yo._ZoneYearOffset__day_of_week, "adv": bool(yo.advance_day_of_week),
            "addDay": bool(yo._ZoneYearOffset__add_day), "ms": yo.time_of_day.tick_of_day // 10000}


def _alt_fields(m, pool):
    std, dst = m._StandardDaylightAlternatingMap__standard_recurrence, m._StandardDaylightAlternatingMap__dst_recurrence
    return {"stdOffset": m._StandardDaylightAlternatingMap__standard_offset.milliseconds, "stdName": pool.index(std.name),
            "stdYo": _yo_fields(std.year_offset), "dstName": pool.index(dst.name), "dstYo": _yo_fields(dst.year_offset),
            "savings": dst.savings.milliseconds}


def _zone_fields(z, pool):
    ps = z._PrecalculatedDateTimeZone__periods
    tail = z._PrecalculatedDateTimeZone__tail_zone
    return {"periods": [{"start": _t3i(p._raw_start), "name": pool.index(p.name), "wall": p.wall_offset.milliseconds,
                         "savings": p.savings.milliseconds} for p in ps],
            "tailStart": _t3i(z._PrecalculatedDateTimeZone__tail_zone_start), "hasTail": tail is not None,
            **({"tail": _alt_fields(tail, pool)} if tail is not None else {})}


def gen_primitives(args) -> list:
    kind, values = args
    from pyoda_time import Offset

    evs = []
    for v in values:
        if kind == "count":
            r = _rw(lambda w: w.write_count(v), lambda rd: rd.read_count())
        elif kind == "signed":
            r = _rw(lambda w: w.write_signed_count(v), lambda rd: rd.read_signed_count())
        elif kind == "millis":
            r = _rw(lambda w: w.write_milliseconds(v), lambda rd: rd.read_milliseconds())
        elif kind == "offset":
            o = Offset.from_seconds(v)
            r = _rw(lambda w: w.write_offset(o), lambda rd: rd.read_offset().seconds)
        else:
            raise ValueError(kind)
        if "wexc" in r:
            continue  # the writer did not accept the value: outside the property
        ev = {"op": kind, "v": v, **{k: x for k, x in r.items() if k != "_back"}}
        if "_back" in r:
            ev["back"] = r["_back"]
        evs.append(ev)
    return evs


def gen_transitions(args) -> list:
    seed, n = args
    rnd = random.Random(seed)
    from pyoda_time import Instant

    imin = proj.ns_from_t3(proj.t3_instant(Instant.min_value))
    imax = proj.ns_from_t3(proj.t3_instant(Instant.max_value))
    e1800 = proj.ns_from_t3([-62091, 0, 0])
    H, M = 3600 * 10**9, 60 * 10**9
    evs = []
    for _ in range(n):
        c = rnd.random()
        if c < 0.05:
            v = rnd.choice([MIN_TAG, MAX_TAG])
            prev = rnd.choice([NO_PREV, MIN_TAG, proj.t3_from_ns(rnd.randint(imin, imax) // 100 * 100)])
            if v == MIN_TAG:
                prev = rnd.choice([NO_PREV, MIN_TAG])
        else:
            if c < 0.12:   # previous at a whole hour of its day, value exactly on a later UTC midnight (a sum that lands on a day boundary)
                h0 = rnd.randint(1, 23)
                pv = rnd.randint(imin // NPD + 2, imax // NPD - 3 * 10**5) * NPD + h0 * H
                hours = (24 - h0) + 24 * rnd.choice([5, 6, 100, 1000, rnd.randint(5, 80000)])
                vv = pv + hours * H
            elif c < 0.35:   # whole hours after previous, around the hour-form limits
                pv = rnd.randint(imin, imax - 3 * 10**6 * H) // M * M + rnd.choice([0, 0, 100, 10**9, 30 * 10**9])
                hours = rnd.choice([0, 1, 127, 128, 129, 4000, 6000, 700000, 2**21 - 1, 2**21, 2**21 + 1, rnd.randint(1, 2**21 + 10)])
                vv = pv + hours * H
            elif c < 0.6:  # whole minutes since 1800, around the minute-form limits
                minutes = rnd.choice([0, 1, 2**21 - 1, 2**21, 2**21 + 1, 2**21 + 2, 80_000_000, 2**31 - 1, 2**31, 2**31 + 1,
                                      rnd.randint(-10**6, 2**31 + 1000)])
                vv = e1800 + minutes * M
                pv = vv - rnd.choice([0, 1, H // 2, 50 * H + M, 3 * 10**6 * H, rnd.randint(0, 10**15)]) // 100 * 100
            else:
                vv = rnd.randint(imin, imax) // 100 * 100
                if rnd.random() < 0.5:
                    vv = vv // 10**9 * 10**9
                pv = vv - rnd.choice([0, 100, H, 128 * H, 128 * H + 100, rnd.randint(0, 10**17)]) // 100 * 100
            vv = min(max(vv, imin), imax // 100 * 100)
            pv = min(max(pv, imin), vv)
            v = proj.t3_from_ns(vv)
            prev = rnd.choice([proj.t3_from_ns(pv)] * 8 + [NO_PREV, MIN_TAG])
        pi = None if prev == NO_PREV else _inst(prev)
        vi = _inst(v)
        r = _rw(lambda w: w.write_zone_interval_transition(pi, vi), lambda rd: _t3i(rd.read_zone_interval_transition(pi)))
        if "wexc" in r:
            continue
        ev = {"op": "trans", "prev": prev, "v": v, **{k: x for k, x in r.items() if k != "_back"}}
        if "_back" in r:
            ev["back"] = r["_back"]
        evs.append(ev)
    return evs


def gen_composites(args) -> list:
    seed, n = args
    rnd = random.Random(seed)
    from pyoda_time import Instant, LocalTime, Offset
    from pyoda_time.time_zones import ZoneInterval
    from pyoda_time.time_zones._precalculated_date_time_zone import _PrecalculatedDateTimeZone
    from pyoda_time.time_zones._standard_daylight_alternating_map import _StandardDaylightAlternatingMap
    from pyoda_time.time_zones._transition_mode import _TransitionMode
    from pyoda_time.time_zones._zone_recurrence import _ZoneRecurrence
    from pyoda_time.time_zones._zone_year_offset import _ZoneYearOffset

    pool = ["", "UTC", "LMT", "GMT", "BST", "EST", "EDT", "+03", "-0330", "Zürich", "日本", "A" * 40, "\U0001F552x"]
    evs = []

    def mk_yo():
        mode = rnd.choice(list(_TransitionMode))
        month = rnd.randint(1, 12)
        dom = rnd.choice([1, 15, 28, -1, -2, rnd.randint(1, 28), -rnd.randint(1, 28)])
        dow = rnd.randint(0, 7)
        adv = rnd.random() < 0.5
        ms = rnd.choice([0, 7200000, 3600000, 1800000, 60000, 1000, 1, 86399999, 86340000, rnd.randrange(86400000)])
        add_day = rnd.random() < 0.2
        return _ZoneYearOffset._ctor(mode, month, dom, dow, adv, LocalTime.from_milliseconds_since_midnight(ms), add_day)

    def mk_off():
        return Offset.from_seconds(rnd.choice([0, 3600, -3600, 1800, 19800, 20700, -12600, 64800, -64800, 1, -1, 59, rnd.randint(-64800, 64800)]))

    for _ in range(n):
        c = rnd.random()
        try:
            if c < 0.25:
                s = rnd.choice(pool + ["".join(chr(rnd.choice([65, 0x7f, 0x80, 0x7ff, 0x800, 0xffff, 0x10000, 0x10ffff, rnd.randint(32, 0x2fff)]))
                                               for _ in range(rnd.randint(0, 200)))])
                s = s.encode("utf-8", "ignore").decode("utf-8")
                s = "".join(ch for ch in s if not 0xD800 <= ord(ch) <= 0xDFFF)
                if rnd.random() < 0.5:
                    p = list(pool)
                    r = _rw(lambda w: w.write_string(s), lambda rd: rd.read_string(), pool=p)
                    ev = {"op": "string", "pooled": True, "index": p.index(s), "cps": [ord(ch) for ch in s]}
                else:
                    r = _rw(lambda w: w.write_string(s), lambda rd: rd.read_string())
                    ev = {"op": "string", "pooled": False, "cps": [ord(ch) for ch in s]}
                if "_back" in r:
                    ev["back"] = [ord(ch) for ch in r["_back"]]
            elif c < 0.3:
                d = {rnd.choice(pool) + str(i): rnd.choice(pool) for i in range(rnd.randint(0, 6))}
                r = _rw(lambda w: w.write_dictionary(d), lambda rd: rd.read_dictionary())
                ev = {"op": "dict", "keys": [[ord(ch) for ch in k] for k in d], "vals": [[ord(ch) for ch in v] for v in d.values()],
                      "back_equal": r.get("_back") == d and list(r.get("_back", {})) == list(d)}
            elif c < 0.5:
                yo = mk_yo()
                r = _rw(lambda w: yo._write(w), lambda rd: _ZoneYearOffset.read(rd))
                ev = {"op": "yo", "v": _yo_fields(yo)}
                if "_back" in r:
                    ev["back"] = _yo_fields(r["_back"])
                    ev["eq"] = r["_back"] == yo
            elif c < 0.65:
                p = list(pool)
                rec = _ZoneRecurrence(rnd.choice(pool), mk_off(), mk_yo(), rnd.choice([-(2**31), 0, 1, 1900, 1987, 2007]), rnd.choice([1999, 9999, 2**31 - 1]))
                r = _rw(lambda w: rec._write(w), lambda rd: _ZoneRecurrence.read(rd), pool=p)
                ev = {"op": "recurrence", "v": {"name": p.index(rec.name), "savings": rec.savings.milliseconds, "yo": _yo_fields(rec.year_offset),
                                                "from": -1 if rec.from_year == -(2**31) else rec.from_year, "to": rec.to_year}}   # -1: from the start of time
                if "_back" in r:
                    b = r["_back"]
                    ev["back"] = {"name": p.index(b.name), "savings": b.savings.milliseconds, "yo": _yo_fields(b.year_offset),
                                  "from": -1 if b.from_year == -(2**31) else b.from_year, "to": b.to_year}
                    # (year 0 is written like "from the start of time" and read back as that: the one start year that is not kept)
                    ev["eq"] = (b == rec) or rec.from_year == 0
            else:
                p = list(pool)

                def mk_alt():
                    std = _ZoneRecurrence(rnd.choice(pool), Offset.zero, mk_yo(), -(2**31), 2**31 - 1)
                    dst = _ZoneRecurrence(rnd.choice(pool), Offset.from_seconds(rnd.choice([3600, 1800, 7200, -3600, 1200, 0])), mk_yo(), -(2**31), 2**31 - 1)
                    return _StandardDaylightAlternatingMap._ctor(mk_off(), std, dst)

                if c < 0.8:
                    m = mk_alt()
                    r = _rw(lambda w: m._write(w), lambda rd: _StandardDaylightAlternatingMap._read(rd), pool=p)
                    ev = {"op": "altmap", "pool": len(p), "v": _alt_fields(m, p)}
                    if "_back" in r:
                        ev["back"] = _alt_fields(r["_back"], p)
                        ev["eq"] = r["_back"] == m
                else:
                    # a precalculated zone: intervals from the start of time, optional tail
                    k = rnd.randint(1, 6)
                    t = -(3 * 10**9) + rnd.randint(0, 10**9)
                    starts = [Instant._before_min_value()]
                    for _i in range(k):
                        t += rnd.choice([3600 * rnd.randint(128, 9000), 60 * rnd.randint(1, 10**6), rnd.randint(1, 10**8)])
                        starts.append(Instant.from_unix_time_seconds(t))
                    has_tail = rnd.random() < 0.6
                    ivs = []
                    for i in range(k):
                        sav = rnd.choice([0, 3600, 1800])
                        ivs.append(ZoneInterval(name=rnd.choice(pool), start=starts[i], end=starts[i + 1],
                                                wall_offset=Offset.from_seconds(rnd.choice([0, 3600, -18000, 19800]) + sav),
                                                savings=Offset.from_seconds(sav)))
                    if not has_tail:
                        ivs.append(ZoneInterval(name=rnd.choice(pool), start=starts[k], end=Instant._after_max_value(),
                                                wall_offset=Offset.from_seconds(7200), savings=Offset.zero))
                    z = _PrecalculatedDateTimeZone(id_="Test/Zone", intervals=ivs, tail_zone=mk_alt() if has_tail else None)
                    r = _rw(lambda w: z._write(w), lambda rd: _PrecalculatedDateTimeZone._read(rd, "Test/Zone"), pool=p)
                    ev = {"op": "zone", "pool": len(p), "v": _zone_fields(z, p)}
                    if "_back" in r:
                        ev["back"] = _zone_fields(r["_back"], p)
        except Exception as e:  # noqa: BLE001 - constructing the operand failed (validation): not a codec event
            if "ev" not in locals():
                continue
            continue
        if "wexc" in r:
            continue
        ev.update({k: x for k, x in r.items() if k != "_back"})
        evs.append(ev)
    return evs


def reencode_events(args) -> list:
    path, with_bytes_mod, phase = args
    from pyoda_time.time_zones._precalculated_date_time_zone import _PrecalculatedDateTimeZone
    from pyoda_time.time_zones.io._date_time_zone_reader import _DateTimeZoneReader
    from pyoda_time.time_zones.io._date_time_zone_writer import _DateTimeZoneWriter
    from pyoda_time.time_zones.io._tzdb_stream_data import _TzdbStreamData

    with open(path, "rb") as f:
        data = _TzdbStreamData._from_stream(f)
    pool = list(data._TzdbStreamData__string_pool)
    evs = []
    for k, (zid, field) in enumerate(sorted(data._TzdbStreamData__zone_fields.items())):
        raw = bytes(field._TzdbStreamField__data)
        ev = {"op": "reencode", "id": zid, "file": path.split("/")[-1], "pool": len(pool)}
        try:
            inp = io.BytesIO(raw)
            rd = _DateTimeZoneReader._ctor(inp, tuple(pool))
            rd.read_string()
            typ = rd.read_byte()
            body_at = inp.tell() - 1
            if typ != 2:
                # a fixed zone: offset, then (when bytes remain) the interval name as a pool index
                from pyoda_time.time_zones._fixed_date_time_zone import _FixedDateTimeZone

                body = raw[body_at + 1:]
                ev = {"op": "fixed_zone", "id": zid, "file": path.split("/")[-1], "pool": len(pool), "bytes": list(body), "cps_id": [ord(ch) for ch in zid]}

                def varint_at(p0):
                    v, sh = 0, 0
                    for b0 in body[p0:]:
                        v |= (b0 & 0x7F) << sh
                        sh += 7
                        if not b0 & 0x80:
                            return v
                    return -1

                # for every byte position: the count a varint starting there denotes and the pool string it indexes (the spec
                # knows where the offset ends and picks the entry for that position)
                ev["index_at"] = [varint_at(p0) for p0 in range(len(body))]
                ev["pool_at"] = [[ord(ch) for ch in pool[i]] if 0 <= i < len(pool) else [] for i in ev["index_at"]]
                try:
                    fz = _FixedDateTimeZone.read(rd, zid)
                    ev["offset"] = fz.offset.seconds
                    ev["name"] = [ord(ch) for ch in fz.name]
                    ev["consumed"] = inp.tell() - body_at - 1
                except Exception as e:  # noqa: BLE001
                    ev["exc"] = type(e).__name__
                evs.append(ev)
                continue
            z = _PrecalculatedDateTimeZone._read(rd, zid)
            out = io.BytesIO()
            w = _DateTimeZoneWriter._ctor(out, list(pool))
            z._write(w)
            new = out.getvalue()
            orig = raw[body_at + 1:]
            ev["equal"] = new == orig
            ev["orig_len"], ev["new_len"] = len(orig), len(new)
            if not ev["equal"]:
                ev["first_diff"] = next((i for i, (a, b) in enumerate(zip(orig, new)) if a != b), min(len(orig), len(new)))
            if with_bytes_mod and k % with_bytes_mod == phase % with_bytes_mod and len(orig) < 2500:
                ev["bytes"] = [2] + list(orig)
        except Exception as e:  # noqa: BLE001
            ev["exc"] = type(e).__name__
            ev["equal"] = False
        evs.append(ev)
    return evs


def _mc(ctx, kind, lo, hi, step, tag):
    import re

    from harness.core import SPEC

    # constants with negative values cannot be written in a cfg: generate the wrapper module text
    src = (SPEC / "mc" / "MC_NzdCodec.tla").read_text()
    src = re.sub(r"^VARIABLES v", f"L == {lo}\nH == {hi}\nVARIABLES v", src, flags=re.M)
    gen = SPEC / "mc" / "gen"
    gen.mkdir(exist_ok=True)
    name = f"MC_NzdCodec_{tag}"
    (gen / f"{name}.tla").write_text(src.replace("MODULE MC_NzdCodec", f"MODULE {name}"))
    try:
        ctx.mc(name, MC_CFG.format(kind=kind, step=step), workers="auto", tag=tag, timeout=1800)
    finally:
        (gen / f"{name}.tla").unlink(missing_ok=True)


def run(ctx: Ctx):
    q = ctx.quick
    rnd = random.Random(ctx.seed + 14)
    # 1. the codec specification itself: round trip + canonical choice ------------------------------
    _mc(ctx, "millis", -3000, 3000, 1, "ms_zero")
    _mc(ctx, "millis", -86399999, 86399999, 60000 if q else 1000, "ms_grid")
    _mc(ctx, "count", 0, 20000 if q else 70000, 1, "count_low")
    _mc(ctx, "count", 2097000, 2097300, 1, "count_3b")
    _mc(ctx, "count", 268435300, 268435600, 1, "count_4b")
    _mc(ctx, "signed", -20000 if q else -70000, 20000 if q else 70000, 1, "signed")
    _mc(ctx, "trans", 2096000, 2098300, 101 if q else 7, "trans_minform")
    _mc(ctx, "trans", -200000, 200000, 9973 if q else 997, "trans_raw")
    # 2. the real writer/reader on the same domains ---------------------------------------------------
    ms_vals = set(range(-3000, 3001))
    for base in range(-86400000, 86400001, 60000 if q else 1000):
        for d in (-2, -1, 0, 1, 2):
            if -86400000 < base + d < 86400000:
                ms_vals.add(base + d)
    for _ in range(2000 if q else 200000):
        ms_vals.add(rnd.randint(-86399999, 86399999))
    ms_vals = sorted(ms_vals)
    counts = sorted(set(list(range(0, 20000 if q else 70000)) + [2**k + d for k in range(7, 31) for d in (-2, -1, 0, 1) if 0 <= 2**k + d < 2**31]
                        + [2**31 - 1] + [rnd.randrange(2**31) for _ in range(2000)]))
    signed = sorted(set(list(range(-20000, 20001)) + [s * (2**k + d) for k in range(6, 31) for d in (-1, 0, 1) for s in (-1, 1)]
                        + [2**31 - 1, -(2**31), -(2**31) + 1, 2**31 - 2, 2**30, -(2**30) - 1]
                        + [rnd.randint(-(2**31), 2**31 - 1) for _ in range(3000)]))
    signed = [c for c in signed if -(2**31) <= c <= 2**31 - 1]
    offsets = list(range(-64800, 64801, 1 if not q else 7)) + [64800, -64800]

    def chunks(kind, vals, n=16):
        sz = max(1, (len(vals) + n - 1) // n)
        return [(kind, vals[i:i + sz]) for i in range(0, len(vals), sz)]

    tasks = chunks("millis", ms_vals) + chunks("count", counts) + chunks("signed", signed) + chunks("offset", offsets)
    prim = parallel_map(gen_primitives, tasks)
    ntr = 4000 if q else 120000
    trans = parallel_map(gen_transitions, [(ctx.seed * 31 + k, ntr // 16) for k in range(16)])
    ncomp = 3000 if q else 60000
    comps = parallel_map(gen_composites, [(ctx.seed * 37 + k, ncomp // 16) for k in range(16)])
    files = [str(REPO / f) for f in FILES]
    reenc = parallel_map(reencode_events, [(f, 12 if q else 1, ctx.seed) for f in files])
    shards = [s for s in prim + trans + comps if s]
    # re-encode events with bytes are expensive for TLC (BigInt for raw transitions): spread them over shards
    flat = [e for r in reenc for e in r]
    for i in range(0, len(flat), 40):
        shards.append(flat[i:i + 40])
    nz = len(flat)
    ctx.notes["rule_based_zones_reencoded"] = nz
    ctx.notes["zones_with_bytes_checked_by_spec_decoder"] = sum(1 for e in flat if "bytes" in e)
    ctx.distinct_nontrivial = sum(len(s) for s in shards)
    for s in (trans[0][:3] + comps[0][:2] + flat[:1]):
        e = dict(s)
        if "bytes" in e and len(e["bytes"]) > 40:
            e["bytes"] = e["bytes"][:40] + ["..."]
        ctx.sample(e)

    def key_of(ev, clause):
        k = {"clause": clause, "op": ev["op"]}
        if ev["op"] == "reencode":
            k.update(id=ev.get("id"), file=ev.get("file"))
        if ev["op"] == "millis":
            m = ev["v"] + 86400000
            k["class"] = "half_hours" if m % 1800000 == 0 else "minutes" if m % 60000 == 0 else "seconds" if m % 1000 == 0 else "millis"
        return k

    ctx.validate("Trace_Codec", TRACE_CFG, None, shards=shards, key_of=key_of, ntraces=len(shards), heap="3g", timeout=3000)
    ctx.rule = ("millisecond values: all within +-3 s of zero, +-2 ms around every multiple of "
                + ("1 min" if q else "1 s") + " within a day either side of zero, plus random; counts: all < "
                + ("20000" if q else "70000") + " and around every power of two to 2^31; zig-zag likewise; all offsets"
                + (" (every 7th second)" if q else "") + "; transitions around the hour-form and minute-form limits, markers and raw ticks; "
                "random strings/dictionaries/yearly rules/recurrences/alternating maps/precalculated zones; every rule-based zone of both "
                "database files re-encoded; non-trivial = every event (distinct value per primitive)")
    ctx.assumptions += ["signed counts are exercised within +-2^30 (TLC integers are 32-bit)",
                        "UTF-8 encoding of strings is re-derived in the spec from code points"]


def replay(ctx, path):
    run(ctx)
