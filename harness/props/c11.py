"""C11 - offset and zoned date-times keep instant, local time, offset, calendar in step."""
from __future__ import annotations

import random

from harness import proj
from harness.core import Ctx, parallel_map
from harness.drivers.zonewalk import t3i

TRACE_CFG = "SPECIFICATION Spec\nCHECK_DEADLOCK FALSE\n"
MC_CFG = "SPECIFICATION Spec\nINVARIANT Laws\n"
NPD = proj.NPD


def obs(x) -> dict:
    """What an OffsetDateTime-like value says about itself."""
    ldt = x.local_date_time
    nod = ldt.nanosecond_of_day
    return {"inst": proj.t3_instant(x.to_instant()), "loc": [ldt.date._days_since_epoch, nod // 10**9, nod % 10**9],
            "off": x.offset.seconds, "cal": x.calendar.id}


def gen(args) -> list:
    seed, n, zone_ids = args
    from pyoda_time import CalendarSystem, DateAdjusters, DateTimeZoneProviders, Duration, Instant, LocalDate, LocalTime, Offset, OffsetDateTime

    rnd = random.Random(seed)
    cals = [CalendarSystem.for_id(c) for c in CalendarSystem.ids]
    wide = [c for c in cals if c.id in ("ISO", "Gregorian")]
    imin = proj.ns_from_t3(proj.t3_instant(Instant.min_value))
    imax = proj.ns_from_t3(proj.t3_instant(Instant.max_value))
    evs = []

    def rcal():
        return rnd.choice(wide) if rnd.random() < 0.3 else rnd.choice(cals)

    def rinst(cal):
        lo = max(imin, (cal._min_days + 2) * NPD)
        hi = min(imax, (cal._max_days - 1) * NPD)
        c = rnd.random()
        if c < 0.15:
            ns = lo + rnd.randint(0, 2 * NPD)
        elif c < 0.3:
            ns = hi - rnd.randint(0, 2 * NPD)
        elif c < 0.4:
            # around the first day of a year of the calendar: offsets then move the local date across a year boundary
            yy = rnd.randint(cal.min_year + 1, cal.max_year - 1)
            ns = (LocalDate(yy, 1, 1, cal)._days_since_epoch + rnd.choice([-1, 0, 0, 1])) * NPD + rnd.choice([0, 1, NPD - 1, 1800 * 10**9, NPD - 1800 * 10**9, rnd.randrange(NPD)])
            ns = min(max(ns, lo), hi)
        elif c < 0.5:
            ns = rnd.randint(lo // NPD, hi // NPD) * NPD + rnd.choice([0, 1, NPD - 1, NPD // 2])
        else:
            ns = rnd.randint(lo, hi)
        return Instant._ctor(days=ns // NPD, nano_of_day=ns % NPD)

    def roff():
        return Offset.from_seconds(rnd.choice([0, 64800, -64800, 64799, -64799, 3600, -3600, 19800, 1, -1, rnd.randint(-64800, 64800)]))

    def rdur():
        c = rnd.random()
        if c < 0.3:
            ns = rnd.choice([0, 1, -1, NPD, -NPD, NPD - 1, 2 * NPD + 1, -2 * NPD - 1, 36 * 3600 * 10**9, -36 * 3600 * 10**9])
        elif c < 0.6:
            ns = rnd.randint(-3 * NPD, 3 * NPD)
        elif c < 0.8:
            ns = rnd.randint(-10**18, 10**18)
        else:
            ns = rnd.randint(imin - imax, imax - imin)
        return Duration._ctor(days=ns // NPD, nano_of_day=ns % NPD)

    def result(ev, fn, zone=False):
        try:
            r = fn()
            ev["res"] = obs(r)
            if zone:
                ev["res_zone"] = r.zone.id
        except Exception as e:  # noqa: BLE001
            ev["exc"] = type(e).__name__
        return ev

    def mk():
        cal = rcal()
        i, o = rinst(cal), roff()
        try:
            return cal, i.with_offset(o, cal)
        except Exception:  # noqa: BLE001
            return cal, None

    zones = [DateTimeZoneProviders.tzdb[z] for z in zone_ids]

    def ref(zone):
        """The zone underneath the provider's interval cache: the reference for "the zone's offset at this instant" must not
        share the cached zone's history (the values under test use the cached zone)."""
        return getattr(zone, "_CachedDateTimeZone__time_zone", zone)

    # calendar fields of values made from (instant, offset, calendar), also right after a neighbouring year was converted from empty caches
    from harness.props.c13 import cold

    for cal in cals:
        calc = cal._year_month_day_calculator
        for _ in range(8 if cal.id.startswith("Hebrew") else 2):
            day = rnd.randint(cal._min_days + 800, cal._max_days - 800)
            nod = rnd.randrange(NPD)
            o = roff()
            shift = rnd.choice([380, 380, -380, 0])

            def run(cal=cal, day=day, nod=nod, o=o, shift=shift):
                out = []
                if shift:
                    Instant._ctor(days=day + shift, nano_of_day=0).with_offset(Offset.zero, cal).year      # a neighbouring year first
                for dd in (0, 29, 59, 120, 200, -40):
                    i = Instant._ctor(days=day + dd, nano_of_day=nod)
                    ev = {"op": "ymd", "inst": proj.t3_instant(i), "off": o.seconds, "cal": cal.id, "after_shift": shift}
                    try:
                        x = i.with_offset(o, cal)
                        ev["y"], ev["m"], ev["d"] = x.year, x.month, x.day
                        ev["back_inst"] = proj.t3_instant(x.to_instant())
                    except Exception as e:  # noqa: BLE001
                        ev["exc"] = type(e).__name__
                    out.append(ev)
                return out

            try:
                evs.extend(cold(calc, run))
            except Exception:  # noqa: BLE001
                pass

    for _ in range(n):
        c = rnd.random()
        cal, v = mk()
        if c < 0.08 or v is None:
            cal = rcal()
            i, o = rinst(cal), roff()
            ev = {"op": "make", "inst": proj.t3_instant(i), "off": o.seconds, "cal": cal.id, "min_day": cal._min_days, "max_day": cal._max_days}
            route = rnd.randrange(2)
            evs.append(result(ev, (lambda: i.with_offset(o, cal)) if route == 0 else (lambda: OffsetDateTime._ctor(instant=i, offset=o, calendar=cal))))
            continue
        base = {"min_day": cal._min_days, "max_day": cal._max_days}
        if c < 0.16:
            ldt = v.local_date_time
            o = roff()
            nod = ldt.nanosecond_of_day
            ev = {"op": "from_local", "loc": [ldt.date._days_since_epoch, nod // 10**9, nod % 10**9], "off": o.seconds, "cal": cal.id, **base}
            route = rnd.randrange(2)
            evs.append(result(ev, (lambda: ldt.with_offset(o)) if route == 0 else (lambda: OffsetDateTime(ldt, o))))
        elif c < 0.28:
            o = roff()
            if rnd.random() < 0.5:
                # choose the local time so that time-of-day + (new offset - old offset) lands exactly on 0h, 24h, 48h or -24h (+-1 ns)
                delta = (o.seconds - v.offset.seconds) * 10**9
                target = rnd.choice([0, NPD, 2 * NPD, -NPD]) + rnd.choice([-1, 0, 0, 1])
                tod = target - delta
                if 0 <= tod < NPD:
                    try:
                        v = v.with_time_adjuster(lambda _t, tod=tod: LocalTime.from_nanoseconds_since_midnight(tod))
                    except Exception:  # noqa: BLE001
                        pass
            evs.append(result({"op": "with_offset", "v": obs(v), "off2": o.seconds, **base}, lambda: v.with_offset(o)))
        elif c < 0.38:
            c2 = rcal()
            ev = {"op": "with_calendar", "v": obs(v), "cal2": c2.id, "min_day": c2._min_days, "max_day": c2._max_days}
            evs.append(result(ev, lambda: v.with_calendar(c2)))
        elif c < 0.58:
            d = rdur()
            op = rnd.choice(["plus", "minus"])
            route = rnd.randrange(4)
            ev = {"op": op, "v": obs(v), "d": proj.t3_duration(d), "route": route, **base}
            if op == "plus":
                fns = [lambda: v + d, lambda: v.plus(d), lambda: OffsetDateTime.add(v, d), None]
                if route == 3:
                    unit = rnd.choice(["hours", "minutes", "seconds", "milliseconds", "ticks", "nanoseconds"])
                    k = rnd.randint(-10**4, 10**4) if unit in ("hours", "minutes") else rnd.randint(-10**12, 10**12)
                    d = getattr(Duration, "from_" + unit)(k)
                    ev["d"] = proj.t3_duration(d)
                    fns[3] = lambda: getattr(v, "plus_" + unit)(k)
                evs.append(result(ev, fns[route]))
            else:
                fns = [lambda: v - d, lambda: v.minus(d), lambda: OffsetDateTime.subtract(v, d), lambda: v - d]
                evs.append(result(ev, fns[route]))
        elif c < 0.68:
            _, w = mk()
            if w is None:
                continue
            ev = {"op": "diff", "a": obs(v), "b": obs(w)}
            try:
                ev["res"] = proj.t3_duration(rnd.choice([lambda: v - w, lambda: v.minus(w), lambda: OffsetDateTime.subtract(v, w)])())
            except Exception as e:  # noqa: BLE001
                ev["exc"] = type(e).__name__
            evs.append(ev)
        elif c < 0.76:
            day = v.date._days_since_epoch + rnd.choice([-1, 1, 0, rnd.randint(-400, 400)])
            day = min(max(day, cal._min_days), cal._max_days)
            nd = LocalDate._ctor(days_since_epoch=day, calendar=cal)
            evs.append(result({"op": "with_date", "v": obs(v), "day": day, **base}, lambda: v.with_date_adjuster(lambda _d: nd)))
        elif c < 0.84:
            nod = rnd.choice([0, NPD - 1, rnd.randrange(NPD)])
            nt = LocalTime.from_nanoseconds_since_midnight(nod)
            evs.append(result({"op": "with_time", "v": obs(v), "t": [nod // 10**9, nod % 10**9], **base}, lambda: v.with_time_adjuster(lambda _t: nt)))
        elif c < 0.87:
            # every property of the four types reads the same local date-time (calendar fields and time-of-day fields)
            kind = rnd.choice(["odt", "od", "ot", "zdt"])
            ldt = v.local_date_time
            x = v if kind == "odt" else v.to_offset_date() if kind == "od" else v.to_offset_time() if kind == "ot" else v.in_fixed_zone()
            dnames = ["year", "month", "day", "day_of_year", "year_of_era"]
            tnames = ["hour", "minute", "second", "millisecond", "tick_of_second", "nanosecond_of_second", "clock_hour_of_half_day"]
            if kind == "zdt":
                dnames, tnames = ["year", "month", "day", "day_of_year"], ["hour", "minute", "second"]
            ev = {"op": "accessors", "kind": kind, "v": obs(v), "acc": [], "loc": []}
            try:
                if kind != "ot":
                    ev["acc"] += [getattr(x, a) for a in dnames] + [x.day_of_week.value]
                    ev["loc"] += [getattr(ldt, a) for a in dnames] + [ldt.day_of_week.value]
                    if kind != "zdt":
                        ev["acc"].append(x.era.name)
                        ev["loc"].append(ldt.era.name)
                if kind != "od":
                    ev["acc"] += [getattr(x, a) for a in tnames]
                    ev["loc"] += [getattr(ldt, a) for a in tnames]
                    ev["tod"] = [x.hour, x.minute, x.second]
                if kind in ("odt", "ot"):
                    ev["acc"].append(str(x.tick_of_day))
                    ev["loc"].append(str(ldt.tick_of_day))
                ev["acc"], ev["loc"] = [str(a) for a in ev["acc"]], [str(a) for a in ev["loc"]]
            except Exception as e:  # noqa: BLE001
                ev["exc"] = type(e).__name__
            evs.append(ev)
        elif c < 0.9:
            od, ot = v.to_offset_date(), v.to_offset_time()
            evs.append({"op": "parts", "v": obs(v), "od_day": od.date._days_since_epoch, "od_off": od.offset.seconds, "od_cal": od.calendar.id,
                        "ot_t": [ot.nanosecond_of_day // 10**9, ot.nanosecond_of_day % 10**9], "ot_off": ot.offset.seconds,
                        "recombined_at": obs(od.at(v.time_of_day)), "recombined_on": obs(ot.on(v.date)), "fixed_zone": obs(v.in_fixed_zone()),
                        "fixed_zone_offset": v.in_fixed_zone().zone.get_utc_offset(v.to_instant()).seconds,
                        "fixed_zone_plus_zero": obs(v.in_fixed_zone() + Duration.zero)})
        elif c < 0.93:
            from pyoda_time import ZonedClock
            from pyoda_time.testing import FakeClock

            z = rnd.choice(zones)
            cal = rnd.choice(wide)
            i = rinst(cal)
            iv0 = ref(z).get_zone_interval(i)
            if iv0.has_end and rnd.random() < 0.7:
                # start shortly before a transition and let the clock jump over it on every read
                try:
                    i = iv0.end - Duration.from_minutes(rnd.choice([1, 10, 30]))
                except Exception:  # noqa: BLE001
                    pass
            adv = Duration.from_minutes(rnd.choice([0, 20, 45, 90]))
            clock = FakeClock(i, adv)
            zc = ZonedClock(clock, z, cal)
            iv = ref(z).get_zone_interval(i)
            ev = {"op": "zoned", "inst": proj.t3_instant(i), "cal": cal.id, "zone": z.id, "route": 2,
                  "iv": {"start": t3i(iv._raw_start), "end": t3i(iv._raw_end), "wall": iv.wall_offset.seconds}}
            getter = rnd.choice(["get_current_offset_date_time", "get_current_zoned_date_time"])
            try:
                r = getattr(zc, getter)()
                ev["res"] = obs(r)
                ev["res_zone"] = z.id
            except Exception as e:  # noqa: BLE001
                ev["exc"] = type(e).__name__
            evs.append(ev)
        else:
            z = rnd.choice(zones)
            cal = rcal()
            i = rinst(cal)
            iv = ref(z).get_zone_interval(i)
            ivd = {"start": t3i(iv._raw_start), "end": t3i(iv._raw_end), "wall": iv.wall_offset.seconds}
            cz = rnd.random()
            if cz < 0.3:
                # the (local date-time, zone, offset) constructor: accepts exactly the offset the zone has at local - offset
                from pyoda_time import ZonedDateTime

                if iv.has_end and rnd.random() < 0.7:
                    # within a day either side of a transition, where the neighbouring interval's offset is the tempting wrong answer
                    ns = proj.ns_from_t3(t3i(iv._raw_end)) + rnd.choice([-1, 0, 1, rnd.randint(-NPD, NPD), rnd.randint(-4 * 3600 * 10**9, 4 * 3600 * 10**9)])
                    if imin <= ns <= imax:
                        i = Instant._ctor(days=ns // NPD, nano_of_day=ns % NPD)
                        iv = ref(z).get_zone_interval(i)
                offs = {iv.wall_offset.seconds}
                try:
                    if iv.has_end:
                        offs.add(ref(z).get_zone_interval(iv.end).wall_offset.seconds)
                    if iv.has_start:
                        offs.add(ref(z).get_zone_interval(iv.start - Duration.epsilon).wall_offset.seconds)
                except Exception:  # noqa: BLE001
                    pass
                off = rnd.choice(sorted(offs) + [iv.wall_offset.seconds, rnd.randint(-64800, 64800)])
                loc_ns = proj.ns_from_t3(proj.t3_instant(i)) + iv.wall_offset.seconds * 10**9
                cand_ns = loc_ns - off * 10**9
                ld = loc_ns // NPD
                if not (imin <= cand_ns <= imax and cal._min_days <= ld <= cal._max_days and imin <= loc_ns <= imax):
                    continue
                cand = Instant._ctor(days=cand_ns // NPD, nano_of_day=cand_ns % NPD)
                ivc = ref(z).get_zone_interval(cand)
                ldt = LocalDate._ctor(days_since_epoch=ld, calendar=cal).at(LocalTime.from_nanoseconds_since_midnight(loc_ns % NPD))
                ev = {"op": "zoned_ctor", "loc": proj.t3_from_ns(loc_ns), "off": off, "cal": cal.id, "zone": z.id, "cand": proj.t3_from_ns(cand_ns),
                      "iv": {"start": t3i(ivc._raw_start), "end": t3i(ivc._raw_end), "wall": ivc.wall_offset.seconds}}
                evs.append(result(ev, lambda: ZonedDateTime(local_date_time=ldt, zone=z, offset=Offset.from_seconds(off)), zone=True))
            elif cz < 0.46:
                # a zoned value made from a local date-time by a resolver (lenient / strict / the zone's own at_* routes), for local times
                # on and around transitions (skipped, ambiguous, ordinary): whichever instant the resolver picks - that is C05's
                # business - the value's offset is the zone's offset at ITS instant and its local time is instant + offset
                if iv.has_end:
                    ns = proj.ns_from_t3(t3i(iv._raw_end)) + iv.wall_offset.seconds * 10**9 + rnd.choice(
                        [-1, 0, 1, rnd.randint(-2 * 3600 * 10**9, 2 * 3600 * 10**9), 1800 * 10**9, -1800 * 10**9, 3600 * 10**9 - 1])
                else:
                    ns = proj.ns_from_t3(proj.t3_instant(i)) + iv.wall_offset.seconds * 10**9
                if not (imin + NPD <= ns <= imax - NPD and cal._min_days + 1 <= ns // NPD <= cal._max_days - 1):
                    continue
                ldt = LocalDate._ctor(days_since_epoch=ns // NPD, calendar=cal).at(LocalTime.from_nanoseconds_since_midnight(ns % NPD))
                how = rnd.randrange(4)
                ev = {"op": "zoned_local", "loc": proj.t3_from_ns(ns), "cal": cal.id, "zone": z.id, "how": how}
                try:
                    r = [lambda: ldt.in_zone_leniently(z), lambda: z.at_leniently(ldt), lambda: ldt.in_zone_strictly(z), lambda: z.at_strictly(ldt)][how]()
                    ev["res"], ev["res_zone"] = obs(r), r.zone.id
                    iv3 = ref(z).get_zone_interval(r.to_instant())
                    ev["iv"] = {"start": t3i(iv3._raw_start), "end": t3i(iv3._raw_end), "wall": iv3.wall_offset.seconds}
                    ev["plus_zero"] = obs(r + Duration.zero)
                except Exception as e:  # noqa: BLE001
                    ev["exc"] = type(e).__name__
                evs.append(ev)
            elif cz < 0.5:
                # Instant.in_utc(): the zoned value of the instant in UTC (ISO calendar)
                ev = {"op": "zoned", "inst": proj.t3_instant(i), "cal": "ISO", "zone": "UTC", "route": 3,
                      "iv": {"start": [-2000000000, 0, 0], "end": [2000000000, 0, 0], "wall": 0}}
                evs.append(result(ev, lambda: i.in_utc(), zone=True))
            elif cz < 0.65:
                ev = {"op": "zoned", "inst": proj.t3_instant(i), "cal": cal.id, "zone": z.id, "iv": ivd}
                route = rnd.randrange(2)
                ev["route"] = route
                if route == 1:
                    # OffsetDateTime.in_zone is documented as "convert to an Instant and render that in the zone":
                    # the calendar of the result is the default one, which is outside what C11 states
                    ev["cal"] = "ISO"
                evs.append(result(ev, (lambda: i.in_zone(z, cal)) if route == 0 else (lambda: i.with_offset(roff(), cal).in_zone(z)), zone=True))
            else:
                try:
                    zv = i.in_zone(z, cal)
                except Exception:  # noqa: BLE001
                    continue
                d = rdur()
                ni_ns = proj.ns_from_t3(proj.t3_instant(i)) + d.to_nanoseconds()
                ev = {"op": "zoned_plus", "v": obs(zv), "d": proj.t3_duration(d), "zone": z.id, "iv": ivd}
                if imin <= ni_ns <= imax:
                    ni = Instant._ctor(days=ni_ns // NPD, nano_of_day=ni_ns % NPD)
                    iv2 = ref(z).get_zone_interval(ni)
                    ev["iv"] = {"start": t3i(iv2._raw_start), "end": t3i(iv2._raw_end), "wall": iv2.wall_offset.seconds}
                    # the local result must be a date of the calendar: skip results outside the calendar's days
                    ld = (ni_ns + iv2.wall_offset.seconds * 10**9) // NPD
                    if not (cal._min_days <= ld <= cal._max_days):
                        continue
                evs.append(result(ev, lambda: zv + d, zone=True))
    return evs


def run(ctx: Ctx):
    from pyoda_time import DateTimeZoneProviders

    q = ctx.quick
    rnd = random.Random(ctx.seed + 11)
    ctx.mc("MC_OffsetValues", MC_CFG, workers="auto", tag="laws")
    ids = list(DateTimeZoneProviders.tzdb.ids)
    zsel = rnd.sample(ids, 12) + ["Pacific/Apia", "Australia/Lord_Howe", "Europe/London", "America/St_Johns"]
    total = 40_000 if q else 1_000_000
    parts = parallel_map(gen, [(ctx.seed * 13 + k, total // 16, zsel) for k in range(16)])
    for e in parts[0][:40]:
        if e["op"] in ("plus", "with_offset", "zoned_plus", "diff"):
            ctx.sample(e, cap=4)
    ctx.distinct_nontrivial = sum(len(p) for p in parts)
    ctx.notes["events_by_op"] = {}
    for p in parts:
        for e in p:
            ctx.notes["events_by_op"][e["op"]] = ctx.notes["events_by_op"].get(e["op"], 0) + 1

    def key_of(ev, clause):
        k = {"clause": clause, "op": ev["op"]}
        if "route" in ev:
            k["route"] = ev["route"]
        return k

    ctx.validate("Trace_OffsetValues", TRACE_CFG, None, shards=parts, key_of=key_of, ntraces=len(parts))
    ctx.rule = ("instants (range edges, day boundaries, random) x offsets (+-18h edges, seconds granularity) x all calendars x durations "
                "(0, +-1ns, +-1/2 days +-1ns, +-36h, random, range-spanning) through every route; 16 zones for zoned values; "
                "non-trivial = every event")


def replay(ctx, path):
    run(ctx)
