"""C08 - parsing never raises; pattern creation fails only with InvalidPatternError."""
from __future__ import annotations

import random
import signal

from harness.core import Ctx, cps, parallel_map
from harness.drivers import textgen

TRACE_CFG = "SPECIFICATION Spec\nCHECK_DEADLOCK FALSE\n"
GRAMMAR_CFG = "SPECIFICATION Spec\nCONSTANTS\n MaxLen = {n}\n Alphabet <- {alpha}\nINVARIANT Total\nINVARIANT RefinesQuotingLayer\nINVARIANT QuotedLiteralKeepsPattern\n"
SCAN_CFG = "SPECIFICATION Spec\nCONSTANTS\n Alphabet <- MCAlphabet\n MaxLen = {n}\nINVARIANT NeverStuck\nINVARIANT OutcomeKnown\nPROPERTY Total\nCHECK_DEADLOCK FALSE\n"
PROTO_CFG = "SPECIFICATION Spec\nINVARIANT TypeOK\nCHECK_DEADLOCK FALSE\n"
TYPES = list(textgen.TOKENS)


class _Hang(Exception):
    pass


def _alarm(signum, frame):
    raise _Hang()


def gen(args) -> list:
    seed, n, small_texts = args
    from pyoda_time import CalendarSystem
    from pyoda_time.text import InvalidPatternError

    rnd = random.Random(seed)
    cals = [CalendarSystem.for_id(c) for c in CalendarSystem.ids]
    cults = [None, None] + textgen.cultures(rnd, 6) + [textgen.synthetic_culture(rnd, no_designators=(i == 0)) for i in range(4)]
    signal.signal(signal.SIGALRM, _alarm)
    evs = []
    todo = [(rnd.choice(TYPES), textgen.random_pattern(rnd.choice(TYPES), rnd)) for _ in range(n)]
    todo = [(t, textgen.random_pattern(t, rnd)) for t, _ in todo] + [(rnd.choice(TYPES), s) for s in small_texts]
    # one worker goes through more read-only cultures than the format-info cache holds (500): creation must keep working
    sweep = []
    if seed % 16 == 0:
        from pyoda_time._compatibility._culture_info import CultureInfo as _CI

        for nm in textgen.culture_classes()["all"]:
            try:
                sweep.append(_CI.read_only(_CI(nm)))
            except Exception:  # noqa: BLE001
                pass
    # every standard pattern letter under every synthetic culture (their expansion is the culture's own pattern text)
    forced = [(t, letter, c) for c in cults[-4:] for t in TYPES for letter in textgen.STANDARD[t]]
    # ... and the 12-hour clock with and without designator fields under each of them (one has no designators at all)
    forced += [(t, ptxt, c) for c in cults[-4:] for t, ptxt in (("LocalTime", "hh:mm tt"), ("LocalTime", "h:mm t"), ("LocalTime", "hh tt"), ("LocalTime", "h"),
                                                              ("LocalDateTime", "uuuu-MM-dd hh:mm tt"), ("LocalDateTime", "M/d/yyyy h t"))]
    todo = [(t, p, None) for t, p in todo] + forced + [(rnd.choice(TYPES[:4]), rnd.choice(["HH:mm", "d", "uuuu-MM-dd", "G", "t", "+HH:mm"]), c) for c in sweep]
    # the end of every calendar with the hour 24 (valid only when a next day exists), and the day before it
    extra_inputs: dict = {}
    for cal in cals:
        from pyoda_time import LocalDate as _LD

        last = _LD._ctor(days_since_epoch=cal._max_days, calendar=cal)
        prev = _LD._ctor(days_since_epoch=cal._max_days - 1, calendar=cal)
        first = _LD._ctor(days_since_epoch=cal._min_days, calendar=cal)
        for ptxt, mk in (("uuuu-MM-dd'T'HH:mm:ss c", lambda d, hh: f"{d.year:04d}-{d.month:02d}-{d.day:02d}T{hh} {d.calendar.id}"),
                         ("uuuu-MM-dd HH:mm c", lambda d, hh: f"{d.year:04d}-{d.month:02d}-{d.day:02d} {hh[:5]} {d.calendar.id}")):
            extra_inputs.setdefault(("LocalDateTime", ptxt), []).extend([mk(last, "24:00:00"), mk(prev, "24:00:00"), mk(first, "24:00:00"), mk(last, "23:59:59"), mk(last, "24:00:01")])
    extra_inputs[("Instant", "uuuu-MM-dd'T'HH:mm:ss'Z'")] = ["9999-12-31T24:00:00Z", "9999-12-30T24:00:00Z", "-9998-01-01T24:00:00Z", "9999-12-31T23:59:59Z"]
    extra_inputs[("LocalDateTime", "uuuu-MM-dd'T'HH:mm:ss")] = ["9999-12-31T24:00:00", "9999-12-30T24:00:00", "-9998-01-01T00:00:00", "9999-12-31T24:00:01"]
    todo += [(t, ptxt, None) for (t, ptxt) in extra_inputs]
    for typ, ptext, forced_culture in todo:
        culture = forced_culture if forced_culture is not None else rnd.choice(cults)
        ev = {"op": "pattern", "type": typ, "pattern": cps(ptext), "culture": culture.name if culture is not None else "", "parses": []}
        if typ in ("LocalTime", "Offset"):
            # for the reference parser (PatternParse.tla): the culture's time separator; parsed values are logged below
            try:
                from harness.props.c07 import _fi as _fi7

                ev["tsep"] = cps(_fi7(culture).time_separator)
            except Exception:  # noqa: BLE001
                pass
        signal.alarm(10)
        try:
            pat = textgen.create(typ, ptext, culture)
            ev["created"] = "ok"
        except InvalidPatternError:
            ev["created"] = "InvalidPatternError"
            pat = None
        except _Hang:
            ev["created"] = "HANG"
            pat = None
        except BaseException as e:  # noqa: BLE001
            ev["created"] = type(e).__name__
            pat = None
        finally:
            signal.alarm(0)
        if pat is not None and hasattr(pat, "with_template_value") and rnd.random() < 0.3:
            # a pattern with another template value is a successfully created pattern too (fields the text does not give come from it)
            try:
                tv = textgen.random_value(typ, rnd, cals)
                if rnd.random() < 0.5:
                    # templates at the top of their fields: the 31st (29 February), the last nanosecond of the day
                    from pyoda_time import AnnualDate as _AD, LocalDate as _LD2, LocalTime as _LT2

                    if typ == "AnnualDate":
                        tv = rnd.choice([_AD(1, 31), _AD(3, 30), _AD(2, 29), _AD(12, 31), _AD(5, 31)])
                    elif typ == "LocalDate":
                        tv = rnd.choice([_LD2(2000, 1, 31), _LD2(2024, 2, 29), _LD2(1999, 12, 31), _LD2(2001, 3, 30)])
                    elif typ == "LocalDateTime":
                        tv = rnd.choice([_LD2(2000, 1, 31), _LD2(2024, 2, 29), _LD2(2001, 3, 30)]).at(_LT2.from_nanoseconds_since_midnight(86400 * 10**9 - 1))
                    elif typ == "LocalTime":
                        tv = rnd.choice([_LT2.from_nanoseconds_since_midnight(86400 * 10**9 - 1), _LT2(12, 0), _LT2(23, 59, 59)])
                pat = pat.with_template_value(tv)
                ev["template_changed"] = True
                ev.pop("tsep", None)            # (the reference parser speaks about the default template only)
            except Exception:  # noqa: BLE001 - not every value is accepted as a template: keep the default one
                pass
        if pat is not None:
            inputs = []
            for _ in range(3):
                try:
                    inputs.append(pat.format(textgen.random_value(typ, rnd, cals)))
                except Exception:  # noqa: BLE001 - formatting is C07's business
                    pass
            base = list(inputs)
            for t in base:
                for _ in range(3):
                    inputs.append(textgen.mutate(t, rnd))
            inputs += [textgen.mutate("", rnd), ""]
            inputs += extra_inputs.get((typ, ptext), []) if forced_culture is None else []
            for text in inputs:
                p = {"text": cps(text[:200]), "valid": False, "error_available": False, "whole": len(text) <= 200}
                signal.alarm(10)
                try:
                    r = pat.parse(text)
                    if r.success:
                        p["out"] = "success"
                        p["valid"] = textgen.is_valid(typ, r.value)
                        if typ == "LocalTime" and p["valid"]:
                            p["nod"] = [r.value.nanosecond_of_day // 10**9, r.value.nanosecond_of_day % 10**9]
                        if typ == "Offset" and p["valid"]:
                            p["nod"] = [r.value.seconds, 0]
                    else:
                        p["out"] = "failure"
                        ok = isinstance(r.exception, Exception)
                        try:
                            r.value
                            ok = False
                        except Exception as e2:  # noqa: BLE001
                            ok = ok and type(e2) is type(r.exception)
                        try:
                            r.get_value_or_throw()
                            ok = False
                        except Exception:  # noqa: BLE001
                            pass
                        # ... and asking for the error changes nothing: it is still a failure, with the same kind of error
                        ok = ok and (not r.success) and isinstance(r.exception, Exception)
                        try:
                            r.value
                            ok = False
                        except Exception:  # noqa: BLE001
                            pass
                        p["error_available"] = ok
                except _Hang:
                    p["out"] = "HANG"
                except BaseException as e:  # noqa: BLE001
                    p["out"] = "raised:" + type(e).__name__
                    # the text-layer function whose call failed (the deepest frame under pyoda_time/text)
                    import traceback as _tb

                    fr = [f for f in _tb.extract_tb(e.__traceback__) if "/pyoda_time/text/" in f.filename]
                    p["site"] = fr[-1].name if fr else "?"
                finally:
                    signal.alarm(0)
                ev["parses"].append(p)
        evs.append(ev)
    return evs


def small_scope_texts(rnd: random.Random, maxlen: int, cap: int) -> list:
    import itertools

    alpha = ["'", "\"", "\\", "%", "H", "m", "d", "y", ":", "<", ">", "x"]
    out = []
    for n in range(0, maxlen + 1):
        out.extend("".join(t) for t in itertools.product(alpha, repeat=n))
    if len(out) > cap:
        out = rnd.sample(out, cap)
    return out


def run(ctx: Ctx):
    q = ctx.quick
    rnd = random.Random(ctx.seed + 8)
    ctx.mc("MC_PatternScan", SCAN_CFG.format(n=4 if q else 5), workers="auto", tag="scan", timeout=1800)
    ctx.mc("MC_PatternGrammar", GRAMMAR_CFG.format(n=4, alpha="Alpha16"), workers="auto", tag="grammar", timeout=1800)
    if not q:
        ctx.mc("MC_PatternGrammar", GRAMMAR_CFG.format(n=5, alpha="Alpha11"), workers="auto", tag="grammar5", timeout=3000)
    ctx.mc("MC_TextProtocol", PROTO_CFG, workers=1, tag="proto")
    small = small_scope_texts(rnd, 3 if q else 4, 4000 if q else 25000)
    total = 6000 if q else 150000
    per = total // 16
    sl = [small[k::16] for k in range(16)]
    textgen.culture_classes()   # computed once here, inherited by the forked workers
    parts = parallel_map(gen, [(ctx.seed * 41 + k, per, sl[k]) for k in range(16)])
    npar = sum(len(e["parses"]) for p in parts for e in p)
    created = {}
    for p in parts:
        for e in p:
            created[e["created"]] = created.get(e["created"], 0) + 1
    ctx.notes["patterns"] = sum(len(p) for p in parts)
    ctx.notes["creation_outcomes"] = created
    ctx.notes["parses"] = npar
    # how many creations the field-level grammar was asked about (mirror of PatternGrammar!Covered, for the counts only)
    gram = {}
    for p in parts:
        for e in p:
            if len(e["pattern"]) != 1 and not (e["type"] in ("LocalDateTime", "Instant") and 108 in e["pattern"]) and e["created"] in ("ok", "InvalidPatternError"):
                k = e["type"] + (":accepted" if e["created"] == "ok" else ":rejected")
                gram[k] = gram.get(k, 0) + 1
    ctx.notes["creations_compared_with_the_grammar"] = gram
    ctx.notes["parses_offered_to_the_reference_parser"] = {
        t: sum(len(e["parses"]) for p in parts for e in p if e["type"] == t and e["created"] == "ok" and "tsep" in e and len(e["pattern"]) > 1)
        for t in ("LocalTime", "Offset")}
    ctx.notes["parse_outcomes"] = {}
    for p in parts:
        for e in p:
            for x in e["parses"]:
                ctx.notes["parse_outcomes"][x["out"]] = ctx.notes["parse_outcomes"].get(x["out"], 0) + 1
    ctx.distinct_nontrivial = len({(e["type"], bytes(e["pattern"][:60]).hex() if False else str(e["pattern"][:60])) for p in parts for e in p})
    for e in parts[0][:40]:
        if e["created"] == "ok" and e["parses"]:
            ctx.sample({"type": e["type"], "pattern": "".join(chr(c) for c in e["pattern"]), "culture": e["culture"],
                        "parses": [{"text": "".join(chr(c) for c in x["text"]), "out": x["out"]} for x in e["parses"][:4]]}, cap=3)

    def key_of(ev, clause):
        k = {"clause": clause, "type": ev["type"]}
        ptxt = "".join(chr(c) for c in ev["pattern"])
        if "c" in ptxt.replace("'", " ") and ev["type"] in ("LocalDate", "LocalDateTime"):
            k["uses_calendar_specifier"] = True
        if clause.startswith("pattern_creation"):
            k["exc"] = ev["created"]
        else:
            bad = [x for x in ev["parses"] if x["out"] not in ("success", "failure")]
            if bad:
                k["exc"] = bad[0]["out"]
                k["site"] = bad[0].get("site", "?")
                # which date fields the pattern itself supplies (the others come from the template value)
                import re as _re

                bare = _re.sub(r"'[^']*'|\"[^\"]*\"|\\.", " ", ptxt)
                k["year_field"] = bool(_re.search(r"[uy]", bare))
                k["era_field"] = "g" in bare
        return k

    ctx.validate("Trace_TextProtocol", TRACE_CFG, None, shards=parts, key_of=key_of, ntraces=sum(len(p) for p in parts))
    ctx.events = npar + sum(len(p) for p in parts)
    ctx.rule = ("pattern texts: every text of length <= " + ("3" if q else "4") + " over {' \" \\ % H m d y : < > x} (sampled), single-letter standard "
                "patterns, random token concatenations with injected quotes/escapes/brackets, a list of malformed families; 7 pattern types x "
                "invariant + 6 random ICU cultures per worker; inputs: formatted values, single-edit mutations, out-of-range field values, "
                "overlong digit runs, non-ASCII digits, empty and NUL strings; every call under a 10 s alarm; non-trivial = distinct (type, pattern)")


def replay(ctx, path):
    run(ctx)
