"""C15 - conversions to and from Python's datetime types are exact and round-trip."""
from __future__ import annotations

import datetime as dt
import random

from harness import proj
from harness.core import Ctx, parallel_map

TRACE_CFG = "SPECIFICATION Spec\nCHECK_DEADLOCK FALSE\n"
MC_CFG = "SPECIFICATION Spec\nINVARIANT Laws\n"
NPD = proj.NPD


def _dfields(d):
    return [d.year, d.month, d.day]


def _tfields(t):
    return [t.hour, t.minute, t.second, t.microsecond]


def _xfields(x):
    return [x.year, x.month, x.day, x.hour, x.minute, x.second, x.microsecond]


def _td(td):
    return [td.days, td.seconds, td.microseconds]


def gen(args) -> list:
    seed, n, date_lo, date_hi = args
    from pyoda_time import CalendarSystem, Duration, Instant, LocalDate, LocalDateTime, LocalTime, Offset, OffsetDateTime

    rnd = random.Random(seed)
    cals = [CalendarSystem.for_id(c) for c in CalendarSystem.ids]
    evs = []
    # some workers run with another process time zone (conversions of instants are about UTC, whatever the local zone is)
    tzname = {3: "JST-9", 7: "EST5EDT", 11: "IST-5:30"}.get(seed % 17)
    if tzname:
        import os as _os
        import time as _time

        _os.environ["TZ"] = tzname
        _time.tzset()
    # a contiguous block of stdlib dates (exhaustive over the whole range in the thorough tier)
    for o in range(date_lo, date_hi):
        d = dt.date.fromordinal(o)
        ev = {"op": "date_rt", "d": _dfields(d)}
        try:
            ld = LocalDate.from_date(d)
            ev["day"], ev["cal"] = ld._days_since_epoch, ld.calendar.id
            ev["back"] = _dfields(ld.to_date())
        except Exception as e:  # noqa: BLE001
            ev["exc"] = type(e).__name__
        evs.append(ev)
    std_lo, std_hi = dt.date.min.toordinal() - 719163, dt.date.max.toordinal() - 719163
    imin = proj.ns_from_t3(proj.t3_instant(Instant.min_value))
    imax = proj.ns_from_t3(proj.t3_instant(Instant.max_value))

    def rdate():
        c = rnd.random()
        if c < 0.05:
            return dt.date(1970, 1, 1) + dt.timedelta(days=rnd.choice([-1, 0, 0, 1]))
        if c < 0.15:
            return dt.date.min + dt.timedelta(days=rnd.randint(0, 400))
        if c < 0.3:
            return dt.date.max - dt.timedelta(days=rnd.randint(0, 400))
        return dt.date.fromordinal(rnd.randint(1, dt.date.max.toordinal()))

    def rtime():
        return dt.time(rnd.choice([0, 23, rnd.randint(0, 23)]), rnd.choice([0, 59, rnd.randint(0, 59)]), rnd.choice([0, 59, rnd.randint(0, 59)]),
                       rnd.choice([0, 999999, 1, rnd.randint(0, 999999)]))

    def rday_near_std():
        c = rnd.random()
        if c < 0.06:
            return rnd.choice([-2, -1, 0, 0, 1, 2])            # the epoch itself: day number 0 and its neighbours
        if c < 0.25:
            return std_lo + rnd.randint(-3, 3)
        if c < 0.5:
            return std_hi + rnd.randint(-3, 3)
        if c < 0.6:
            return rnd.randint(-4371222, 2932896)
        return rnd.randint(std_lo, std_hi)

    def fields_event(cal, y, m, d, nod, off, ld=None):
        ev = {"op": "fields_to_date", "cal": cal.id, "y": y, "m": m, "d": d, "t3": [nod // 10**9, nod % 10**9], "off": off}
        try:
            ld = ld if ld is not None else LocalDate(y, m, d, cal)
            ev["res"] = _dfields(ld.to_date())
            ldt = ld.at(LocalTime.from_nanoseconds_since_midnight(nod))
            ev["naive"] = _xfields(ldt.to_naive_datetime())
            aw = ldt.with_offset(Offset.from_seconds(off)).to_aware_datetime()
            ev["aware"], ev["aware_off"] = _xfields(aw.replace(tzinfo=None)), int(aw.utcoffset().total_seconds())
        except Exception as e:  # noqa: BLE001
            ev["exc"] = type(e).__name__
        return ev

    std_lo, std_hi = dt.date.min.toordinal() - 719163, dt.date.max.toordinal() - 719163
    # histories: a calendar whose per-year data is cached may derive a year's entry from its neighbour's: year y + 1 (or y - 1)
    # is asked about first, from empty caches, then dates all over year y (the Hebrew calendars share one such cache)
    from harness.props.c13 import cold

    for cal in cals:
        if seed % 4 != 0 and not cal.id.startswith("Hebrew"):
            continue
        calc = cal._year_month_day_calculator
        for _ in range(6 if cal.id.startswith("Hebrew") else 1):
            # (years of this calendar that lie wholly inside the standard library's range: by day numbers, no conversion asked for)
            lo_d, hi_d = max(cal._min_days, std_lo) + 800, min(cal._max_days, std_hi) - 800
            if lo_d >= hi_d:
                continue
            lo_y = LocalDate._ctor(days_since_epoch=lo_d, calendar=cal).year
            hi_y = LocalDate._ctor(days_since_epoch=hi_d, calendar=cal).year
            if lo_y >= hi_y:
                continue
            y = rnd.randint(lo_y, hi_y)
            first = y + rnd.choice([1, 1, -1])

            def run(cal=cal, y=y, first=first):
                out = []
                LocalDate(first, 1, 1, cal).to_date()
                nm = cal.get_months_in_year(y)
                for m in sorted(set([1, 2, 3, nm, nm - 1, rnd.randint(1, nm), rnd.randint(1, nm)])):
                    if 1 <= m <= nm:
                        d = rnd.choice([1, cal.get_days_in_month(y, m)])
                        out.append(fields_event(cal, y, m, d, rnd.randrange(NPD), 0))
                        out[-1]["after_year"] = first
                return out

            try:
                evs.extend(cold(calc, run))
            except Exception:  # noqa: BLE001
                pass

    for _ in range(n):
        c = rnd.random()
        if c < 0.1:
            cal = rnd.choice(cals)
            # (half of the days from the calendar's own range: short-range calendars would hardly ever be hit otherwise)
            day = rday_near_std() if rnd.random() < 0.5 else rnd.randint(max(cal._min_days, std_lo - 2), min(cal._max_days, std_hi + 2))
            if not (cal._min_days <= day <= cal._max_days):
                continue
            ld = LocalDate._ctor(days_since_epoch=day, calendar=cal)
            ev = {"op": "to_date", "day": day, "cal": cal.id}
            try:
                ev["res"] = _dfields(ld.to_date())
            except Exception as e:  # noqa: BLE001
                ev["exc"] = type(e).__name__
            evs.append(ev)
        elif c < 0.2:
            t = rtime()
            ev = {"op": "time_rt", "t": _tfields(t)}
            try:
                lt = LocalTime.from_time(t)
                ev["t3"] = [lt.nanosecond_of_day // 10**9, lt.nanosecond_of_day % 10**9]
                ev["back"] = _tfields(lt.to_time())
            except Exception as e:  # noqa: BLE001
                ev["exc"] = type(e).__name__
            evs.append(ev)
        elif c < 0.27:
            nod = rnd.choice([0, NPD - 1, 999, 1000, 1001, rnd.randrange(NPD)])
            lt = LocalTime.from_nanoseconds_since_midnight(nod)
            evs.append({"op": "to_time", "t3": [nod // 10**9, nod % 10**9], "res": _tfields(lt.to_time())})
        elif c < 0.4:
            x = dt.datetime.combine(rdate(), rtime())
            if rnd.random() < 0.1:
                x = rnd.choice([dt.datetime.min, dt.datetime.max])
            ev = {"op": "dt_rt", "x": _xfields(x)}
            try:
                ldt = LocalDateTime.from_naive_datetime(x)
                nod = ldt.nanosecond_of_day
                ev["p"] = [ldt.date._days_since_epoch, nod // 10**9, nod % 10**9]
                ev["back"] = _xfields(ldt.to_naive_datetime())
            except Exception as e:  # noqa: BLE001
                ev["exc"] = type(e).__name__
            evs.append(ev)
        elif c < 0.44:
            # a value given by its fields in its own calendar (not by its day number): last months and last days preferred
            cal = rnd.choice(cals)
            y = rnd.choice([rnd.randint(cal.min_year, cal.max_year), rnd.randint(max(cal.min_year, 1), min(cal.max_year, 3000))])
            try:
                nm = cal.get_months_in_year(y)
                m = rnd.choice([1, nm, nm, max(1, nm - 1), rnd.randint(1, nm)])
                nd = cal.get_days_in_month(y, m)
                d = rnd.choice([1, nd, rnd.randint(1, nd)])
                nod = rnd.choice([0, NPD - 1, 999, 1001, rnd.randrange(NPD)])
                off = rnd.choice([0, 3600, -64800, 64800, rnd.randint(-64800, 64800)])
                ld = LocalDate(y, m, d, cal)
            except Exception:  # noqa: BLE001 - not a date of this calendar: C01's business
                continue
            evs.append(fields_event(cal, y, m, d, nod, off, ld))
        elif c < 0.5:
            cal = rnd.choice(cals)
            day = rday_near_std() if rnd.random() < 0.5 else rnd.randint(max(cal._min_days, std_lo - 2), min(cal._max_days, std_hi + 2))
            if not (cal._min_days <= day <= cal._max_days):
                continue
            nod = rnd.choice([0, NPD - 1, 999, 1001, rnd.randrange(NPD)])
            ldt = LocalDate._ctor(days_since_epoch=day, calendar=cal).at(LocalTime.from_nanoseconds_since_midnight(nod))
            ev = {"op": "to_naive", "p": [day, nod // 10**9, nod % 10**9], "cal": cal.id}
            try:
                ev["res"] = _xfields(ldt.to_naive_datetime())
            except Exception as e:  # noqa: BLE001
                ev["exc"] = type(e).__name__
            evs.append(ev)
        elif c < 0.65:
            off = rnd.choice([0, 64800, -64800, 64740, -64740, 3600, -19800, rnd.randint(-1080, 1080) * 60, rnd.randint(-64800, 64800)])
            x = dt.datetime.combine(rdate(), rtime())
            cx = rnd.random()
            if cx < 0.15:
                x = rnd.choice([dt.datetime.min, dt.datetime.max])
            elif cx < 0.3:
                # within a day of either end: the UTC instant may fall outside year 1..9999 while the local fields do not
                x = rnd.choice([dt.datetime.min + dt.timedelta(seconds=rnd.randint(0, 90000)), dt.datetime.max - dt.timedelta(seconds=rnd.randint(0, 90000))])
            aw = x.replace(tzinfo=dt.timezone(dt.timedelta(seconds=off)))
            ev = {"op": "aware_rt", "x": _xfields(x), "off": off}
            try:
                utc_ord = (x - dt.timedelta(seconds=off)) if dt.datetime.min + dt.timedelta(days=2) < x < dt.datetime.max - dt.timedelta(days=2) else None
                inst = Instant.from_aware_datetime(aw)
                ev["inst"] = proj.t3_instant(inst)
                odt = OffsetDateTime.from_aware_datetime(aw)
                ev["odt_inst"], ev["odt_off"] = proj.t3_instant(odt.to_instant()), odt.offset.seconds
                back = odt.to_aware_datetime()
                ev["back_x"], ev["back_off"] = _xfields(back.replace(tzinfo=None)), int(back.utcoffset().total_seconds())
                if utc_ord is not None:
                    ev["back_utc"] = _xfields(inst.to_datetime_utc().replace(tzinfo=None))
            except Exception as e:  # noqa: BLE001
                ev["exc"] = type(e).__name__
            evs.append(ev)
            # the OffsetDateTime route on its own: it keeps the local fields and the offset, so it converts every aware datetime,
            # also those whose UTC instant lies beyond the Instant range (within 18 h of datetime.min/max)
            ev2 = {"op": "aware_odt", "x": _xfields(x), "off": off}
            try:
                odt = OffsetDateTime.from_aware_datetime(aw)
                l2 = odt.local_date_time
                ev2["loc"] = [l2.date._days_since_epoch, l2.nanosecond_of_day // 10**9, l2.nanosecond_of_day % 10**9]
                ev2["odt_off"], ev2["cal"] = odt.offset.seconds, odt.calendar.id
                back = odt.to_aware_datetime()
                ev2["back_x"], ev2["back_off"] = _xfields(back.replace(tzinfo=None)), int(back.utcoffset().total_seconds())
            except Exception as e:  # noqa: BLE001
                ev2["exc"] = type(e).__name__
            evs.append(ev2)
            if rnd.random() < 0.3:
                # the same instant written with another offset is a different aware datetime: its own local fields and offset
                off3 = rnd.choice([o3 for o3 in (0, 3600, -3600, 7200, 19800, -64800, 64800) if o3 != off])
                try:
                    aw3 = aw.astimezone(dt.timezone(dt.timedelta(seconds=off3)))
                except OverflowError:
                    aw3 = None
                if aw3 is not None:
                    x3 = aw3.replace(tzinfo=None)
                    # (equal and hash-equal to the first one - the standard library compares aware datetimes by instant - yet another value)
                    ev4 = {"op": "aware_rt", "x": _xfields(x3), "off": off3, "after_same_instant": True}
                    try:
                        inst4 = Instant.from_aware_datetime(aw3)
                        ev4["inst"] = proj.t3_instant(inst4)
                        if dt.datetime.min + dt.timedelta(days=2) < x3 < dt.datetime.max - dt.timedelta(days=2):
                            ev4["back_utc"] = _xfields(inst4.to_datetime_utc().replace(tzinfo=None))
                    except Exception as e:  # noqa: BLE001
                        ev4["exc"] = type(e).__name__
                    evs.append(ev4)
                    ev3 = {"op": "aware_odt", "x": _xfields(x3), "off": off3, "after_same_instant": True}
                    try:
                        odt = OffsetDateTime.from_aware_datetime(aw3)
                        l3 = odt.local_date_time
                        ev3["loc"] = [l3.date._days_since_epoch, l3.nanosecond_of_day // 10**9, l3.nanosecond_of_day % 10**9]
                        ev3["odt_off"], ev3["cal"] = odt.offset.seconds, odt.calendar.id
                        back = odt.to_aware_datetime()
                        ev3["back_x"], ev3["back_off"] = _xfields(back.replace(tzinfo=None)), int(back.utcoffset().total_seconds())
                    except Exception as e:  # noqa: BLE001
                        ev3["exc"] = type(e).__name__
                    evs.append(ev3)
        elif c < 0.75:
            cal = rnd.choice(cals)
            off = rnd.choice([0, 64800, -64800, 3600, rnd.randint(-64800, 64800)])
            day = rday_near_std()
            nod = rnd.choice([0, NPD - 1, 999, rnd.randrange(NPD)])
            ns = day * NPD + nod - off * 10**9
            if not (imin <= ns <= imax) or not (cal._min_days + 1 <= day <= cal._max_days - 1):
                continue
            inst = Instant._ctor(days=ns // NPD, nano_of_day=ns % NPD)
            ev = {"op": "to_aware", "inst": proj.t3_instant(inst), "off": off, "cal": cal.id}
            try:
                r = inst.with_offset(Offset.from_seconds(off), cal).to_aware_datetime()
                ev["res"], ev["res_off"] = _xfields(r.replace(tzinfo=None)), int(r.utcoffset().total_seconds())
            except Exception as e:  # noqa: BLE001
                ev["exc"] = type(e).__name__
            evs.append(ev)
        elif c < 0.82:
            day = rday_near_std()
            nod = rnd.choice([0, NPD - 1, 999, rnd.randrange(NPD)])
            if not (-4371222 <= day <= 2932896):
                continue
            inst = Instant._ctor(days=day, nano_of_day=nod)
            ev = {"op": "to_utc", "inst": [day, nod // 10**9, nod % 10**9]}
            try:
                ev["res"] = _xfields(inst.to_datetime_utc().replace(tzinfo=None))
            except Exception as e:  # noqa: BLE001
                ev["exc"] = type(e).__name__
            evs.append(ev)
        elif c < 0.9:
            cc = rnd.random()
            td = dt.timedelta.min if cc < 0.05 else dt.timedelta.max if cc < 0.1 else \
                dt.timedelta(days=rnd.choice([0, -1, 1, rnd.randint(-999999999, 999999999)]), seconds=rnd.randint(0, 86399),
                             microseconds=rnd.choice([0, 1, 999999, rnd.randint(0, 999999)]))
            ev = {"op": "td_rt", "td": _td(td)}
            try:
                d = Duration.from_timedelta(td)
                ev["d"] = proj.t3_duration(d)
                ev["back"] = _td(d.to_timedelta())
            except Exception as e:  # noqa: BLE001
                ev["exc"] = type(e).__name__
            evs.append(ev)
        elif c < 0.97:
            ns = rnd.choice([0, 1, -1, 999, -999, 1000, -1000, 1001, -1001, NPD, -NPD, -NPD + 1, -NPD - 999, rnd.randint(-10**18, 10**18),
                             rnd.randint(-999999999 * NPD, 999999999 * NPD)])
            d = Duration._ctor(days=ns // NPD, nano_of_day=ns % NPD)
            ev = {"op": "to_td", "d": proj.t3_duration(d)}
            try:
                ev["res"] = _td(d.to_timedelta())
            except Exception as e:  # noqa: BLE001
                ev["exc"] = type(e).__name__
            evs.append(ev)
        elif c < 0.985:
            # any timedelta within a day or so -> Offset: fractional seconds truncated toward zero, +-18 h checked exactly
            base = rnd.choice([0, 64800, -64800, 1, -1, 3600, -5400, rnd.randint(-64800, 64800), rnd.randint(-90000, 90000)])
            us = rnd.choice([0, 1, -1, 500000, -500000, 999999, -999999, rnd.randint(-999999, 999999)])
            td = dt.timedelta(seconds=base, microseconds=us)
            ev = {"op": "td_off", "td": _td(td)}
            try:
                ev["res"] = Offset.from_timedelta(td).seconds
            except Exception as e:  # noqa: BLE001
                ev["exc"] = type(e).__name__
            evs.append(ev)
        else:
            s = rnd.choice([0, 64800, -64800, -1, 1, rnd.randint(-64800, 64800)])
            ev = {"op": "off_td", "s": s}
            try:
                td = Offset.from_seconds(s).to_timedelta()
                ev["td"] = _td(td)
                ev["back"] = Offset.from_timedelta(td).seconds
            except Exception as e:  # noqa: BLE001
                ev["exc"] = type(e).__name__
            evs.append(ev)
    return evs


def run(ctx: Ctx):
    q = ctx.quick
    rnd = random.Random(ctx.seed + 15)
    ctx.mc("MC_PyBridge", MC_CFG, workers="auto", tag="trunc")
    total = 40_000 if q else 1_600_000
    max_ord = dt.date.max.toordinal()
    if q:
        # date round trips: both ends of the range + a random block (the thorough tier enumerates every date)
        # both range ends, the two ends of the 1900-2100 window (where the implementation switches between a table-driven and the
        # general conversion; 1900 and 2100 are the non-leap century years in it), the last non-leap/leap century pair, random blocks
        d1900, d2100, d2000, d1600, d1970 = (dt.date(y, 1, 1).toordinal() for y in (1900, 2100, 2000, 1600, 1970))
        blocks = [(1, 1500), (max_ord - 1500, max_ord + 1), (d1900 - 400, d1900 + 1100), (d2100 - 400, d2100 + 1100), (d2000 - 100, d2000 + 500),
                  (d1600 - 100, d1600 + 500), (d1970 - 400, d1970 + 400)] + [(b, b + 1500) for b in [rnd.randint(1, max_ord - 1500) for _ in range(9)]]
    else:
        step = (max_ord + 16) // 16
        blocks = [(1 + k * step, min(1 + (k + 1) * step, max_ord + 1)) for k in range(16)]
    parts = parallel_map(gen, [(ctx.seed * 17 + k, total // 16, blocks[k][0], blocks[k][1]) for k in range(16)])
    for e in parts[0][2000:2400]:
        if e["op"] in ("aware_rt", "to_td", "to_naive"):
            ctx.sample(e, cap=4)
    ctx.distinct_nontrivial = sum(len(p) for p in parts)
    ctx.exhaustive = False
    ctx.notes["stdlib_dates_round_tripped"] = sum(1 for p in parts for e in p if e["op"] == "date_rt")

    def key_of(ev, clause):
        k = {"clause": clause, "op": ev["op"]}
        if "exc" in ev:
            k["exc"] = ev["exc"]
        return k

    ctx.validate("Trace_PyBridge", TRACE_CFG, None, shards=parts, key_of=key_of, ntraces=len(parts))
    ctx.rule = ("stdlib dates (" + ("both range ends, the ends of the 1900-2100 window, 1600 and 2000, + 10 random blocks of 1500 consecutive dates" if q else "every date 0001-01-01..9999-12-31")
                + "), times, naive/aware datetimes incl. min/max and microsecond edges, fixed offsets within +-18h, timedeltas incl. min/max; "
                "pyoda values of every calendar around the stdlib range ends; non-trivial = every event")


def replay(ctx, path):
    run(ctx)
