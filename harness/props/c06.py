"""C06 - zones behave exactly as the bundled tz database bytes say.

spec:  zone/NzdFile.tla (framing), zone/NzdCodec.tla (decoders), zone/ZoneRules.tla (yearly rules by calendar arithmetic)
TLC reads the database file itself and parses it independently; the trace lists, in file order, what the real
package made of each field and how the resulting zones behave through the public API  -> Trace_Nzd
"""
from __future__ import annotations

import io
import json
import random

from harness.core import REPO, Ctx, Reject, run_tlc
from harness.drivers import zonewalk

TRACE_CFG = "SPECIFICATION Spec\nCHECK_DEADLOCK FALSE\n"
FILES = ["pyoda_time/time_zones/Tzdb.nzd", "tests/test_data/Tzdb2013bFromNodaTime1.1.nzd"]
MC_RULES = """SPECIFICATION Spec
CONSTANTS
  YearLo = {lo}
  YearHi = {hi}
INVARIANT RuleDayIsInMonthWindow
INVARIANT WeekdayHonoured
INVARIANT AlternationOrdered
"""


def _b(s: str) -> list:
    return list(s.encode("utf-8"))


def _iv(iv, year_hint=False) -> dict:
    d = {"start": zonewalk.t3i(iv._raw_start), "end": zonewalk.t3i(iv._raw_end), "name": _b(iv.name),
         "wall": iv.wall_offset.seconds, "sav": iv.savings.seconds}
    if year_hint:
        d["y"] = iv.iso_local_start.year if iv.has_start else 1
    return d


def file_events(path: str, tail_head: int, tail_last: int, zone_mod: int, phase: int):
    from pyoda_time import DateTimeZoneProviders, Duration, Instant, Offset
    from pyoda_time.time_zones import DateTimeZoneCache
    from pyoda_time.time_zones._tzdb_date_time_zone_source import TzdbDateTimeZoneSource
    from pyoda_time.time_zones.io._date_time_zone_reader import _DateTimeZoneReader
    from pyoda_time.time_zones.io._tzdb_stream_field import _TzdbStreamField

    raw = open(path, "rb").read()
    source = TzdbDateTimeZoneSource.from_stream(io.BytesIO(raw))
    provider = DateTimeZoneCache(source)
    len(list(DateTimeZoneProviders.tzdb.ids))            # (the built-in provider exists by now as well)
    # a provider over the OTHER real file is then made in the same process and serves every id before this file's provider (or the
    # built-in one) is asked for anything: what they serve is still this file's data
    try:
        others = [str(REPO / f) for f in FILES if not path.endswith(f)]
        for op_ in others:
            oprov = DateTimeZoneCache(TzdbDateTimeZoneSource.from_stream(io.BytesIO(open(op_, "rb").read())))
            for oid in list(oprov.ids):
                oprov[oid]
    except Exception:  # noqa: BLE001 - the other file's own run reports its problems
        pass
    builtin = path.endswith("time_zones/Tzdb.nzd")
    evs = []
    pool = None
    stream = io.BytesIO(raw)
    stream.read(4)
    eps = Duration.epsilon
    nz = 0
    for field in _TzdbStreamField._read_fields(stream):
        fid = int(field.id)
        data = bytes(field._TzdbStreamField__data)
        if fid == 0:
            rd = _DateTimeZoneReader._ctor(io.BytesIO(data), None)
            pool = tuple(rd.read_string() for _ in range(rd.read_count()))
            evs.append({"op": "f_pool", "strings": [_b(s) for s in pool]})
        elif fid == 1:
            rd = _DateTimeZoneReader._ctor(io.BytesIO(data), pool)
            zid = rd.read_string()
            nz += 1
            z = provider[zid]
            if builtin and nz % 7 == 0:
                z = DateTimeZoneProviders.tzdb[zid]   # the built-in provider serves the same data
            inner = getattr(z, "_CachedDateTimeZone__time_zone", z)
            ev = {"op": "f_zone", "id": _b(zid), "ivs": [], "tail": [], "has_tail": False}
            if type(inner).__name__ == "_FixedDateTimeZone":
                ev["kind"] = "fixed"
                ev["ivs"] = [_iv(z.get_zone_interval(Instant.min_value))]
            else:
                ev["kind"] = "precalc"
                tail_start = inner._PrecalculatedDateTimeZone__tail_zone_start
                ev["has_tail"] = inner._PrecalculatedDateTimeZone__tail_zone is not None
                cur = Instant.min_value
                while True:
                    iv = z.get_zone_interval(cur)
                    if iv._raw_start >= tail_start and iv.has_start:
                        break
                    ev["ivs"].append(_iv(iv))
                    if not iv.has_end:
                        break
                    cur = iv.end
                # the served zone answers every instant inside a stored period with that period, whatever was asked before: the periods
                # just walked are asked again, backwards, at their first instant, a middle one and their last
                bad = 0
                asked = 0
                try:
                    cur = Instant.min_value
                    walked = []
                    while len(walked) < 400:
                        iv = z.get_zone_interval(cur)
                        if (iv._raw_start >= tail_start and iv.has_start) or not iv.has_end:
                            break
                        walked.append(iv)
                        cur = iv.end
                    for iv in reversed(walked):
                        if not iv.has_start:
                            continue
                        half = Duration.from_nanoseconds((iv.end - iv.start).to_nanoseconds() // 2)
                        for t in (iv.end - eps, iv.start + half, iv.start):
                            got = z.get_zone_interval(t)
                            asked += 1
                            if not (got._raw_start == iv._raw_start and got._raw_end == iv._raw_end and got.wall_offset == iv.wall_offset
                                    and got.name == iv.name and z.get_utc_offset(t) == iv.wall_offset):
                                bad += 1
                except Exception:  # noqa: BLE001
                    bad += 1
                ev["inside_asked"], ev["inside_bad"] = asked, bad
                if ev["has_tail"]:
                    full = zone_mod <= 1 or (nz % zone_mod == phase % zone_mod)
                    cur = tail_start
                    k = 0
                    while True:
                        iv = z.get_zone_interval(cur)
                        ev["tail"].append(_iv(iv, True))
                        k += 1
                        if not iv.has_end:
                            break
                        cur = iv.end
                        if not full and k >= tail_head:
                            break
                    if not full:
                        # the last intervals before the end of time
                        last = z.get_zone_interval(Instant.max_value)
                        chain = [last]
                        for _ in range(tail_last):
                            if not chain[0].has_start or chain[0].start <= cur:
                                break
                            chain.insert(0, z.get_zone_interval(chain[0].start - eps))
                        ev["tail"].extend(_iv(x, True) for x in chain if x._raw_start > cur or not ev["tail"])
            evs.append(ev)
        elif fid == 2:
            evs.append({"op": "f_version", "v": _b(source.tzdb_version)})
        elif fid == 3:
            rd = _DateTimeZoneReader._ctor(io.BytesIO(data), pool)
            d = rd.read_dictionary()
            # what the package serves as aliases must be this dictionary
            served = {k: v for k, v in source.canonical_id_map.items() if k != v}
            ok = served == d
            evs.append({"op": "f_idmap", "keys": [_b(k) for k in d], "vals": [_b(v) for v in d.values()], "served_equal": ok})
        elif fid == 4:
            wm = source.windows_mapping
            w2t = dict(source.windows_to_tzdb_ids)
            evs.append({"op": "f_windows", "version": _b(wm.version), "tzdb_version": _b(wm.tzdb_version), "windows_version": _b(wm.windows_version),
                        "zones": [[_b(mz.windows_id), _b(mz.territory), [_b(t) for t in mz.tzdb_ids]] for mz in wm.map_zones],
                        "w2t_keys": [_b(k) for k in w2t], "w2t_vals": [_b(v) for v in w2t.values()]})
        elif fid in (6, 7):
            locs = source.zone_locations if fid == 6 else source.zone_1970_locations
            known = set(source.canonical_id_map)
            out = []
            for loc in locs or []:
                r = {"lat": round(loc.latitude * 3600), "lon": round(loc.longitude * 3600), "zone_known": loc.zone_id in known}
                if fid == 6:
                    r["strs"] = [_b(loc.country_name), _b(loc.country_code), _b(loc.zone_id), _b(loc.comment)]
                    r["countries"] = []
                else:
                    r["strs"] = [_b(loc.zone_id), _b(loc.comment)]
                    r["countries"] = [x for c in loc.countries for x in (_b(c.name), _b(c.code))]
                out.append(r)
            evs.append({"op": "f_locations", "is1970": fid == 7, "locs": out})
        else:
            evs.append({"op": "f_other", "id": fid})
    # provider-level behaviour
    rnd = random.Random(phase)
    ids = list(provider.ids)
    aliases_ok = True
    cmap = source.canonical_id_map
    for alias, canon in cmap.items():
        if alias == canon:
            continue
        za, zc = provider[alias], provider[canon]
        if za.id != alias or zc.id != canon:
            aliases_ok = False
        for t in (Instant.min_value, Instant.from_utc(1950, 6, 1, 0, 0), Instant.from_utc(2024, 1, 15, 0, 0),
                  Instant.from_utc(2024, 7, 15, 0, 0), Instant.from_utc(5000, 3, 3, 3, 3), Instant.max_value):
            ia, ic = za.get_zone_interval(t), zc.get_zone_interval(t)
            # same data: bounds and offsets (a nameless fixed zone is named after the id it was asked for, so names
            # are compared only when the canonical zone's interval is not named after its own id)
            same = (ia._raw_start, ia._raw_end, ia.wall_offset, ia.savings) == (ic._raw_start, ic._raw_end, ic.wall_offset, ic.savings)
            if not same or (ic.name != canon and ia.name != ic.name):
                aliases_ok = False
    try:
        source.validate()
        validate_ok = True
    except Exception:  # noqa: BLE001
        validate_ok = False
    unknown_ok = provider.get_zone_or_none("Nowhere/Atlantis") is None
    try:
        provider["Nowhere/Atlantis"]
        unknown_ok = False
    except Exception as e:  # noqa: BLE001
        unknown_ok = unknown_ok and type(e).__name__ == "DateTimeZoneNotFoundError"
    fixed = []
    for _ in range(60):
        sign = rnd.choice([-1, 1])
        h, m, s = rnd.randint(0, 17), rnd.choice([0, 0, 30, 45, rnd.randint(0, 59)]), rnd.choice([0, 0, 0, rnd.randint(0, 59)])
        if h == m == s == 0:
            h = 1
        text = "UTC" + ("+" if sign > 0 else "-") + f"{h:02d}" + (f":{m:02d}" if (m or s) else "") + (f":{s:02d}" if s else "")
        z = provider.get_zone_or_none(text)
        got = z.get_utc_offset(Instant.from_utc(2000, 1, 1, 0, 0)).seconds if z is not None else -99999
        id_ok = z is not None and z.min_offset == z.max_offset and provider[text].id == z.id
        fixed.append({"text": text, "sign": sign, "h": h, "m": m, "s": s, "got": got, "id_ok": bool(id_ok)})
    # the id list is the file's, before and after any number of lookups (of ids in the file, of fixed-offset ids, of unknown ids)
    ids_after = list(provider.ids)
    evs.append({"op": "provider", "ids": [_b(i) for i in ids_after], "ids_unchanged": ids == ids_after and list(source.get_ids()) is not None,
                "version_id": provider.version_id, "aliases_ok": aliases_ok, "validate_ok": validate_ok, "unknown_ok": unknown_ok, "fixed": fixed})
    return evs, raw


def _file_task(args):
    return file_events(*args)


def run(ctx: Ctx):
    from harness.core import parallel_map

    q = ctx.quick
    ctx.mc("MC_ZoneRules", MC_RULES.format(lo=2000 if q else 1900, hi=2006 if q else 2100), workers="auto", tag="rules", timeout=3000)
    tasks = [(str(REPO / f), 30 if q else 200, 12, 40 if q else 1, ctx.seed) for f in FILES]
    res = parallel_map(_file_task, tasks)
    import concurrent.futures as cf

    def validate_one(item):
        (evs, raw), t = item
        tag = t[0].split("/")[-1].split(".")[0]
        nzf = ctx.workdir / f"{tag}.bytes.json"
        nzf.write_text(json.dumps(list(raw)))
        tf = ctx.workdir / f"{tag}.trace.json"
        tf.write_text(json.dumps(evs, separators=(",", ":")))
        r = run_tlc("Trace_Nzd", TRACE_CFG, workdir=ctx.workdir, mode="trace", workers=1, heap="8g",
                    env={"TRACE_FILE": str(tf), "NZD_FILE": str(nzf)}, tag=tag, timeout=7000)
        return tag, evs, r

    with cf.ThreadPoolExecutor(max_workers=2) as ex:
        done = list(ex.map(validate_one, list(zip(res, tasks))))
    for tag, evs, r in done:
        ctx.tlc_runs.append(r)
        if not r.ok:
            ctx.machinery_errors.append(f"Trace_Nzd {tag}: {r.error}")
            continue
        if r.distinct != len(evs) + 1:
            ctx.machinery_errors.append(f"Trace_Nzd {tag}: consumed {r.distinct - 1} of {len(evs)} events")
        for pv in r.printed:
            if isinstance(pv, list) and len(pv) >= 3 and pv[0] == "REJECT":
                clause, idx = pv[1], pv[2]
                if clause.startswith("machinery_"):
                    ctx.machinery_errors.append(f"Trace_Nzd {tag} event {idx}: {clause}")
                    continue
                ev = evs[idx - 1]
                key = {"clause": clause, "op": ev["op"], "file": tag}
                if ev["op"] == "f_zone":
                    key["zone"] = bytes(ev["id"]).decode()
                small = {k: v for k, v in ev.items() if k not in ("ivs", "tail", "strings", "ids", "keys", "vals")}
                ctx.rejects.append(Reject(ctx.pid, clause, key, small))
        ctx.events += len(evs)
        ctx.traces += 1
        nz = sum(1 for e in evs if e["op"] == "f_zone")
        ctx.notes[f"{tag}_zones"] = nz
        ctx.notes[f"{tag}_precalculated_intervals"] = sum(len(e["ivs"]) for e in evs if e["op"] == "f_zone")
        ctx.notes[f"{tag}_tail_intervals"] = sum(len(e["tail"]) for e in evs if e["op"] == "f_zone")
        ctx.distinct_nontrivial += sum(len(e["ivs"]) + len(e["tail"]) for e in evs if e["op"] == "f_zone")
        z0 = next(e for e in evs if e["op"] == "f_zone" and e["tail"])
        ctx.sample({"file": tag, "id": bytes(z0["id"]).decode(), "first_intervals": z0["ivs"][:2], "first_tail": z0["tail"][:2]}, cap=3)
    ctx.exhaustive = not q
    ctx.rule = ("both real database files: every field in file order; every zone's precalculated periods through the API vs the bytes; "
                "tail intervals vs rule evaluation (" + ("first 30 + last 12 per zone, every 40th zone (phase by seed) to 9999" if q else "all to 9999")
                + "); provider ids/aliases/fixed ids/validation; non-trivial = an interval compared")
    ctx.assumptions += ["the driver enumerates fields with the package's own field iterator and learns where the tail starts from "
                        "_PrecalculatedDateTimeZone internals (only to decide how far to walk); every compared value comes from the public zone API"]


def replay(ctx, path):
    run(ctx)
