"""C16 - week-year rules and weekday navigation are self-consistent and match ISO 8601."""
from __future__ import annotations

import datetime as dt
import random

from harness.core import Ctx, parallel_map

TRACE_CFG = "SPECIFICATION Spec\nCHECK_DEADLOCK FALSE\n"
MC_CFG = "SPECIFICATION Spec\nINVARIANT StartIsDeclarative\nINVARIANT NavigationMinimal\n"


def all_rules(order_seed=None):
    """The 71 rules.  They are asked for in an order that depends on the worker (a rule is what its factory arguments say, whichever
    rules were made before it)."""
    from pyoda_time import IsoDayOfWeek
    from pyoda_time.calendars import CalendarWeekRule, WeekYearRules

    makers = [("iso", 4, 1, False, lambda: WeekYearRules.iso)]
    for md in range(1, 8):
        for fd in range(1, 8):
            makers.append((f"min{md}_dow{fd}", md, fd, False, lambda md=md, fd=fd: WeekYearRules.for_min_days_in_first_week(md, IsoDayOfWeek(fd))))
    for cwr, md in ((CalendarWeekRule.FIRST_DAY, 1), (CalendarWeekRule.FIRST_FOUR_DAY_WEEK, 4), (CalendarWeekRule.FIRST_FULL_WEEK, 7)):
        for fd in range(1, 8):
            makers.append((f"bcl{md}_dow{fd}", md, fd, True, lambda cwr=cwr, fd=fd: WeekYearRules.from_calendar_week_rule(cwr, IsoDayOfWeek(fd))))
    idx = list(range(len(makers)))
    if order_seed is not None:
        r = random.Random(order_seed)
        if order_seed % 3 == 1:
            idx = idx[50:] + idx[:50]            # the BCL-style rules first
        elif order_seed % 3 == 2:
            r.shuffle(idx)
    made = {i: makers[i][4]() for i in idx}
    return [(makers[i][0], makers[i][1], makers[i][2], makers[i][3], made[i]) for i in range(len(makers))]


def gen(args) -> list:
    seed, nwin, nnav = args
    from pyoda_time import CalendarSystem, DateAdjusters, IsoDayOfWeek, LocalDate

    rnd = random.Random(seed)
    rules = all_rules(seed)
    cals = [CalendarSystem.for_id(c) for c in CalendarSystem.ids]
    evs = []
    for _ in range(nwin):
        name, md, fd, irr, rule = rnd.choice(rules)
        cal = CalendarSystem.iso if rnd.random() < 0.4 else rnd.choice(cals)
        calc = cal._year_month_day_calculator
        cc = rnd.random()
        y = cal.min_year + rnd.randint(0, 2) if cc < 0.1 else cal.max_year - rnd.randint(0, 2) if cc < 0.2 else rnd.randint(cal.min_year, cal.max_year)
        def one_window(name=name, md=md, fd=fd, irr=irr, rule=rule, cal=cal, calc=calc, y=y, touch_next=False):
            if touch_next:
                LocalDate(y + 1, 1, 1, cal).day_of_week      # the year after, asked about first
            # a window of consecutive days around the start of calendar year y
            ys = calc._get_start_of_year_in_days(y)
            lo, hi = max(ys - 10, cal._min_days), min(ys + 10, cal._max_days)
            # ... plus a few days anywhere in that year (week numbers far from 1 and 52) and one more window of consecutive days mid-year
            mid = rnd.randint(ys, min(ys + 340, cal._max_days))
            days = list(range(lo, hi + 1)) + sorted(rnd.randint(ys, min(ys + 380, cal._max_days)) for _ in range(5)) + \
                list(range(mid, min(mid + 9, cal._max_days) + 1))
            if touch_next:
                # ... and the last days of that year (where a year whose months do not add up to its length shows)
                try:
                    ye = calc._get_start_of_year_in_days(y + 1)
                    days += list(range(max(ye - 12, cal._min_days), min(ye + 2, cal._max_days) + 1))
                except Exception:  # noqa: BLE001
                    pass
            dates = [LocalDate._ctor(days_since_epoch=n, calendar=cal) for n in days]
            if touch_next:
                # ... those last days also given by their fields (month lengths are what a year's cached data is about)
                try:
                    last_m = LocalDate._ctor(days_since_epoch=calc._get_start_of_year_in_days(y + 1) - 1, calendar=cal).month
                    for mm in {last_m, 3, 4}:
                        dim = cal.get_days_in_month(y, mm)
                        dates += [LocalDate(y, mm, dd, cal) for dd in range(max(1, dim - 6), dim + 1)]
                except Exception:  # noqa: BLE001
                    pass
            for d in dates:
                n = d._days_since_epoch
                ev = {"op": "wk", "key": f"{name}|{cal.id}|{y}", "cal": cal.id, "n": n, "y": d.year, "min_days": md, "first_dow": fd, "irregular": irr}
                try:
                    wy = rule.get_week_year(d)
                    w = rule.get_week_of_week_year(d)
                    ev.update(wy=wy, w=w, dow=int(d.day_of_week), weeks=rule.get_weeks_in_week_year(wy, cal))
                    back = rule.get_local_date(wy, w, d.day_of_week, cal)
                    ev["rt"] = back == d
                    if name == "iso" and cal.id == "ISO" and 1 <= d.year <= 9999:
                        iso = dt.date(d.year, d.month, d.day).isocalendar()
                        ev["iso_std"] = (iso[0], iso[1], iso[2]) == (wy, w, int(d.day_of_week)) and \
                            LocalDate.from_week_year_week_and_day(wy, w, d.day_of_week) == d
                except Exception as e:  # noqa: BLE001
                    ev.update(exc=type(e).__name__, wy=0, w=0, dow=0, weeks=0, rt=False)
                if "exc" not in ev:
                    # projection for the declarative definition (private year starts; one year past the range they may not exist:
                    # then the event carries no year starts and only the self-consistency clauses apply)
                    try:
                        ev["ys_wy"] = calc._get_start_of_year_in_days(ev["wy"])
                        ev["ys_next"] = calc._get_start_of_year_in_days(ev["wy"] + 1)
                    except Exception:  # noqa: BLE001
                        ev.pop("ys_wy", None)
                        ev.pop("ys_next", None)
                evs.append(ev)

        if cal.id.startswith("Hebrew") and cal.min_year + 2 < y < cal.max_year - 2 and rnd.random() < 0.5:
            # from empty caches, with the year after asked about first (a year's cached data may be derived from its neighbour's)
            from harness.props.c13 import cold as _cold

            _cold(calc, lambda: one_window(touch_next=True))
        else:
            one_window()
    # (week-year, week, weekday) -> date, including weeks that do not exist and dates outside the calendar
    for _ in range(nwin):
        name, md, fd, irr, rule = rnd.choice([r for r in rules if not r[3]])
        cal = CalendarSystem.iso if rnd.random() < 0.4 else rnd.choice(cals)
        calc = cal._year_month_day_calculator
        cc = rnd.random()
        wy = cal.min_year + rnd.randint(0, 1) if cc < 0.15 else cal.max_year - rnd.randint(0, 1) if cc < 0.3 else rnd.randint(cal.min_year, cal.max_year)
        if cal.id == "Badi" and wy <= cal.min_year + 1:
            continue   # year 0 of Badi cannot be asked for (known finding of the accessor side)
        w = rnd.choice([0, 1, 2, 26, 51, 52, 53, 54, rnd.randint(1, 53), -1])
        dow = rnd.randint(1, 7)
        ev = {"op": "wk_make", "cal": cal.id, "wy": wy, "w": w, "dow": dow, "min_days": md, "first_dow": fd,
              "min_day": cal._min_days, "max_day": cal._max_days, "min_year": cal.min_year, "max_year": cal.max_year}
        try:
            ev["ys_wy"] = calc._get_start_of_year_in_days(wy)
            ev["ys_next"] = calc._get_start_of_year_in_days(wy + 1)
        except Exception:  # noqa: BLE001
            continue
        route = rnd.randrange(3)
        try:
            if route == 2 and name == "iso" and cal.id == "ISO":
                r = LocalDate.from_week_year_week_and_day(wy, w, IsoDayOfWeek(dow))
            elif route == 1 and cal.id == "ISO":
                r = rule.get_local_date(wy, w, IsoDayOfWeek(dow))       # the calendar defaults to ISO
            else:
                r = rule.get_local_date(wy, w, IsoDayOfWeek(dow), cal)
            ev["res"], ev["res_cal"] = r._days_since_epoch, r.calendar.id
        except Exception as e:  # noqa: BLE001
            ev["exc"] = type(e).__name__
        evs.append(ev)
    near_epoch = list(range(-12, 13))      # day 0 is where weekday arithmetic changes sign: every day around it, in turn
    for inav in range(nnav):
        cal = rnd.choice(cals)
        cc = rnd.random()
        n = cal._max_days - rnd.randint(0, 7) if cc < 0.15 else cal._min_days + rnd.randint(0, 7) if cc < 0.3 else rnd.randint(cal._min_days, cal._max_days)
        if inav < 4 * len(near_epoch) and cal._min_days < -12:
            n = near_epoch[inav % len(near_epoch)]
        d = LocalDate._ctor(days_since_epoch=n, calendar=cal)
        dow = IsoDayOfWeek(rnd.randint(1, 7))
        ev = {"op": "nav", "n": n, "dow": int(dow), "min_day": cal._min_days, "max_day": cal._max_days}
        # the same navigation through LocalDate, the DateAdjusters and LocalDateTime (which must also keep its time of day)
        from pyoda_time import LocalTime

        tod = LocalTime.from_nanoseconds_since_midnight(rnd.choice([0, 86_399_999_999_999, rnd.randrange(86_400 * 10**9)]))
        route = rnd.randrange(3)

        def via_ldt(f, tod=tod, d=d):
            r = f(d.at(tod))
            if r.time_of_day != tod or r.calendar != d.calendar:
                raise AssertionError("time of day or calendar changed")
            return r.date

        nxt = [lambda: d.next(dow), lambda: DateAdjusters.next(dow)(d), lambda: via_ldt(lambda x: x.next(dow))][route]
        prv = [lambda: d.previous(dow), lambda: DateAdjusters.previous(dow)(d), lambda: via_ldt(lambda x: x.previous(dow))][route]
        nos = [lambda: DateAdjusters.next_or_same(dow)(d), lambda: d.with_date_adjuster(DateAdjusters.next_or_same(dow)),
               lambda: via_ldt(lambda x: x.with_date_adjuster(DateAdjusters.next_or_same(dow)))][route]
        pos = [lambda: DateAdjusters.previous_or_same(dow)(d), lambda: d.with_date_adjuster(DateAdjusters.previous_or_same(dow)),
               lambda: via_ldt(lambda x: x.with_date_adjuster(DateAdjusters.previous_or_same(dow)))][route]
        ev["route"] = route
        for name, fn in (("next", nxt), ("previous", prv), ("next_or_same", nos), ("previous_or_same", pos)):
            try:
                ev[name] = fn()._days_since_epoch
                ev[name + "_raised"] = False
            except Exception:  # noqa: BLE001
                ev[name] = 0
                ev[name + "_raised"] = True
        evs.append(ev)
        y, m, occ = rnd.choice([1, 9999, rnd.randint(1, 9999), rnd.randint(-9998, 9999)]), rnd.randint(1, 12), rnd.randint(1, 5)
        if rnd.random() < 0.15:
            # the last occurrence in a February of a year of 1 BCE or earlier (absolute years 0, -4, ... are leap; years of era 1, 5, ... are not)
            y, m, occ = -rnd.choice([0, 4, 8, 100, 400, 3, 7, rnd.randint(0, 9000)]), 2, rnd.choice([5, 5, 4])
            dow = LocalDate(y, 2, rnd.choice([1, 1, 29 if CalendarSystem.iso.is_leap_year(y) else 28]), CalendarSystem.iso).day_of_week
        ev = {"op": "nth", "y": y, "m": m, "occ": occ, "dow": int(dow)}
        try:
            ev["res"] = LocalDate.from_year_month_week_and_day(y, m, occ, dow)._days_since_epoch
        except Exception as e:  # noqa: BLE001
            ev["exc"] = type(e).__name__
        evs.append(ev)
    return evs


def run(ctx: Ctx):
    q = ctx.quick
    ctx.mc("MC_WeekYear", MC_CFG, workers="auto", tag="rules")
    nwin = 5000 if q else 150000
    nnav = 6000 if q else 200000
    parts = parallel_map(gen, [(ctx.seed * 71 + k, nwin // 16, nnav // 16) for k in range(16)])
    for e in parts[0][:60]:
        if e["op"] == "wk" and e["n"] % 7 == 0:
            ctx.sample(e, cap=3)
    ctx.sample(parts[0][-1])
    ctx.distinct_nontrivial = len({(e["key"], e["n"]) for p in parts for e in p if e["op"] == "wk"}) + sum(1 for p in parts for e in p if e["op"] != "wk")

    def key_of(ev, clause):
        k = {"clause": clause, "op": ev["op"]}
        if ev["op"] == "wk":
            k["cal"] = ev["cal"]
            k["irregular"] = ev["irregular"]
            if "exc" in ev:
                k["y"] = ev["y"]
        return k

    ctx.validate("Trace_WeekYear", TRACE_CFG, None, shards=parts, key_of=key_of, ntraces=nwin)
    ctx.rule = ("71 rules (ISO, 7x7 regular, 3x7 BCL-style) x all calendars x windows of 21 consecutive days around random and range-end year "
                "starts; weekday navigation on random dates of every calendar; n-th weekday of month over years -9998..9999; "
                "non-trivial = distinct (rule, calendar, day) observation")


def replay(ctx, path):
    run(ctx)
