"""C01 - every calendar maps day numbers to valid dates one-to-one and in order (self-consistency)."""
from harness.props import calprop


def run(ctx):
    calprop.run(ctx, "self")


def replay(ctx, path):
    run(ctx)
