"""C13 - results do not depend on call history or on concurrent use."""
from __future__ import annotations

import glob
import random
import threading

from harness import proj
from harness.core import Ctx, run_tlc
from harness.drivers.zonewalk import iv_event
from harness.sched import LineScheduler
from harness.tlaval import parse_behaviour

TRACE_CFG = "SPECIFICATION Spec\nCHECK_DEADLOCK FALSE\n"
YSC = """SPECIFICATION Spec
CONSTANTS
  Threads = {{{threads}}}
  Keys = {{{keys}}}
  IndexBits = 1
  ValidatorBits = 2
  NOps = {nops}
{view}
{invs}
CHECK_DEADLOCK FALSE
"""
LZM = "SPECIFICATION Spec\nCONSTANTS\n Threads = {{t1, t2}}\n Ids = {{1, 2}}\n WithLock = {lock}\nINVARIANT IdentityStable\nCHECK_DEADLOCK FALSE\n"
LZT = ("SPECIFICATION Spec\nCONSTANTS\n Threads = {{{threads}}}\n NTables = 4\n FlagLast = {last}\n{props}CHECK_DEADLOCK FALSE\n")
FZC = ("SPECIFICATION Spec\nCONSTANTS\n Threads = {{t1, t2}}\n Cultures = {{inv, fi, da}}\n GridOffsets = {{0, 1800, 3600}}\n OtherOffsets = {{2700}}\n"
       " IdUsesCulture = {uses}\n{props}CHECK_DEADLOCK FALSE\n")
LRA = ("SPECIFICATION Spec\nCONSTANTS\n Threads = {{t1, t2}}\n Keys = {{1, 2, 3}}\n Size = 2\n NOps = {nops}\n FastPath = {fast}\n{props}CHECK_DEADLOCK FALSE\n")
LRA_PROPS = "VIEW View\nINVARIANT BoundedSize\nINVARIANT ReturnsCachedValue\nINVARIANT QueueMatchesDict\n"


class _Hang(Exception):
    pass


def _watched(fn, seconds: int = 20):
    """fn() under an alarm (main thread only): a lookup that never comes back becomes an exception of the event, not a hung check."""
    import signal

    if threading.current_thread() is not threading.main_thread():
        return fn()

    def on_alarm(signum, frame):
        raise _Hang()

    old = signal.signal(signal.SIGALRM, on_alarm)
    signal.alarm(seconds)
    try:
        return fn()
    finally:
        signal.alarm(0)
        signal.signal(signal.SIGALRM, old)


def _forget_format_infos():
    """Empty the library's cache of format infos (its own testing hook), after it stopped answering."""
    try:
        from pyoda_time.globalization._pyoda_format_info import _PyodaFormatInfo

        getattr(_PyodaFormatInfo, "_PyodaFormatInfo__CACHE").clear()
    except Exception:  # noqa: BLE001
        pass


def cold(calc, fn):
    """Evaluate fn() with the calculator's year-start cache (and the shared Hebrew cache) emptied, then restore them."""
    from pyoda_time.calendars._hebrew_scriptural_calculator import _HebrewScripturalCalculator as H
    from pyoda_time.calendars._year_start_cache_entry import _YearStartCacheEntry

    name = "_YearMonthDayCalculator__year_cache"
    old = getattr(calc, name)
    hname = "_HebrewScripturalCalculator__YEAR_CACHE"
    hold = getattr(H, hname, None)
    try:
        object.__setattr__(calc, name, _YearStartCacheEntry._create_cache())
        if hold is not None:
            setattr(H, hname, _YearStartCacheEntry._create_cache())
        return fn()
    finally:
        object.__setattr__(calc, name, old)
        if hold is not None:
            setattr(H, hname, hold)


def sequential_events(rnd: random.Random, q: bool) -> list:
    from pyoda_time import CalendarSystem, DateTimeZoneProviders, Instant, LocalDate
    from pyoda_time._compatibility._culture_info import CultureInfo
    from pyoda_time.text import LocalDatePattern

    evs = []
    # 1. year-start caches: years that collide in a slot (1024 apart), in adversarial orders
    for cid in CalendarSystem.ids:
        cal = CalendarSystem.for_id(cid)
        calc = cal._year_month_day_calculator
        fresh = type(calc)() if cid not in ("Hebrew Civil", "Hebrew Scriptural") and not cid.startswith("Hijri") and cid not in ("Julian", "ISO", "Gregorian", "Coptic") else None
        span = cal.max_year - cal.min_year
        for _ in range(6 if q else 60):
            y0 = rnd.randint(cal.min_year, cal.max_year)
            group = [y for y in (y0 + 1024 * k for k in range(-9, 10)) if cal.min_year <= y <= cal.max_year]
            group += [y + d for y in group[:4] for d in (-1, 1) if cal.min_year <= y + d <= cal.max_year]
            seq = [rnd.choice(group) for _ in range(40 if q else 200)]
            for y in seq:
                m = rnd.randint(1, cal.get_months_in_year(y))
                d = rnd.randint(1, cal.get_days_in_month(y, m))
                res = LocalDate(y, m, d, cal)._days_since_epoch
                # the same question with cold caches (the history is put back afterwards)
                pure = cold(calc, lambda: LocalDate(y, m, d, cal)._days_since_epoch)
                evs.append({"op": "ys", "cal": cid, "y": y, "m": m, "d": d, "res": res, "pure": pure})
    # 1b. two-step histories from empty caches: ask about year a, then about every month end of year b, for a and b around
    #     multiples of the cache size (slot 0 next to slot 1023: the neighbours of a year live in the wrapped slot)
    for cid in CalendarSystem.ids:
        cal = CalendarSystem.for_id(cid)
        calc = cal._year_month_day_calculator

        def ask(y, cal=cal):
            return [LocalDate(y, m, cal.get_days_in_month(y, m), cal)._days_since_epoch for m in range(1, cal.get_months_in_year(y) + 1)]

        mults = [j * 1024 for j in range(-10, 11)]
        for _ in range(40 if q else 600):
            ja = rnd.choice(mults)
            a = ja + rnd.choice([-2, -1, 0, 1, 2])
            b = ja + rnd.choice([-1024, 0, 1024]) + rnd.choice([-2, -1, 0, 1, 2])
            if not (cal.min_year <= a <= cal.max_year and cal.min_year <= b <= cal.max_year):
                continue
            res = cold(calc, lambda: (ask(a), ask(b))[1])
            pure = cold(calc, lambda: ask(b))
            for m, (r, p) in enumerate(zip(res, pure), 1):
                evs.append({"op": "ys", "cal": cid, "y": b, "m": m, "d": cal.get_days_in_month(b, m), "res": r, "pure": p, "after": a})
        # ... for a year next to the one asked first (a cache entry may be derived from its neighbour's: b = a - 1 when a is there
        # already, b = a + 1), and for the year of the opposite sign with the same cache slot and block number (-548 and 1500)
        for _ in range(30 if q else 400):
            a = rnd.randint(cal.min_year + 1, cal.max_year - 1)
            choices = [a - 1, a + 1, a - 1]
            if cal.min_year < 0:
                a = rnd.choice([a, rnd.randint(1024, min(cal.max_year, 4000))])
                choices += [a - 2048 * (a >> 10)] * 2 if a > 0 else [a - 2048 * (a >> 10)]
            # ... and years a power of two apart (2^7 .. 2^14: a validity tag made of too few or the wrong bits of the year)
            choices += [a + sgn * 2 ** j for j in range(7, 15) for sgn in (1, -1) if cal.min_year <= a + sgn * 2 ** j <= cal.max_year][:6]
            rnd.shuffle(choices)
            b = rnd.choice(choices)
            if not (cal.min_year <= a <= cal.max_year and cal.min_year <= b <= cal.max_year):
                continue
            try:
                res = cold(calc, lambda: (ask(a), ask(b))[1])
                pure = cold(calc, lambda: ask(b))
            except Exception:  # noqa: BLE001 - a year the calendar cannot be asked about this way: nothing to compare
                continue
            for m, (r, p) in enumerate(zip(res, pure), 1):
                evs.append({"op": "ys", "cal": cid, "y": b, "m": m, "d": cal.get_days_in_month(b, m), "res": r, "pure": p, "after": a})
    # 2. zone interval caches: instants 512 * 32 days apart on either side of transitions
    tz = DateTimeZoneProviders.tzdb
    for zid in rnd.sample(list(tz.ids), 6 if q else 60):
        z = tz[zid]
        inner = getattr(z, "_CachedDateTimeZone__time_zone", None)
        if inner is None:
            continue
        base = rnd.randint(-20000, 20000)
        pts = [base + k * 512 * 32 + d for k in range(-3, 4) for d in (0, 1, 31, 32, rnd.randint(0, 40))]
        seq = [rnd.choice(pts) for _ in range(80 if q else 400)]
        for day in seq:
            if not (-4371222 <= day <= 2932896):
                continue
            t = Instant._ctor(days=day, nano_of_day=rnd.choice([0, 1, proj.NPD - 1, rnd.randrange(proj.NPD)]))
            a, b = z.get_zone_interval(t), inner.get_zone_interval(t)
            ea, eb = iv_event(a), iv_event(b)
            evs.append({"op": "zc", "zone": zid, "cached": [ea[k] for k in ("start", "end", "wall", "std", "sav")] + [ea["name"]],
                        "direct": [eb[k] for k in ("start", "end", "wall", "std", "sav")] + [eb["name"]]})
    # 2b. ... and around every transition of a zone from 1900 to 2040, in scrambled order: at the transition, just before and after it,
    #     later the same UTC day and at that day's last nanosecond (a cache period boundary may fall anywhere relative to a transition)
    for zid in rnd.sample(list(tz.ids), 8 if q else 80):
        z = tz[zid]
        inner = getattr(z, "_CachedDateTimeZone__time_zone", None)
        if inner is None:
            continue
        pts = []
        try:
            t = Instant.from_utc(1900, 1, 1, 0, 0)
            stop = Instant.from_utc(2040, 1, 1, 0, 0)
            while t < stop and len(pts) < 2000:
                ivl = inner.get_zone_interval(t)
                if not ivl.has_end:
                    break
                t = ivl.end
                day, nod = t._days_since_epoch, t._nanosecond_of_day
                pts += [(day, nod), (day, nod + 1) if nod + 1 < proj.NPD else (day + 1, 0), (day, nod - 1) if nod > 0 else (day - 1, proj.NPD - 1),
                        (day, rnd.randrange(nod, proj.NPD)), (day, proj.NPD - 1)]
        except Exception:  # noqa: BLE001 - walking the underlying zone is C04's business
            pass
        rnd.shuffle(pts)
        for day, nod in pts[: (600 if q else 3000)]:
            try:
                t = Instant._ctor(days=day, nano_of_day=nod)
                a, b = z.get_zone_interval(t), inner.get_zone_interval(t)
                ea, eb = iv_event(a), iv_event(b)
                evs.append({"op": "zc", "zone": zid, "cached": [ea[k] for k in ("start", "end", "wall", "std", "sav")] + [ea["name"]],
                            "direct": [eb[k] for k in ("start", "end", "wall", "std", "sav")] + [eb["name"]], "near_transition": True})
            except Exception as e:  # noqa: BLE001
                evs.append({"op": "zc", "zone": zid, "cached": [type(e).__name__], "direct": [], "near_transition": True})
    # 3. identity: provider lookups in permuted orders, calendar singletons, fixed zones
    ids = list(tz.ids)
    first = {i: tz[i] for i in rnd.sample(ids, 40)}
    for i in rnd.sample(list(first), 40):
        evs.append({"op": "ident", "what": "tzdb[" + i + "]", "same": tz[i] is first[i] and tz.get_zone_or_none(i) is first[i]})
    for cid in CalendarSystem.ids:
        evs.append({"op": "ident", "what": "calendar " + cid, "same": CalendarSystem.for_id(cid) is CalendarSystem.for_id(cid)})
    # an alias and its canonical id, asked in either order on fresh providers: each lookup answers a zone with the id asked for,
    # the same object every time
    try:
        import io as _io

        from harness.core import REPO as _REPO
        from pyoda_time.time_zones import DateTimeZoneCache as _DZC0
        from pyoda_time.time_zones._tzdb_date_time_zone_source import TzdbDateTimeZoneSource as _Src0

        raw0 = (_REPO / "pyoda_time/time_zones/Tzdb.nzd").read_bytes()
        src0 = _Src0.from_stream(_io.BytesIO(raw0))
        pairs = [(a, c) for a, c in src0.canonical_id_map.items() if a != c]
        for order in (0, 1):
            prov0 = _DZC0(_Src0.from_stream(_io.BytesIO(raw0)))
            for a, c in rnd.sample(pairs, min(len(pairs), 25 if q else 200)):
                seq = [c, a, c, a] if order == 0 else [a, c, a, c]
                seen0: dict = {}
                ok = True
                for zid in seq:
                    z0 = prov0[zid]
                    ok = ok and z0.id == zid and seen0.setdefault(zid, z0) is z0
                evs.append({"op": "ident", "what": f"alias {a} and {c}, {'canonical' if order == 0 else 'alias'} first", "same": ok})
    except Exception as e:  # noqa: BLE001
        evs.append({"op": "ident", "what": "alias order: " + type(e).__name__, "same": False})
    # 3b. calendar systems are one object per id whatever route and order they are asked for in: for_id, the class properties,
    #     the parameterised factories, a date's own calendar and the ordinal table, in shuffled histories
    from pyoda_time.calendars import HebrewMonthNumbering, IslamicEpoch, IslamicLeapYearPattern

    props = {"Badi": "badi", "Coptic": "coptic", "Gregorian": "gregorian", "Hebrew Civil": "hebrew_civil", "Hebrew Scriptural": "hebrew_scriptural",
             "ISO": "iso", "Julian": "julian", "Persian Simple": "persian_simple", "Persian Arithmetic": "persian_arithmetic",
             "Persian Algorithmic": "persian_astronomical", "Um Al Qura": "um_al_qura", "Hijri Astronomical-Base16": "islamic_bcl"}
    routes = []
    for cid in CalendarSystem.ids:
        routes.append((cid, "for_id", lambda cid=cid: CalendarSystem.for_id(cid)))
        routes.append((cid, "date", lambda cid=cid: (lambda c: LocalDate(c.min_year + 1, 1, 1, c).calendar)(CalendarSystem.for_id(cid))))
        routes.append((cid, "converted", lambda cid=cid: LocalDate(2000, 1, 1).with_calendar(CalendarSystem.for_id(cid)).plus_days(1).calendar))
        if cid in props and hasattr(CalendarSystem, props[cid]):
            routes.append((cid, "property", lambda cid=cid: getattr(CalendarSystem, props[cid])))
    for num, cid in ((HebrewMonthNumbering.CIVIL, "Hebrew Civil"), (HebrewMonthNumbering.SCRIPTURAL, "Hebrew Scriptural")):
        routes.append((cid, "factory", lambda num=num: CalendarSystem.get_hebrew_calendar(num)))
    for ep in IslamicEpoch:
        for pat in IslamicLeapYearPattern:
            # the public id of the variant, spelled out here (no private helper): "Hijri <Epoch>-<Pattern>"
            pname = {"BASE15": "Base15", "BASE16": "Base16", "INDIAN": "Indian", "HABASH_AL_HASIB": "HabashAlHasib"}[pat.name]
            cid = f"Hijri {ep.name.capitalize()}-{pname}"
            if cid in CalendarSystem.ids:
                routes.append((cid, "factory", lambda pat=pat, ep=ep: CalendarSystem.get_islamic_calendar(pat, ep)))
    seen: dict = {}
    for _ in range(3):
        rnd.shuffle(routes)
        for cid, how, fn in routes:
            ev = {"op": "ident", "what": f"calendar {cid} via {how}"}
            try:
                c = fn()
                first = seen.setdefault(cid, c)
                ev["same"] = (c is first) and (c == first) and c.id == cid and hash(c) == hash(first)
            except Exception as e:  # noqa: BLE001
                ev["same"], ev["exc"] = False, type(e).__name__
            evs.append(ev)
    # 4. pattern / format-info cache: more cultures than the cache holds, then the first ones again
    cultures = []
    try:
        import icu

        for loc in sorted(icu.Locale.getAvailableLocales()):
            try:
                cultures.append(CultureInfo(loc.replace("_", "-")))
            except Exception:  # noqa: BLE001
                pass
    except Exception:  # noqa: BLE001
        pass
    probe = LocalDate(2024, 2, 29)
    # the format-info cache holds read-only cultures only (a mutable culture is never cached): every culture is formatted through
    # a read-only wrapper (the shared, history-dependent path) and through its mutable original (the pure path)
    shared = []
    for c in cultures:
        try:
            pure = LocalDatePattern.create("D", c).format(probe)
        except Exception:  # noqa: BLE001 - this culture's long date pattern is not usable at all: no question to ask
            continue
        ro = CultureInfo.read_only(c)
        shared.append((c, ro, pure))
        if len(shared) > (540 if q else 790):
            break
        ev = {"op": "fmt", "culture": c.name, "pure": [ord(ch) for ch in pure], "text": [], "n": len(shared)}
        try:
            ev["text"] = [ord(ch) for ch in _watched(lambda ro=ro: LocalDatePattern.create("D", ro).format(probe))]
        except _Hang:
            ev["exc"] = "HANG"
            evs.append(ev)
            _forget_format_infos()          # (the verdict is recorded; the rest of the run goes on with an emptied cache)
            break
        except Exception as e:  # noqa: BLE001
            ev["exc"] = type(e).__name__
        evs.append(ev)
    for c, ro, pure in shared[:40] + rnd.sample(shared, min(40, len(shared))):
        ev = {"op": "fmt", "culture": c.name, "pure": [ord(ch) for ch in pure], "text": [], "again": True}
        try:
            ev["text"] = [ord(ch) for ch in _watched(lambda ro=ro: LocalDatePattern.create("D", ro).format(probe))]
        except _Hang:
            ev["exc"] = "HANG"
            evs.append(ev)
            _forget_format_infos()
            break
        except Exception as e:  # noqa: BLE001
            ev["exc"] = type(e).__name__
        evs.append(ev)
    # 4b. one shared format info serves the patterns of every type (it keeps one lazily made parser per type): whatever order the types
    #     are first asked in for a cached culture, each answers what a history-free format info (a mutable culture's) answers
    from pyoda_time import AnnualDate as _AD, Duration as _Du, Instant as _In, LocalTime as _LT, Offset as _Of
    from pyoda_time.text import AnnualDatePattern as _ADP, DurationPattern as _DuP, InstantPattern as _InP, LocalDateTimePattern as _LDTP
    from pyoda_time.text import LocalTimePattern as _LTP, OffsetPattern as _OfP

    typed = [("LocalDate", LocalDatePattern, "dd MMMM yyyy", probe), ("LocalDateTime", _LDTP, "yyyy-MM-dd HH:mm tt", probe.at(_LT(13, 5, 7))),
             ("LocalTime", _LTP, "hh:mm:ss tt", _LT(13, 5, 7)), ("AnnualDate", _ADP, "dd MMMM", _AD(2, 29)),
             ("Offset", _OfP, "+HH:mm", _Of.from_hours_and_minutes(5, 30)), ("Instant", _InP, "yyyy-MM-dd HH:mm:ss", _In.from_utc(2024, 2, 29, 13, 5)),
             ("Duration", _DuP, "-D:hh:mm:ss", _Du.from_seconds(100000)),
             ("LocalDate std", LocalDatePattern, "D", probe), ("LocalDateTime std", _LDTP, "F", probe.at(_LT(13, 5, 7))), ("LocalTime std", _LTP, "T", _LT(13, 5, 7)),
             # pattern texts that differ only in blanks, case or quoting are different patterns to the per-format-info pattern cache
             ("LocalTime a", _LTP, "HH:mm", _LT(13, 5, 7)), ("LocalTime b", _LTP, "HH:mm ", _LT(13, 5, 7)), ("LocalTime c", _LTP, " HH:mm", _LT(13, 5, 7)),
             ("LocalTime d", _LTP, "hh:mm", _LT(13, 5, 7)), ("LocalTime e", _LTP, "HH':'mm", _LT(13, 5, 7)),
             ("LocalDate a", LocalDatePattern, "yyyy-MM-dd", probe), ("LocalDate b", LocalDatePattern, "yyyy-MM-dd ", probe), ("LocalDate c", LocalDatePattern, "yyyy-MM-DD".lower(), probe),
             ("LocalDate era", LocalDatePattern, "yyyy gg", probe), ("LocalDate era BCE", LocalDatePattern, "yyyy g", LocalDate(-44, 3, 15))]
    getter = getattr(CultureInfo, "get_culture_info", None)
    for cname in rnd.sample(["en-GB", "fr-FR", "de-AT", "ru-RU", "ja-JP", "pt-BR", "it-CH", "nl-BE", "sv-SE", "el-GR", "tr-TR", "hi-IN", "ko-KR", "es-MX"], 6 if q else 14):
        try:
            mutable = CultureInfo(cname)
            shared_c = [CultureInfo.read_only(CultureInfo(cname))] + ([getter(cname)] if callable(getter) else [])
        except Exception:  # noqa: BLE001
            continue
        for sc in shared_c:
            order = typed[:]
            rnd.shuffle(order)
            for tname, cls, ptxt, val in order + order[:3]:
                try:
                    pure = cls.create(ptxt, mutable).format(val)
                except Exception:  # noqa: BLE001 - not a pattern this culture can make at all: nothing to ask
                    continue
                ev = {"op": "fmt", "culture": f"{cname} {tname}", "pure": [ord(ch) for ch in pure], "text": [], "types_in_any_order": True}
                try:
                    ev["text"] = [ord(ch) for ch in cls.create(ptxt, sc).format(val)]
                except Exception as e:  # noqa: BLE001
                    ev["exc"] = type(e).__name__
                evs.append(ev)
    # 5. parsing with shared (cached / singleton) pattern objects: what a text parses to must not depend on what the same pattern
    #    object parsed before (optional fields present in one text and absent in the next are where state would leak)
    from pyoda_time import Duration, Instant, LocalTime, Offset
    from pyoda_time.text import DurationPattern, InstantPattern, LocalDateTimePattern, LocalTimePattern, OffsetPattern

    def rtime():
        n = rnd.randrange(86400) * 10**9
        return LocalTime.from_nanoseconds_since_midnight(n + rnd.choice([0, 0, 123456789, 500000000, 1, 120000000]))

    shared_patterns = [
        ("LocalTime.extended_iso", lambda: LocalTimePattern.extended_iso, rtime),
        ("LocalTime.create(HH:mm:ss.FFF)", lambda: LocalTimePattern.create_with_invariant_culture("HH:mm:ss.FFF"),
         lambda: LocalTime.from_nanoseconds_since_midnight(rnd.randrange(86400) * 10**9 + rnd.choice([0, 0, 123, 500, 120]) * 10**6)),
        ("LocalTime.variable_precision_iso", lambda: LocalTimePattern.variable_precision_iso, rtime),
        ("LocalDateTime.extended_iso", lambda: LocalDateTimePattern.extended_iso, lambda: LocalDate(rnd.randint(1, 9999), rnd.randint(1, 12), rnd.randint(1, 28)).at(rtime())),
        ("Instant.extended_iso", lambda: InstantPattern.extended_iso,
         lambda: Instant._ctor(days=rnd.randint(-700000, 2900000), nano_of_day=rtime().nanosecond_of_day)),
        ("Offset.general_invariant", lambda: OffsetPattern.general_invariant, lambda: Offset.from_seconds(rnd.choice([0, 3600, -3600, 19800, 1, -1, 3601, rnd.randint(-64800, 64800)]))),
        ("Duration.roundtrip", lambda: DurationPattern.roundtrip, lambda: Duration.from_nanoseconds(rnd.choice([1, -1, 10**9, 86400 * 10**9, 0, rnd.randint(-10**15, 10**15)]))),
        ("LocalDate.create(d, fr-FR)", lambda: LocalDatePattern.create("d", CultureInfo.read_only(CultureInfo("fr-FR"))),
         lambda: LocalDate(rnd.randint(1900, 2100), rnd.randint(1, 12), rnd.randint(1, 28))),
    ]
    for name, get, mk in shared_patterns:
        for _ in range(12 if q else 120):
            v = mk()
            try:
                text = get().format(v)
                r = get().parse(text)           # fetched again: the same cached object
                ok = bool(r.success) and r.value == v
            except Exception:  # noqa: BLE001
                ok = False
            evs.append({"op": "fmt", "culture": name, "text": [1] if ok else [0], "pure": [1], "parse_history": True})
    # 6. two read-only cultures with one name and different data are two cultures to every cache, in either order of first use
    for first in (0, 1):
        try:
            custom = CultureInfo("en-US").clone()
            custom.date_time_format.short_date_pattern = "yyyy~MM~dd"
            pair = [CultureInfo.read_only(custom), CultureInfo.read_only(CultureInfo("en-US"))]
            want = [LocalDatePattern.create("d", custom).format(probe), LocalDatePattern.create("d", CultureInfo("en-US")).format(probe)]
            order = [first, 1 - first, first]
            for i in order:
                got = LocalDatePattern.create("d", pair[i]).format(probe)
                evs.append({"op": "fmt", "culture": "en-US customised" if i == 0 else "en-US stock", "text": [ord(ch) for ch in got],
                            "pure": [ord(ch) for ch in want[i]], "same_name_cultures": True})
        except Exception as e:  # noqa: BLE001
            evs.append({"op": "fmt", "culture": "en-US pair", "text": [], "pure": [0], "exc": type(e).__name__})
    # 6b. process-wide culture data: the same (culture, pattern, date) triples formatted here in one order and in a fresh interpreter
    #     in the reverse order give the same texts (era names, month and day names, expanded standard patterns are all cached lazily)
    import json as _json
    import os as _os
    import subprocess as _sp
    import sys as _sys

    names_all = ["en-US", "ru-RU", "de-DE", "fr-FR", "ja-JP", "ar-EG", "th-TH", "he-IL", "es-CO", "pl-PL", "", "fa-IR"]
    triples = [[cn, pt, yy, mm, dd] for cn in rnd.sample(names_all, 8) for pt in ("yyyy g", "d MMMM yyyy gg", "D", "ddd d MMM")
               for (yy, mm, dd) in ((1987, 3, 5), (-44, 3, 15))]
    rnd.shuffle(triples)
    here = []
    for cn, pt, yy, mm, dd in triples:
        try:
            cu = CultureInfo.read_only(CultureInfo(cn)) if cn else CultureInfo.invariant_culture
            here.append([ord(ch) for ch in LocalDatePattern.create(pt, cu).format(LocalDate(yy, mm, dd))])
        except Exception as e:  # noqa: BLE001
            here.append("exc:" + type(e).__name__)
    try:
        proc = _sp.run([_sys.executable, "-m", "harness.drivers.fresh_format"], input=_json.dumps(list(reversed(triples))), capture_output=True, text=True,
                       timeout=300, env=dict(_os.environ))
        there = list(reversed(_json.loads(proc.stdout)))
    except Exception:  # noqa: BLE001 - no second interpreter: nothing to compare with
        there = None
    if there is not None and len(there) == len(here):
        for (cn, pt, yy, mm, dd), a, b in zip(triples, here, there):
            if isinstance(a, str) or isinstance(b, str):
                evs.append({"op": "fmt", "culture": cn + " " + pt, "text": [0] if a != b else [1], "pure": [1], "fresh_process": True})
            else:
                evs.append({"op": "fmt", "culture": cn + " " + pt, "text": a, "pure": b, "fresh_process": True})
    # 8. the fixed-zone cache behind DateTimeZone.for_offset: it is filled by whoever asks first, under that thread's current culture
    #    (thread-local); the id answered for an offset must not depend on who that was (FixedZoneCache.tla)
    try:
        import threading as _th

        from pyoda_time import DateTimeZone, Offset

        def in_thread(cname, fn):
            box = {}

            def body():
                try:
                    if cname is not None:
                        CultureInfo.current_culture = CultureInfo(cname) if cname else CultureInfo.invariant_culture
                    box["v"] = fn()
                except Exception as e:  # noqa: BLE001
                    box["exc"] = type(e).__name__

            t = _th.Thread(target=body)
            t.start()
            t.join()
            return box

        def zone_id(secs):
            return DateTimeZone.for_offset(Offset.from_seconds(secs)).id

        attr = "_DateTimeZone__fixed_zone_cache"
        saved = getattr(DateTimeZone, attr, None)
        try:
            offs = [19800, 20700, -12600, 3600, -20700, 45 * 60, 0, 5 * 3600 + 7]
            for first in ["fi-FI", "", "en-US", "da-DK", "fr-CH", "ar-SA"]:
                for asker in ["", "fi-FI", None]:
                    o1, o2 = rnd.choice(offs), rnd.choice(offs)
                    setattr(DateTimeZone, attr, None)
                    in_thread(first, lambda o1=o1: zone_id(o1))                  # the first caller fills the cache
                    got = in_thread(asker, lambda o2=o2: zone_id(o2))
                    setattr(DateTimeZone, attr, None)
                    pure = in_thread(asker, lambda o2=o2: zone_id(o2))           # the same question, nothing asked before
                    ev = {"op": "fz", "offset": o2, "first_culture": first, "asker": "default" if asker is None else asker,
                          "id": [ord(c) for c in got.get("v", "")], "pure": [ord(c) for c in pure.get("v", "")]}
                    if "exc" in got or "exc" in pure:
                        ev["exc"] = got.get("exc") or pure.get("exc")
                    # ... and the id leads back to an equal zone through the built-in provider (ids are how zones are stored and sent)
                    try:
                        back = DateTimeZoneProviders.tzdb.get_zone_or_none(got.get("v", ""))
                        ev["resolves"] = back is not None and back.get_utc_offset(Instant.from_unix_time_seconds(0)).seconds == o2
                    except Exception as e:  # noqa: BLE001
                        ev["resolves"] = False
                    evs.append(ev)
        finally:
            setattr(DateTimeZone, attr, saved)
    except Exception as e:  # noqa: BLE001
        evs.append({"op": "fz", "offset": 0, "first_culture": "?", "asker": "?", "id": [], "pure": [], "exc": type(e).__name__, "resolves": False})
    # 8b. the same in fresh interpreters: whoever touches the process-wide lazily built patterns and zones first - under whatever
    #     current culture - the questions asked afterwards (under the default culture again) have the same answers
    try:
        answers = {}
        for first in ["", "fi-FI", "da-DK", "ar-SA", "calls"]:
            req = {"first_culture": "", "first_calls": ["hebrew_int", "bcl_rules", "islamic_int"]} if first == "calls" else {"first_culture": first}
            proc = _sp.run([_sys.executable, "-m", "harness.drivers.fresh_probe"], input=_json.dumps(req), capture_output=True,
                           text=True, timeout=300, env=dict(_os.environ))
            answers[first] = _json.loads(proc.stdout) if proc.returncode == 0 and proc.stdout.strip() else None
        base = answers.get("")
        for first, got in answers.items():
            if first == "" or base is None:
                continue
            if got is None:
                evs.append({"op": "fmt", "culture": "fresh process after " + first, "text": [0], "pure": [1], "exc": "no answer", "fresh_process": True})
                continue
            for k, (a, b) in enumerate(zip(got, base)):
                evs.append({"op": "fmt", "culture": f"question {k} after a first caller under {first}", "text": [ord(ch) for ch in _json.dumps(a)],
                            "pure": [ord(ch) for ch in _json.dumps(b)], "fresh_process": True})
    except Exception:  # noqa: BLE001 - no second interpreter: nothing to compare with
        pass
    # 7. a provider over a source that answers an alias with the canonical zone (the source contract allows it): the zone
    #    object served for an id is still the same one on every lookup, in any order of ids
    class AliasSource:
        version_id = "alias-test"

        def __init__(self, inner):
            self.inner = inner

        def get_ids(self):
            return ["Old/Name", "New/Name"]

        def for_id(self, id_):
            return self.inner.for_id("Europe/London")       # whichever id is asked for, the zone says "Europe/London"

        def get_system_default_id(self):
            return None

    try:
        from pyoda_time.time_zones import DateTimeZoneCache as _DZC
        from pyoda_time.time_zones._tzdb_date_time_zone_source import TzdbDateTimeZoneSource as _Src

        prov = _DZC(AliasSource(_Src.default))
        seen2 = {}
        for zid in ["New/Name", "Old/Name", "New/Name", "Old/Name", "Old/Name", "New/Name"]:
            z2 = prov[zid]
            first2 = seen2.setdefault(zid, z2)
            evs.append({"op": "ident", "what": "custom source " + zid, "same": z2 is first2 and prov.get_zone_or_none(zid) is first2})
    except Exception as e:  # noqa: BLE001 - this provider refuses such a source: then there is nothing to ask
        evs.append({"op": "ident", "what": "custom source refused: " + type(e).__name__, "same": True})
    return evs


def _behaviours(ctx: Ctx, module: str, cfg: str, num: int, depth: int, seed: int, tag: str) -> list:
    simdir = ctx.workdir / f"sim_{tag}"
    simdir.mkdir(parents=True, exist_ok=True)
    r = run_tlc(module, cfg, workdir=ctx.workdir, mode="simulate", workers=1, simulate=f"file={simdir}/tr,num={num}", depth=depth,
                seed=seed, tag=tag, timeout=600)
    r.ok = r.ok or "Error:" not in r.out
    ctx.tlc_runs.append(r)
    out = []
    for f in sorted(glob.glob(f"{simdir}/tr_*")):
        st = parse_behaviour(open(f).read())
        if st:
            out.append(st[-1]["vars"])
    return out


def thread_year_start_events(ctx: Ctx, rnd: random.Random, nbeh: int, cal_ids: list, seed: int, tag: str, threads: str = "t1, t2") -> list:
    """Per-query "ys" events (Trace_Caches) from TLC-simulated two-thread schedules enforced on a fresh calculator of each of
    the given calendars: what LocalDate(y, 1, 1) -> day number answers while another thread fills colliding cache slots.
    Used by C01/C02 as well: a calendar must map dates to days the same way whatever other threads are asking."""
    from pyoda_time import CalendarSystem

    cfg = YSC.format(threads=threads, keys="0, 1, 2, 3, 4, 5, 6, 7", nops=2, view="", invs="")
    behs = _behaviours(ctx, "MC_YearStartCache", cfg, nbeh, 40 if threads == "t1, t2" else 60, seed, tag)
    files_cal = ("pyoda_time/calendars/_year_month_day_calculator.py",)
    out = []
    for b in behs:
        prog, sched = b["prog"], b["sched"]
        names = sorted(prog)
        cal = CalendarSystem.for_id(rnd.choice(cal_ids))
        base = rnd.randint(max(cal.min_year + 5, 1), min(1000, cal.max_year - 7 * 512 - 5))
        ymap = {k: base + (k % 2) + 1024 * (k // 2) for k in range(8)}
        if max(ymap.values()) > cal.max_year:
            continue
        calc = cal._year_month_day_calculator       # the calendar's own calculator, with its caches emptied for the run
        results = []
        lock = threading.Lock()

        def body(tn, calc=calc, prog=prog, ymap=ymap, results=results, lock=lock):
            def fn(s):
                for k in prog[tn]:
                    y = ymap[k]
                    v = calc._get_start_of_year_in_days(y)
                    with lock:
                        results.append((y, v))
            return fn

        def scheduled(names=names, sched=sched, body=body):
            sch = LineScheduler(files_cal, stall_s=0.02)
            sch.run([body(tn) for tn in names], [names.index(t) for t in sched if t in names])

        cold(calc, scheduled)
        for y, v in results:
            out.append({"op": "ys", "cal": cal.id, "y": y, "m": 1, "d": 1, "res": v, "pure": cold(calc, lambda y=y: calc._get_start_of_year_in_days(y)),
                        "threads": True, "year_start": True})
    return out


def threaded_events(ctx: Ctx, rnd: random.Random, q: bool) -> list:
    from pyoda_time import CalendarSystem, LocalDate
    from pyoda_time.time_zones import DateTimeZoneCache
    from pyoda_time.time_zones._tzdb_date_time_zone_source import TzdbDateTimeZoneSource

    evs = []
    # three threads on one calculator (TLC-simulated schedules of the same model with three threads), every arithmetic calendar in turn
    evs += thread_year_start_events(ctx, rnd, 20 if q else 300, [c for c in CalendarSystem.ids if c not in ("Badi", "Um Al Qura")], ctx.seed + 41,
                                    "ysc3", threads="t1, t2, t3")
    # schedules from the year-start-cache model (two threads, two lookups each, all line-level interleavings sampled by TLC)
    cfg = YSC.format(threads="t1, t2", keys="0, 1, 2, 3, 4, 5, 6, 7", nops=2, view="", invs="")
    behs = _behaviours(ctx, "MC_YearStartCache", cfg, 60 if q else 600, 40, ctx.seed + 3, "ysc")
    cal = CalendarSystem.for_id("Coptic")
    files_cal = ("pyoda_time/calendars/_year_month_day_calculator.py",)
    for b in behs:
        prog, sched = b["prog"], b["sched"]
        names = sorted(prog)
        base = rnd.randint(cal.min_year + 5, 1000)
        # model key k -> a real year: keys congruent mod 2 share a model slot; real years 1024 apart share a real slot
        ymap = {k: base + (k % 2) + 1024 * (k // 2) for k in range(8)}
        calc = type(cal._year_month_day_calculator)()          # a fresh calculator shared by the two threads
        results = []
        lock = threading.Lock()

        def body(tn, calc=calc, prog=prog, ymap=ymap, results=results, lock=lock):
            def fn(s):
                for k in prog[tn]:
                    y = ymap[k]
                    v = calc._get_start_of_year_in_days(y)
                    with lock:
                        results.append((y, v))
            return fn

        sch = LineScheduler(files_cal, stall_s=0.02)
        hung = sch.run([body(tn) for tn in names], [names.index(t) for t in sched if t in names])
        pure = all(v == cold(calc, lambda y=y: calc._get_start_of_year_in_days(y)) for y, v in results)
        evs.append({"op": "thr", "what": "year_start_cache", "all_pure": pure, "identity_stable": True, "hung": bool(hung), "n": len(results)})
    # the same protocol (a slot is valid for exactly the key stored in it) guards two more shared caches; the same TLC
    # schedules are enforced on them: the zone-interval cache (period = 32 days, 512 slots) of a freshly wrapped zone ...
    from pyoda_time import DateTimeZoneProviders, Instant
    from pyoda_time.time_zones._cached_date_time_zone import _CachedDateTimeZone

    files_zc = ("pyoda_time/time_zones/_caching_zone_interval_map.py", "pyoda_time/time_zones/_standard_daylight_alternating_map.py",
                "pyoda_time/time_zones/_zone_recurrence.py")
    zids = ["Europe/London", "America/Sao_Paulo", "Australia/Lord_Howe", "Asia/Tehran", "Africa/Casablanca"]
    for b in behs[: (20 if q else 300)]:
        prog, sched = b["prog"], b["sched"]
        names = sorted(prog)
        shared = DateTimeZoneProviders.tzdb[rnd.choice(zids)]
        inner = getattr(shared, "_CachedDateTimeZone__time_zone", None)
        if inner is None:
            continue
        fresh = _CachedDateTimeZone._for_zone(inner)
        base_day = rnd.randint(-10000, 12000)
        imap = {k: Instant._ctor(days=base_day + 32 * (k % 2) + 512 * 32 * (k // 2) - 512 * 32 * 2, nano_of_day=rnd.randrange(86400) * 10**9) for k in range(8)}
        if rnd.random() < 0.5:
            # far enough in the future for the zone's recurring rules to answer, the two threads' instants half a year apart (different
            # seasons of the same rules)
            base_day = rnd.randint(60000, 200000)
            imap = {k: Instant._ctor(days=base_day + 182 * (k % 2) + 512 * 32 * (k // 2), nano_of_day=rnd.randrange(86400) * 10**9) for k in range(8)}
        results = []
        lock = threading.Lock()

        def zbody(tn, fresh=fresh, prog=prog, imap=imap, results=results, lock=lock):
            def fn(s):
                for k in prog[tn]:
                    t = imap[k]
                    v = fresh.get_zone_interval(t)
                    with lock:
                        results.append((t, v))
            return fn

        sch = LineScheduler(files_zc, stall_s=0.02)
        hung = sch.run([zbody(tn) for tn in names], [names.index(t) for t in sched if t in names] + [rnd.randrange(len(names)) for _ in range(300)])
        pure = all(v == inner.get_zone_interval(t) and t in v for t, v in results)
        evs.append({"op": "thr", "what": "zone_interval_cache", "all_pure": pure, "identity_stable": True, "hung": bool(hung), "n": len(results)})
    # ... and the class-wide year cache of the Hebrew calculator (1024 slots, shared by both Hebrew calendars)
    files_heb = ("pyoda_time/calendars/_hebrew_scriptural_calculator.py",)
    heb = [CalendarSystem.for_id("Hebrew Civil"), CalendarSystem.for_id("Hebrew Scriptural")]
    for b in behs[: (20 if q else 300)]:
        prog, sched = b["prog"], b["sched"]
        names = sorted(prog)
        base = rnd.randint(5, 1000)
        ymap = {k: base + (k % 2) + 1024 * (k // 2) for k in range(8)}
        results = []
        lock = threading.Lock()
        # both calendars' calculators consult the shared class cache: empty it (and the per-calculator caches) first
        state = {}

        def hbody(tn, prog=prog, ymap=ymap, results=results, lock=lock):
            def fn(s):
                for k in prog[tn]:
                    y = ymap[k]
                    cal_h = heb[k % 2]
                    v = (cal_h.get_days_in_year(y), cal_h.get_days_in_month(y, 2), cal_h.get_days_in_month(y, 3), cal_h.get_days_in_month(y, 8), cal_h.get_days_in_month(y, 9))
                    with lock:
                        results.append((k % 2, y, v))
            return fn

        def run_shared():
            sch = LineScheduler(files_heb, stall_s=0.02)
            state["hung"] = sch.run([hbody(tn) for tn in names], [names.index(t) for t in sched if t in names])

        cold(heb[0]._year_month_day_calculator, lambda: cold(heb[1]._year_month_day_calculator, run_shared))
        pure = all(v == cold(heb[i]._year_month_day_calculator,
                             lambda i=i, y=y: (heb[i].get_days_in_year(y), heb[i].get_days_in_month(y, 2), heb[i].get_days_in_month(y, 3),
                                               heb[i].get_days_in_month(y, 8), heb[i].get_days_in_month(y, 9)))
                   for i, y, v in results)
        evs.append({"op": "thr", "what": "hebrew_year_cache", "all_pure": pure, "identity_stable": True, "hung": bool(state.get("hung")), "n": len(results)})
    # schedules from the lazy-tables model (the adversarial, flag-first variant, so that the orders that would expose a reader
    # running ahead of the initialiser are among them), enforced on a fresh format info shared by the threads
    from pyoda_time._compatibility._culture_info import CultureInfo as _CI
    from pyoda_time.globalization._pyoda_format_info import _PyodaFormatInfo

    files_fi = ("pyoda_time/globalization/_pyoda_format_info.py",)
    lbehs = _behaviours(ctx, "MC_LazyTables", LZT.format(threads="t1, t2", last="FALSE", props=""), 40 if q else 400, 30, ctx.seed + 7, "lzt")
    for b in lbehs:
        sched = [str(x) for x in b.get("sched", [])]
        names = sorted(set(sched)) or ["t1", "t2"]
        cu = _CI(rnd.choice(["fr-FR", "ru-RU", "pl-PL", "es-CO", "en-US"]))
        want_fi = _PyodaFormatInfo(cu)
        want = (list(want_fi.long_month_names), list(want_fi.short_month_names), list(want_fi.long_month_genitive_names),
                list(want_fi.short_month_genitive_names), list(want_fi.long_day_names), list(want_fi.short_day_names))
        fi = _PyodaFormatInfo(cu)
        out = []
        lock = threading.Lock()

        def fbody(tn, fi=fi, out=out, lock=lock):
            def fn(s):
                which = rnd.sample(range(6), 3)
                try:
                    got = {}
                    for w in which:
                        got[w] = list([fi.long_month_names, fi.short_month_names, fi.long_month_genitive_names, fi.short_month_genitive_names,
                                       fi.long_day_names, fi.short_day_names][w]) if False else list(
                            getattr(fi, ["long_month_names", "short_month_names", "long_month_genitive_names", "short_month_genitive_names",
                                         "long_day_names", "short_day_names"][w]))
                    with lock:
                        out.append(("ok", got))
                except Exception as ex:  # noqa: BLE001
                    with lock:
                        out.append(("exc", type(ex).__name__))
            return fn

        sch = LineScheduler(files_fi, stall_s=0.02)
        order = [names.index(t) for t in sched if t in names] + [rnd.randrange(len(names)) for _ in range(30)]
        hung = sch.run([fbody(tn) for tn in names], order)
        pure = all(o[0] == "ok" and all(v == want[w] for w, v in o[1].items()) for o in out)
        evs.append({"op": "thr", "what": "format_info_name_tables", "all_pure": pure, "identity_stable": True, "hung": bool(hung), "n": len(out)})
    # schedules from the cache model (its unlocked-test variant has the richer interleavings), enforced on a real _Cache of the
    # model's size with the model's keys; afterwards the cache is used on: enough new keys to turn it over and every earlier
    # key again.  Every lookup must return the value of its key (values are a function of the key), without raising.
    from pyoda_time.utility._cache import _Cache

    cbehs = _behaviours(ctx, "MC_LraCache", LRA.format(nops=3, fast="TRUE", props=""), 60 if q else 600, 40, ctx.seed + 9, "lra")
    files_cache = ("pyoda_time/utility/_cache.py",)
    for b in cbehs:
        sched = [str(x) for x in b.get("sched", [])]
        prog = b.get("prog", {})
        names = sorted(set(sched)) or ["t1", "t2"]
        for stretch in (1, 3):
            cache = _Cache(2, lambda key: ("value of", key))
            out = []
            lock = threading.Lock()

            def cbody(tn, cache=cache, out=out, lock=lock, prog=prog):
                def fn(s):
                    for key in [int(x) for x in (prog.get(tn, []) if isinstance(prog, dict) else [])]:
                        try:
                            v = cache.get_or_add(key)
                            ok = v == ("value of", key)
                        except Exception as ex:  # noqa: BLE001
                            ok = False
                            v = type(ex).__name__
                        with lock:
                            out.append((key, ok, v))
                return fn

            sch = LineScheduler(files_cache, stall_s=0.02)
            order = [names.index(t) for t in sched if t in names for _ in range(stretch)] + [rnd.randrange(len(names)) for _ in range(60)]
            hung = sch.run([cbody(tn) for tn in names], order)
            # (the tail runs in its own thread under a watchdog: a cache that stops answering must not stop the check)
            box = {"ok": False}

            def tail(cache=cache, box=box):
                ok = True
                try:
                    for key in [101, 102, 103, 1, 2, 3, 104, 105, 1, 2, 3]:
                        ok = ok and cache.get_or_add(key) == ("value of", key)
                    ok = ok and cache.count() <= 2
                except Exception:  # noqa: BLE001
                    ok = False
                box["ok"] = ok

            tt = threading.Thread(target=tail, daemon=True)
            tt.start()
            tt.join(5.0)
            if tt.is_alive():
                hung = True
            tail_ok = box["ok"]
            evs.append({"op": "thr", "what": "least_recently_added_cache", "all_pure": all(o[1] for o in out) and tail_ok, "identity_stable": True,
                        "hung": bool(hung), "n": len(out)})
            if hung:
                break           # (threads that never come back keep running: one such verdict is enough, no more are started)
        if evs and evs[-1].get("what") == "least_recently_added_cache" and evs[-1]["hung"]:
            break
    # schedules from the lazy-zone-map model, on a fresh provider over the real data
    raw = open("/dev/null", "rb")
    raw.close()
    import io

    from harness.core import REPO

    data = (REPO / "pyoda_time/time_zones/Tzdb.nzd").read_bytes()
    source = TzdbDateTimeZoneSource.from_stream(io.BytesIO(data))
    behs = _behaviours(ctx, "MC_LazyZoneMap", LZM.format(lock="FALSE").replace("INVARIANT IdentityStable\n", ""), 40 if q else 400, 30, ctx.seed + 5, "lzm")
    ids = ["Europe/London", "America/New_York", "Asia/Tokyo", "Australia/Sydney"]
    files_zone = ("pyoda_time/time_zones/_date_time_zone_cache.py",)
    for b in behs:
        # the model's schedule is a sequence of pcs; rebuild a thread order from which thread's pc changed
        provider = DateTimeZoneCache(source)
        zid = rnd.choice(ids)
        got = []
        lock = threading.Lock()

        def body(_i, provider=provider, zid=zid, got=got, lock=lock):
            def fn(s):
                z = provider[zid]
                with lock:
                    got.append(z)
            return fn

        order = [rnd.randrange(2) for _ in range(40)]
        sch = LineScheduler(files_zone, stall_s=0.02)
        hung = sch.run([body(0), body(1)], order)
        later = provider[zid]
        evs.append({"op": "thr", "what": "provider_map", "all_pure": all(z.id == zid for z in got), "hung": bool(hung),
                    "identity_stable": all(z is later for z in got), "n": len(got)})
    # free-running histories: 16 threads hammering the same shared objects with colliding keys (no schedule is enforced: the
    # verdict is only ever "an answer differed from the pure function / two lookups gave different objects", which no
    # scheduling accident can fake)
    import sys as _sys

    from pyoda_time._compatibility._culture_info import CultureInfo
    from pyoda_time.text import LocalDatePattern

    old_si = _sys.getswitchinterval()
    _sys.setswitchinterval(1e-6)
    try:
        for rep in range(2 if q else 12):
            cal2 = CalendarSystem.for_id(rnd.choice(["Julian", "Coptic", "Persian Simple", "Hijri Civil-Indian", "Hebrew Civil", "Hebrew Scriptural"]))
            calc2 = cal2._year_month_day_calculator
            shared_zone = DateTimeZoneProviders.tzdb[rnd.choice(zids)]
            inner2 = getattr(shared_zone, "_CachedDateTimeZone__time_zone", None)
            fresh2 = _CachedDateTimeZone._for_zone(inner2)
            provider2 = DateTimeZoneCache(source)
            ro = [CultureInfo.read_only(CultureInfo(n)) for n in ("fr-FR", "de-DE", "ja-JP", "ar-EG")]
            probe = LocalDate(2024, 2, 29)
            bad, idents, hung_any = [], {}, False
            lk = threading.Lock()
            ybase = rnd.randint(max(cal2.min_year + 3, 5), 1000)
            dbase = rnd.randint(-10000, 12000)

            def worker(seed2, cal2=cal2, calc2=calc2, fresh2=fresh2, inner2=inner2, provider2=provider2, ro=ro, bad=bad, idents=idents, lk=lk):
                r2 = random.Random(seed2)
                for _ in range(150 if q else 600):
                    c2 = r2.random()
                    try:
                        if c2 < 0.35:
                            y = ybase + r2.choice([0, 1]) + 1024 * r2.randrange(0, min(8, (cal2.max_year - ybase - 2) // 1024 + 1))
                            got = (cal2.get_days_in_year(y), LocalDate(y, 1, 1, cal2)._days_since_epoch)
                            want = None
                            with lk:
                                idents.setdefault(("y", y), got)
                                want = idents[("y", y)]
                            if got != want:
                                bad.append(("year", y, got, want))
                        elif c2 < 0.7:
                            t = Instant._ctor(days=dbase + 32 * r2.choice([0, 1]) + 512 * 32 * r2.randrange(-3, 4), nano_of_day=r2.randrange(86400) * 10**9)
                            iv = fresh2.get_zone_interval(t)
                            if t not in iv or iv != inner2.get_zone_interval(t):
                                bad.append(("zone", str(t)))
                        elif c2 < 0.85:
                            zid2 = r2.choice(ids)
                            z2 = provider2[zid2]
                            with lk:
                                first = idents.setdefault(("z", zid2), z2)
                            if z2 is not first or z2.id != zid2:
                                bad.append(("provider", zid2))
                        else:
                            cu = r2.choice(ro)
                            txt = LocalDatePattern.create("D", cu).format(probe)
                            with lk:
                                first = idents.setdefault(("f", cu.name), txt)
                            if txt != first:
                                bad.append(("format", cu.name))
                    except Exception as ex:  # noqa: BLE001
                        import traceback as _tb

                        fr = _tb.extract_tb(ex.__traceback__)[-1]
                        bad.append(("exc", type(ex).__name__, str(ex)[:120], f"{fr.filename.split('/')[-1]}:{fr.lineno}"))

            ths = [threading.Thread(target=worker, args=(rnd.randrange(10**9),), daemon=True) for _ in range(16)]
            for t_ in ths:
                t_.start()
            for t_ in ths:
                t_.join(60)
                hung_any = hung_any or t_.is_alive()
            # the shared year answers must also be the cold ones
            for (kind, key), got in list(idents.items()):
                if kind == "y":
                    want = cold(calc2, lambda key=key: (cal2.get_days_in_year(key), LocalDate(key, 1, 1, cal2)._days_since_epoch))
                    if got != want:
                        bad.append(("year_vs_cold", key))
            evs.append({"op": "thr", "what": "free_running_16_threads", "all_pure": not [b for b in bad if b[0] != "provider"],
                        "identity_stable": not [b for b in bad if b[0] == "provider"], "hung": hung_any, "n": 16, "bad": [str(b) for b in bad[:5]]})
    finally:
        _sys.setswitchinterval(old_si)
    return evs


def run(ctx: Ctx):
    q = ctx.quick
    rnd = random.Random(ctx.seed + 13)
    invs = "INVARIANT HistoryIndependent\nINVARIANT SlotsSound"
    ctx.mc("MC_YearStartCache", YSC.format(threads="t1, t2", keys="0, 1, 2, 3, 4, 5, 6, 7", nops=2, view="VIEW View", invs=invs),
           workers="auto", tag="ysc_2x2", timeout=1800)
    if not q:
        ctx.mc("MC_YearStartCache", YSC.format(threads="t1, t2, t3", keys="0, 1, 2, 4, 5, 7", nops=1, view="VIEW View", invs=invs),
               workers="auto", tag="ysc_3x1", timeout=3000)
    ctx.mc_expect_violation("MC_YearStartCache", YSC.format(threads="t1", keys="0, 8", nops=2, view="VIEW View", invs=invs),
                            "Invariant HistoryIndependent is violated", workers=4, tag="ysc_neg_span")
    ctx.mc("MC_LazyZoneMap", LZM.format(lock="TRUE"), workers=4, tag="lzm_locked")
    ctx.mc_expect_violation("MC_LazyZoneMap", LZM.format(lock="FALSE"), "Invariant IdentityStable is violated", workers=4, tag="lzm_unlocked")
    ctx.mc("MC_LraCache", LRA.format(nops=2 if q else 3, fast="FALSE", props=LRA_PROPS), workers="auto", tag="lra")
    # ... and why the cached test has to be made under the lock
    ctx.mc_expect_violation("MC_LraCache", LRA.format(nops=2, fast="TRUE", props="VIEW View\nINVARIANT ReturnsCachedValue\n"),
                            "Invariant ReturnsCachedValue is violated", workers=4, tag="lra_unlocked_test_keyerror")
    ctx.mc_expect_violation("MC_LraCache", LRA.format(nops=2, fast="TRUE", props="VIEW View\nINVARIANT QueueMatchesDict\n"),
                            "Invariant QueueMatchesDict is violated", workers=4, tag="lra_unlocked_test_double_queue")
    # the fixed-zone cache: answers are history-free exactly when a zone's id is not made from the builder's current culture
    ctx.mc("MC_FixedZoneCache", FZC.format(uses="FALSE", props="INVARIANT AnswerIndependentOfHistory\nINVARIANT IdIsAFunctionOfTheOffset\n"), workers=4, tag="fixed_zone_ids_invariant")
    ctx.mc_expect_violation("MC_FixedZoneCache", FZC.format(uses="TRUE", props="INVARIANT AnswerIndependentOfHistory\n"),
                            "Invariant AnswerIndependentOfHistory is violated", workers=4, tag="fixed_zone_ids_from_current_culture")
    lzt_props = "INVARIANT ReadersSeeAllTables\nINVARIANT AssignedOnce\nPROPERTY AllDone\n"
    ctx.mc("MC_LazyTables", LZT.format(threads="t1, t2, t3", last="TRUE", props="VIEW View\nINVARIANT ReadersSeeAllTables\nINVARIANT AssignedOnce\n"),
           workers=4, tag="lazy_tables_3")
    ctx.mc("MC_LazyTables", LZT.format(threads="t1, t2", last="TRUE", props=lzt_props), workers=4, tag="lazy_tables_live")
    ctx.mc_expect_violation("MC_LazyTables", LZT.format(threads="t1, t2", last="FALSE", props="VIEW View\nINVARIANT ReadersSeeAllTables\n"),
                            "Invariant ReadersSeeAllTables is violated", workers=4, tag="lazy_tables_flag_first")
    evs = sequential_events(rnd, q)
    tev = threaded_events(ctx, rnd, q)
    allev = evs + tev
    ctx.notes["sequential_queries"] = len(evs)
    ctx.notes["thread_histories"] = len(tev)
    ctx.distinct_nontrivial = len(evs) + len(tev)
    for e in (evs[:2] + tev[:2]):
        ctx.sample(e)

    def key_of(ev, clause):
        k = {"clause": clause, "op": ev["op"]}
        for f in ("cal", "what", "zone"):
            if f in ev:
                k[f] = ev[f]
        return k

    shards = [allev[i:i + 20000] for i in range(0, len(allev), 20000)]
    ctx.validate("Trace_Caches", TRACE_CFG, None, shards=shards, key_of=key_of, ntraces=len(tev) + 1)
    ctx.rule = ("adversarial query orders: years 1024 apart (same year-start cache slot) in every calendar, instants 512*32 days apart around "
                "transitions through caching zones vs their underlying zones, provider lookups in permuted orders, calendar singletons, more "
                "cultures than the format-info cache holds then the first again; TLC-simulated two-thread schedules enforced line by line "
                "on a shared fresh calculator and on a fresh provider; non-trivial = every query / history")
    ctx.assumptions += ["thread schedules are enforced at Python line granularity inside _year_month_day_calculator.py and _date_time_zone_cache.py",
                        "cache-free evaluations use the calculators' own _calculate_start_of_year_days (cross-checked by C01/C02)"]


def replay(ctx, path):
    run(ctx)
