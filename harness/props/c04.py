"""C04 - each time zone partitions the whole timeline into maximal offset intervals."""
from __future__ import annotations

import random

from harness.core import Ctx, parallel_map
from harness.drivers import zonewalk

TRACE_CFG = "SPECIFICATION Spec\nCHECK_DEADLOCK FALSE\n"
MC_CFG = """SPECIFICATION Spec
CONSTANTS
  T = {T}
  MaxTr = {maxtr}
INVARIANT WalkSound
INVARIANT LookupAgrees
PROPERTY WalkCoversEverything
CHECK_DEADLOCK FALSE
"""


def zone_ids():
    from pyoda_time import DateTimeZoneProviders

    return list(DateTimeZoneProviders.tzdb.ids)


def run(ctx: Ctx):
    q = ctx.quick
    rnd = random.Random(ctx.seed + 4)
    ctx.mc("MC_ZoneTimeline", MC_CFG.format(T=5 if q else 6, maxtr=2 if q else 3), workers="auto", tag="walk", timeout=3000)
    ids = zone_ids()
    full = set(rnd.sample(ids, 12 if q else len(ids)))
    fixed = [f"fixed:{s}" for s in ([0, 3600, -3600, 64800, -64800, 19800, 1, -1] + list(range(-64800, 64801, 1800))
                                      + [rnd.randint(-64800, 64800) for _ in range(40 if q else 2000)])]
    tasks = [(z, "full" if z in full else "windows", ctx.seed) for z in ids] + [(z, "full", ctx.seed) for z in fixed]
    rnd.shuffle(tasks)
    res = parallel_map(zonewalk.walk_zone, tasks)
    niv = sum(1 for r in res for e in r if e["op"] == "iv")
    ctx.notes["zones"] = len(ids)
    ctx.notes["zones_walked_to_the_end_of_time"] = len(full)
    ctx.notes["fixed_zones"] = len(fixed)
    ctx.notes["intervals"] = niv
    ctx.distinct_nontrivial = niv
    ctx.exhaustive = not q
    for e in res[0][:4]:
        ctx.sample(e)
    # shard: group zones so that each shard has ~40k events
    shards, curr = [], []
    for r in res:
        if len(curr) + len(r) > 40000 and curr:
            shards.append(curr)
            curr = []
        curr.extend(r)
    if curr:
        shards.append(curr)

    def key_of(ev, clause):
        return {"clause": clause, "op": ev["op"]}

    rej = ctx.validate("Trace_Zone", TRACE_CFG, None, shards=shards, key_of=key_of, ntraces=len(tasks), heap="4g")
    # name the zone of each reject (the last zone event before it in its shard)
    for r in rej:
        if r.shard is not None and r.event is not None:
            sh = shards[r.shard]
            i = sh.index(r.event)
            while i >= 0 and sh[i]["op"] != "zone":
                i -= 1
            if i >= 0:
                r.key["zone"] = sh[i]["id"]
    ctx.rule = ("every tzdb id walked interval by interval from the start of time "
                + ("(12 zones by seed to the end of time; the rest to 2100 plus the last ten years to the end of time)" if q else "to the end of time")
                + " + fixed-offset zones; 3-5 probes inside each interval; non-trivial = a zone interval")


def replay(ctx, path):
    run(ctx)
