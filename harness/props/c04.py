"""C04 - each time zone partitions the whole timeline into maximal offset intervals."""
from __future__ import annotations

import random

from harness.core import Ctx, parallel_map
from harness.drivers import zonewalk

TRACE_CFG = "SPECIFICATION Spec\nCHECK_DEADLOCK FALSE\n"
MC_CFG = """SPECIFICATION Spec
CONSTANTS
  T = {T}
  MaxTr = {maxtr}
INVARIANT WalkSound
INVARIANT LookupAgrees
PROPERTY WalkCoversEverything
CHECK_DEADLOCK FALSE
"""


def zone_ids():
    from pyoda_time import DateTimeZoneProviders

    return list(DateTimeZoneProviders.tzdb.ids)


def run(ctx: Ctx):
    q = ctx.quick
    rnd = random.Random(ctx.seed + 4)
    ctx.mc("MC_ZoneTimeline", MC_CFG.format(T=5 if q else 6, maxtr=2 if q else 3), workers="auto", tag="walk", timeout=3000)
    ids = zone_ids()
    full = set(rnd.sample(ids, 12 if q else len(ids)))
    fixed = [f"fixed:{s}" for s in ([0, 3600, -3600, 64800, -64800, 19800, 1, -1] + list(range(-64800, 64801, 1800))
                                      + [rnd.randint(-64800, 64800) for _ in range(40 if q else 2000)])]
    tasks = [(z, "full" if z in full else "windows", ctx.seed) for z in ids] + [(z, "full", ctx.seed) for z in fixed]
    rnd.shuffle(tasks)
    res = parallel_map(zonewalk.walk_zone, tasks)
    niv = sum(1 for r in res for e in r if e["op"] == "iv")
    ctx.notes["zones"] = len(ids)
    ctx.notes["zones_walked_to_the_end_of_time"] = len(full)
    ctx.notes["fixed_zones"] = len(fixed)
    ctx.notes["intervals"] = niv
    ctx.distinct_nontrivial = niv
    ctx.exhaustive = not q
    for e in res[0][:4]:
        ctx.sample(e)
    # shard: group zones so that each shard has ~40k events
    shards, curr = [], []
    for r in res:
        if len(curr) + len(r) > 40000 and curr:
            shards.append(curr)
            curr = []
        curr.extend(r)
    if curr:
        shards.append(curr)

    def key_of(ev, clause):
        return {"clause": clause, "op": ev["op"]}

    # the tail of a zone is computed from yearly rules with the calendar's (shared, cached) year arithmetic: two threads asking
    # one zone about years that share a year-cache slot, under TLC-simulated schedules (YearStartCache.tla) enforced line by
    # line in the calculator; every answer must be the interval the zone gives when asked alone
    import threading

    from harness.props import c13
    from harness.sched import LineScheduler
    from pyoda_time import CalendarSystem, DateTimeZoneProviders, Instant
    from pyoda_time.time_zones._cached_date_time_zone import _CachedDateTimeZone

    cfg = c13.YSC.format(threads="t1, t2", keys="0, 1, 2, 3, 4, 5, 6, 7", nops=2, view="", invs="")
    behs = c13._behaviours(ctx, "MC_YearStartCache", cfg, 24 if q else 240, 40, ctx.seed + 41, "ysc_zone")
    tz = DateTimeZoneProviders.tzdb
    tail_ids = ["Europe/London", "America/New_York", "Australia/Sydney", "Pacific/Auckland", "America/Havana", "Asia/Jerusalem", "Europe/Chisinau"]
    calc = CalendarSystem.iso._year_month_day_calculator
    tev = [{"op": "zone", "id": "(threads)", "min_off": -64800, "max_off": 64800}]
    for b in behs:
        prog, sched = b["prog"], b["sched"]
        names = sorted(prog)
        inner = getattr(tz[rnd.choice(tail_ids)], "_CachedDateTimeZone__time_zone", None)
        if inner is None:
            continue
        fresh = _CachedDateTimeZone._for_zone(inner)
        base = rnd.randint(2150, 2600)
        imap = {k: Instant.from_utc(base + (k % 2) + 1024 * (k // 2), rnd.randint(1, 12), rnd.randint(1, 28), rnd.randint(0, 23), 0) for k in range(8)}
        results = []
        lock = threading.Lock()

        def body(tn, fresh=fresh, prog=prog, imap=imap, results=results, lock=lock):
            def fn(s):
                for k in prog[tn]:
                    t = imap[k]
                    try:
                        v = fresh.get_zone_interval(t)
                    except Exception as ex:  # noqa: BLE001
                        v = ex
                    with lock:
                        results.append((t, v))
            return fn

        def scheduled(names=names, sched=sched, body=body):
            # (line by line also inside the zone's own code: the interval cache, the recurring-rule map and its recurrences)
            sch = LineScheduler(("pyoda_time/calendars/_year_month_day_calculator.py", "pyoda_time/time_zones/_standard_daylight_alternating_map.py",
                                 "pyoda_time/time_zones/_caching_zone_interval_map.py", "pyoda_time/time_zones/_zone_recurrence.py"), stall_s=0.02)
            sch.run([body(tn) for tn in names], [names.index(t) for t in sched if t in names] + [rnd.randrange(len(names)) for _ in range(400)])

        c13.cold(calc, scheduled)
        for t, v in results:
            if isinstance(v, Exception):
                tev.append({"op": "iv_exc", "at": zonewalk.t3i(t), "exc": type(v).__name__})
                continue
            want = c13.cold(calc, lambda t=t: _CachedDateTimeZone._for_zone(inner).get_zone_interval(t))
            tev.append({"op": "requery", "at": zonewalk.t3i(t), "start": zonewalk.t3i(v._raw_start), "end": zonewalk.t3i(v._raw_end),
                        "wall": v.wall_offset.seconds, "same_as_walk": v == want, "offset_agrees": v.wall_offset == want.wall_offset, "threads": True})
    shards.append(tev)

    rej = ctx.validate("Trace_Zone", TRACE_CFG, None, shards=shards, key_of=key_of, ntraces=len(tasks), heap="4g")
    # name the zone of each reject (the last zone event before it in its shard)
    for r in rej:
        if r.shard is not None and r.event is not None:
            sh = shards[r.shard]
            i = sh.index(r.event)
            while i >= 0 and sh[i]["op"] != "zone":
                i -= 1
            if i >= 0:
                r.key["zone"] = sh[i]["id"]
    ctx.rule = ("every tzdb id walked interval by interval from the start of time "
                + ("(12 zones by seed to the end of time; the rest to 2100 plus the last ten years to the end of time)" if q else "to the end of time")
                + " + fixed-offset zones; 3-5 probes inside each interval; non-trivial = a zone interval")


def replay(ctx, path):
    run(ctx)
