"""C12 - value types are immutable values with consistent equality, hashing and ordering."""
from __future__ import annotations

import inspect
import random

from harness import proj
from harness.core import Ctx, parallel_map

TRACE_CFG = "SPECIFICATION Spec\nCHECK_DEADLOCK FALSE\n"
MC_CFG = "SPECIFICATION Spec\nINVARIANT TotalOrder\n"
NPD = proj.NPD
RAISED = 9


class Gen:
    """Per-type generators: params -> value, and value -> (key, order key, comparability group)."""

    def __init__(self, rnd):
        from pyoda_time import CalendarSystem

        self.rnd = rnd
        self.cals = [CalendarSystem.for_id(c) for c in CalendarSystem.ids]
        self.calord = {c.id: int(c._ordinal) for c in self.cals}
        self.fields: dict = {}          # (calendar index, day number) -> (year, month, day) where the driver chose the day by its fields

    # ---- parameter pools (small, so that equal and adjacent values are frequent) -----------------
    def ns_small(self):
        r = self.rnd
        return r.choice([0, 1, -1, 100, -100, NPD, -NPD, -2 * NPD, 3 * NPD, NPD - 1, -NPD + 1, r.randint(-3, 3) * NPD + r.randint(-2, 2),
                         r.randint(-40, 40) * 3600 * 10**9, r.randint(-10**15, 10**15)])

    def cal(self):
        r = self.rnd
        return r.choice(self.cals) if r.random() < 0.7 else self.cals[0]

    def day_in(self, cal):
        r = self.rnd
        base = r.choice([0, 19000, -25000, 30000])
        d = base + r.randint(-40, 40)
        return min(max(d, cal._min_days + 1), cal._max_days - 1)

    def nod(self):
        r = self.rnd
        return r.choice([0, 1, NPD - 1, 43200 * 10**9, r.randrange(NPD)])

    def off(self):
        return self.rnd.choice([0, 3600, -3600, 1, 64800, -64800])

    # ---- types ---------------------------------------------------------------------------------------
    def make(self, typ, p):
        from pyoda_time import (AnnualDate, CalendarSystem, DateInterval, DateTimeZone, DateTimeZoneProviders, Duration, Instant, Interval, LocalDate,
                                LocalTime, Offset, Period, YearMonth)
        from pyoda_time.time_zones import ZoneInterval

        if typ == "Duration":
            # the same length of time through one of several equivalent public routes: equal values must be equal, hash equally
            # and order the same whichever route built them
            ns = p[0]
            routes = [lambda: Duration._ctor(days=ns // NPD, nano_of_day=ns % NPD), lambda: Duration.from_nanoseconds(ns),
                      lambda: -Duration.from_nanoseconds(-ns), lambda: Duration.from_nanoseconds(ns) * 1,
                      lambda: (Duration.from_nanoseconds(ns) * 2) / 2, lambda: Duration.zero + Duration.from_nanoseconds(ns),
                      lambda: Duration.from_nanoseconds(2 * ns) - Duration.from_nanoseconds(ns)]
            if ns % 100 == 0:
                routes.append(lambda: Duration.from_ticks(ns // 100))
            if ns % 10**9 == 0:
                routes += [lambda: Duration.from_seconds(ns // 10**9), lambda: Period.from_seconds(ns // 10**9).to_duration()]
            if ns % NPD == 0:
                routes += [lambda: Duration.from_days(ns // NPD), lambda: Duration.from_days(float(ns // NPD)), lambda: Duration.from_hours(24 * (ns // NPD)),
                           lambda: Period.from_days(ns // NPD).to_duration(), lambda: Duration.from_days(-(ns // NPD)) * -1]
            return self.rnd.choice(routes)()
        if typ == "Instant":
            ns = p[0]
            routes = [lambda: Instant._ctor(days=ns // NPD, nano_of_day=ns % NPD), lambda: Instant.from_unix_time_ticks(0).plus_nanoseconds(ns),
                      lambda: Instant.from_unix_time_ticks(0) + Duration.from_nanoseconds(ns), lambda: Instant.from_unix_time_ticks(0) - Duration.from_nanoseconds(-ns)]
            if ns % 100 == 0:
                routes.append(lambda: Instant.from_unix_time_ticks(ns // 100))
            if ns % 10**9 == 0:
                routes.append(lambda: Instant.from_unix_time_seconds(ns // 10**9))
            return self.rnd.choice(routes)()
        if typ == "Offset":
            sec = p[0]
            routes = [lambda: Offset.from_seconds(sec), lambda: Offset.from_milliseconds(sec * 1000), lambda: -Offset.from_seconds(-sec),
                      lambda: Offset.zero + Offset.from_seconds(sec), lambda: Offset.from_ticks(sec * 10**7), lambda: Offset.from_nanoseconds(sec * 10**9)]
            return self.rnd.choice(routes)()
        if typ == "LocalDate":
            cal = self.cals[p[0]]
            f = self.fields.get((p[0], p[1]))
            # the same day by different public routes: from the day number, from its fields (when the driver knows them), by
            # arithmetic from the day before, through the ISO calendar
            routes = [lambda: LocalDate._ctor(days_since_epoch=p[1], calendar=cal)] * 2
            if f is not None:
                routes += [lambda: LocalDate(f[0], f[1], f[2], cal)] * 3
            if cal._min_days < p[1]:
                routes.append(lambda: LocalDate._ctor(days_since_epoch=p[1] - 1, calendar=cal).plus_days(1))
            if CalendarSystem.iso._min_days <= p[1] <= CalendarSystem.iso._max_days:
                routes.append(lambda: LocalDate._ctor(days_since_epoch=p[1], calendar=CalendarSystem.iso).with_calendar(cal))
            return self.rnd.choice(routes)()
        if typ == "LocalTime":
            return LocalTime.from_nanoseconds_since_midnight(p[0])
        if typ == "LocalDateTime":
            return LocalDate._ctor(days_since_epoch=p[1], calendar=self.cals[p[0]]).at(LocalTime.from_nanoseconds_since_midnight(p[2]))
        if typ == "YearMonth":
            d = LocalDate._ctor(days_since_epoch=p[1], calendar=self.cals[p[0]])
            return YearMonth(year=d.year, month=d.month, calendar=d.calendar)
        if typ == "AnnualDate":
            return AnnualDate(p[0], p[1])
        if typ == "OffsetDate":
            return LocalDate._ctor(days_since_epoch=p[1], calendar=self.cals[p[0]]).with_offset(Offset.from_seconds(p[2]))
        if typ == "OffsetTime":
            return LocalTime.from_nanoseconds_since_midnight(p[0]).with_offset(Offset.from_seconds(p[1]))
        if typ == "OffsetDateTime":
            return self.make("LocalDateTime", p[:3]).with_offset(Offset.from_seconds(p[3]))
        if typ == "ZonedDateTime":
            zone = [DateTimeZone.utc, DateTimeZoneProviders.tzdb["Europe/London"], DateTimeZone.for_offset(Offset.from_seconds(3600))][p[2]]
            return Instant._ctor(days=p[1], nano_of_day=p[3]).in_zone(zone, self.cals[p[0]])
        if typ == "Interval":
            a = None if p[0] is None else Instant._ctor(days=p[0], nano_of_day=0)
            b = None if p[1] is None else Instant._ctor(days=p[1], nano_of_day=0)
            return Interval(a, b)
        if typ == "DateInterval":
            c = self.cals[p[0]]
            return DateInterval(LocalDate._ctor(days_since_epoch=p[1], calendar=c), LocalDate._ctor(days_since_epoch=p[1] + p[2], calendar=c))
        if typ == "Period":
            names = ["years", "months", "weeks", "days", "hours", "minutes", "seconds", "milliseconds", "ticks", "nanoseconds"]
            per = Period.zero
            for nm, v in zip(names, p):
                if v:
                    per = per + getattr(Period, "from_" + nm)(v)
            return per
        if typ == "ZoneInterval":
            return ZoneInterval(name=["A", "B"][p[0]], start=Instant._ctor(days=p[1], nano_of_day=0), end=Instant._ctor(days=p[1] + 1 + p[2], nano_of_day=0),
                                wall_offset=Offset.from_seconds(p[3] + p[4]), savings=Offset.from_seconds(p[4]))
        if typ == "FixedZone":
            return DateTimeZone.for_offset(Offset.from_seconds(p[0]))
        raise ValueError(typ)

    def params(self, typ):
        r = self.rnd
        if typ in ("Duration",):
            return [self.ns_small()]
        if typ == "Instant":
            return [r.choice([0, 1, -1, NPD, -NPD, -NPD + 1, -2 * NPD, r.randint(-30, 30) * 3600 * 10**9, r.randint(-10**15, 10**15)])]
        if typ in ("Offset", "FixedZone"):
            return [self.off()]
        if typ in ("LocalDate", "YearMonth"):
            ci = r.randrange(len(self.cals)) if r.random() < 0.6 else 0
            return [ci, self.day_in(self.cals[ci])]
        if typ == "LocalTime":
            return [self.nod()]
        if typ == "LocalDateTime":
            ci = r.randrange(len(self.cals)) if r.random() < 0.6 else 0
            return [ci, self.day_in(self.cals[ci]), self.nod()]
        if typ == "AnnualDate":
            return [r.choice([1, 2, 2, 12, r.randint(1, 12)]), r.choice([1, 28, 29, r.randint(1, 28)])]
        if typ == "OffsetDate":
            ci = r.randrange(len(self.cals)) if r.random() < 0.5 else 0
            return [ci, self.day_in(self.cals[ci]), self.off()]
        if typ == "OffsetTime":
            return [self.nod(), self.off()]
        if typ == "OffsetDateTime":
            ci = r.randrange(len(self.cals)) if r.random() < 0.5 else 0
            return [ci, self.day_in(self.cals[ci]), self.nod(), self.off()]
        if typ == "ZonedDateTime":
            ci = r.randrange(len(self.cals)) if r.random() < 0.4 else 0
            return [ci, self.day_in(self.cals[ci]), r.randrange(3), self.nod()]
        if typ == "Interval":
            a = r.choice([None, 0, 5, 10])
            b = r.choice([None, 10, 15, 20])
            return [a, b]
        if typ == "DateInterval":
            ci = r.randrange(len(self.cals)) if r.random() < 0.5 else 0
            return [ci, self.day_in(self.cals[ci]), r.choice([0, 1, 5])]
        if typ == "Period":
            return [r.choice([0, 0, 1, -1, 2]) for _ in range(10)]
        if typ == "ZoneInterval":
            return [r.randrange(2), r.choice([0, 100]), r.choice([0, 1]), r.choice([0, 3600]), r.choice([0, 3600])]
        raise ValueError(typ)

    def key(self, typ, v):
        """(equality key, ordering key or None, comparability group) as integer tuples."""
        co = self.calord
        if typ == "Duration":
            t = proj.t3_duration(v)
            return t, t, 0
        if typ == "Instant":
            t = proj.t3_instant(v)
            return t, t, 0
        if typ == "Offset":
            return [v.seconds], [v.seconds], 0
        if typ == "LocalDate":
            return [co[v.calendar.id], v._days_since_epoch], [v._days_since_epoch], co[v.calendar.id]
        if typ == "LocalTime":
            n = v.nanosecond_of_day
            return [n // 10**9, n % 10**9], [n // 10**9, n % 10**9], 0
        if typ == "LocalDateTime":
            n = v.nanosecond_of_day
            k = [v.date._days_since_epoch, n // 10**9, n % 10**9]
            return [co[v.calendar.id]] + k, k, co[v.calendar.id]
        if typ == "YearMonth":
            fd = v.on_day_of_month(1)._days_since_epoch
            return [co[v.calendar.id], fd], [fd], co[v.calendar.id]
        if typ == "AnnualDate":
            return [v.month, v.day], [v.month, v.day], 0
        if typ == "OffsetDate":
            return [co[v.calendar.id], v.date._days_since_epoch, v.offset.seconds], None, 0
        if typ == "OffsetTime":
            n = v.nanosecond_of_day
            return [n // 10**9, n % 10**9, v.offset.seconds], None, 0
        if typ == "OffsetDateTime":
            return proj.t3_instant(v.to_instant()) + [v.offset.seconds, co[v.calendar.id]], None, 0
        if typ == "ZonedDateTime":
            zi = {"UTC": 0, "Europe/London": 1, "UTC+01": 2}.get(v.zone.id, 7)
            return proj.t3_instant(v.to_instant()) + [v.offset.seconds, co[v.calendar.id], zi], None, 0
        if typ == "Interval":
            s = [1] + proj.t3_instant(v.start) if v.has_start else [0, 0, 0, 0]
            e = [1] + proj.t3_instant(v.end) if v.has_end else [2, 0, 0, 0]
            return s + e, None, 0
        if typ == "DateInterval":
            return [co[v.calendar.id], v.start._days_since_epoch, v.end._days_since_epoch], None, 0
        if typ == "Period":
            return [v.years, v.months, v.weeks, v.days, v.hours, v.minutes, v.seconds, v.milliseconds, v.ticks, v.nanoseconds], None, 0
        if typ == "ZoneInterval":
            return proj.t3_instant(v.start) + proj.t3_instant(v.end) + [ord(v.name[0]), v.wall_offset.seconds, v.savings.seconds], None, 0
        if typ == "FixedZone":
            return [v.max_offset.seconds], None, 0
        raise ValueError(typ)


TYPES = ["Duration", "Instant", "Offset", "LocalDate", "LocalTime", "LocalDateTime", "YearMonth", "AnnualDate", "OffsetDate", "OffsetTime",
         "OffsetDateTime", "ZonedDateTime", "Interval", "DateInterval", "Period", "ZoneInterval", "FixedZone"]
ORDERED = {"Duration", "Instant", "Offset", "LocalDate", "LocalTime", "LocalDateTime", "YearMonth", "AnnualDate"}
MINMAX = {"Duration", "Instant", "Offset", "LocalDate", "LocalTime", "LocalDateTime"}
UNHASHABLE = {"ZonedDateTime"}


def _cmp(fn):
    try:
        return fn()
    except Exception:  # noqa: BLE001
        return None


def gen(args) -> list:
    seed, n = args
    rnd = random.Random(seed)
    g = Gen(rnd)
    evs = []
    for _ in range(n):
        typ = rnd.choice(TYPES)
        try:
            pa = g.params(typ)

            def vary(p):
                """A copy of p, a copy differing in exactly one component, or fresh parameters."""
                c = rnd.random()
                if c < 0.3:
                    return list(p)
                if c < 0.65:
                    q2 = g.params(typ)
                    i = rnd.randrange(len(p))
                    out = list(p)
                    out[i] = q2[i]
                    return out
                return g.params(typ)

            pb = vary(pa)
            pc = vary(rnd.choice([pa, pb]))
            if typ in ("LocalDate", "LocalDateTime", "YearMonth", "OffsetDate", "OffsetDateTime", "ZonedDateTime", "DateInterval") and rnd.random() < 0.4:
                # three dates of one calendar year, in months chosen independently (every month order gets compared)
                if rnd.random() < 0.35:
                    # the calendars whose month order is not the numeric order deserve most attention
                    heb = [i for i, cc in enumerate(g.cals) if cc.id.startswith("Hebrew")]
                    pa = list(pa)
                    pa[0] = rnd.choice(heb)
                cal = g.cals[pa[0]]
                yy = rnd.randint(max(cal.min_year + 1, 1), min(cal.max_year - 1, 9000))
                if cal.id.startswith("Hebrew"):
                    yy = rnd.choice([5784, 5782, 5779, 5785, yy])
                from pyoda_time import LocalDate as _LD

                def in_year(p):
                    miy = cal.get_months_in_year(yy)
                    m = rnd.choice([1, 6, 7, miy - 1, miy, rnd.randint(1, miy)])
                    dim = cal.get_days_in_month(yy, m)
                    d = rnd.choice([1, dim, rnd.randint(1, dim), rnd.randint(1, dim)])
                    out = list(p)
                    out[0] = pa[0]
                    out[1] = _LD(yy, m, d, cal)._days_since_epoch
                    g.fields[(out[0], out[1])] = (yy, m, d)          # (remembered: the fields route of make() uses them)
                    return out

                pa, pb, pc = in_year(pa), in_year(pb), in_year(pc)
                if rnd.random() < 0.3:
                    pc = list(pb)
            vals = [g.make(typ, p) for p in (pa, pb, pc)]
        except NameError:            # a driver error must not pass for "not a value"
            raise
        except Exception:  # noqa: BLE001 - parameters did not form a value (e.g. Feb 30): not an event
            continue
        if rnd.random() < 0.85:
            keys = [g.key(typ, v) for v in vals]
            if typ in ("Duration", "Instant"):
                # what the value *is* comes from the parameters, not from asking the value (whose internal split is under test)
                keys = [(proj.t3_from_ns(p0[0]), proj.t3_from_ns(p0[0]), 0) for p0 in (pa, pb, pc)]
            ev = {"op": "triple", "type": typ, "keys": [k[0] for k in keys], "grp": [k[2] for k in keys],
                  "ordered": typ in ORDERED, "has_minmax": typ in MINMAX, "hashable": typ not in UNHASHABLE}
            ev["ord"] = [k[1] if k[1] is not None else [] for k in keys]
            ev["eq"] = [[bool(a == b) and (not hasattr(a, "equals") or bool(a.equals(b))) for b in vals] for a in vals]
            ev["ne"] = [[bool(a != b) for b in vals] for a in vals]
            if ev["hashable"]:
                ev["hash"] = [hash(v) % 1000003 for v in vals]
                ev["set_size"] = len(set(vals))
                ev["distinct_keys"] = len({tuple(k) for k in ev["keys"]})
            else:
                ev["hash"], ev["set_size"], ev["distinct_keys"] = [0, 0, 0], 0, 0
            if typ in ORDERED:
                def rel(f):
                    return [[bool(r) if (r := _cmp(lambda a=a, b=b: f(a, b))) is not None else False for b in vals] for a in vals]

                ev["lt"], ev["le"] = rel(lambda a, b: a < b), rel(lambda a, b: a <= b)
                ev["gt"], ev["ge"] = rel(lambda a, b: a > b), rel(lambda a, b: a >= b)
                cmpm = []
                for a in vals:
                    row = []
                    for b in vals:
                        # compare_to first (its sign is the order); every operator is asked, so that one of them answering
                        # across calendars while the others refuse shows as "mixed" (8)
                        res = [_cmp(lambda a=a, b=b: a.compare_to(b)), _cmp(lambda a=a, b=b: a < b), _cmp(lambda a=a, b=b: a >= b),
                               _cmp(lambda a=a, b=b: a <= b), _cmp(lambda a=a, b=b: a > b)]
                        if any(x is None for x in res):
                            row.append(RAISED if all(x is None for x in res) else 8)
                        else:
                            row.append((res[0] > 0) - (res[0] < 0))
                    cmpm.append(row)
                ev["cmp"] = cmpm
                if typ in MINMAX:
                    cls = type(vals[0])

                    def idx(x, i, j):
                        return i if x is vals[i] or (x == vals[i] and x != vals[j]) else j

                    ev["maxi"] = [[idx(m, i, j) + 1 if (m := _cmp(lambda i=i, j=j: cls.max(vals[i], vals[j]))) is not None else 0 for j in range(3)] for i in range(3)]
                    ev["mini"] = [[idx(m, i, j) + 1 if (m := _cmp(lambda i=i, j=j: cls.min(vals[i], vals[j]))) is not None else 0 for j in range(3)] for i in range(3)]
                else:
                    ev["maxi"] = ev["mini"] = [[0] * 3] * 3
            else:
                z = [[False] * 3] * 3
                ev.update(lt=z, le=z, gt=z, ge=z, cmp=[[0] * 3] * 3, maxi=[[0] * 3] * 3, mini=[[0] * 3] * 3)
            other = object()
            # unrelated types: builtins, the standard library's look-alikes and every *other* value type of the package
            # (the ones that share attribute names such as .seconds, .days, .nanosecond_of_day are the tempting ones)
            import datetime as _dt

            import pyoda_time as _pt

            foreign = [5, "x", other, 2.5, _dt.timedelta(seconds=3), _dt.date(2020, 1, 2), _dt.time(1, 2), _dt.datetime(2020, 1, 2),
                       _pt.Duration.from_seconds(3), _pt.Offset.from_seconds(5), _pt.LocalTime(1, 2), _pt.LocalDate(2020, 1, 2),
                       _pt.LocalDate(2020, 1, 2).at(_pt.LocalTime(1, 2)), _pt.Instant.from_unix_time_seconds(7), _pt.Period.from_seconds(3),
                       _pt.YearMonth(year=2020, month=1), _pt.AnnualDate(1, 2)]
            foreign = [f for f in foreign if type(f) is not type(vals[0])]
            x0 = vals[0]
            ev["unrelated_eq_false"] = all((x0 != f) and not (x0 == f) for f in foreign)
            if typ in ORDERED:
                ok = True
                for f in foreign:
                    for fn in (lambda: x0 < f, lambda: x0 <= f, lambda: x0 > f, lambda: x0 >= f,
                               lambda: f < x0, lambda: f <= x0, lambda: f > x0, lambda: f >= x0):
                        if _cmp(fn) is not None:
                            ok = False
                    if hasattr(x0, "compare_to") and _cmp(lambda: x0.compare_to(f)) is not None:
                        ok = False
                ev["unrelated_order_refused"] = ok
            else:
                ev["unrelated_order_refused"] = True
            evs.append(ev)
        else:
            v = vals[0]
            before = g.key(typ, v)
            hb = hash(v) if typ not in UNHASHABLE else 0
            called = 0
            for name in sorted(dir(v)):
                if name.startswith("_"):
                    continue
                try:
                    attr = getattr(v, name)
                except Exception:  # noqa: BLE001
                    continue
                if callable(attr):
                    try:
                        sig = inspect.signature(attr)
                        req = [p for p in sig.parameters.values() if p.default is p.empty and p.kind in (p.POSITIONAL_ONLY, p.POSITIONAL_OR_KEYWORD)]
                    except (TypeError, ValueError):
                        continue
                    try:
                        if not req:
                            attr()
                        elif len(req) == 1 and name.startswith(("plus_", "with_")):
                            attr(rnd.choice([1, -1, 13]))
                        elif len(req) == 1:
                            # any other one-argument method: offered arguments of the usual kinds until it takes one (in_year(2023),
                            # at(time), with_offset(offset), in_zone(zone), next(weekday), contains(value), compare_to(other) ...)
                            import pyoda_time as _pt

                            for cand in (vals[1], 2023, 2024, 1, _pt.LocalTime(1, 2), _pt.LocalDate(2020, 2, 29), _pt.Offset.from_hours(1), _pt.Duration.from_hours(1),
                                         _pt.Period.from_days(1), _pt.CalendarSystem.julian, _pt.DateTimeZone.utc, _pt.IsoDayOfWeek.MONDAY,
                                         _pt.Instant.from_unix_time_seconds(1), "x"):
                                try:
                                    attr(cand)
                                    break
                                except Exception:  # noqa: BLE001
                                    continue
                        else:
                            continue
                        called += 1
                    except Exception:  # noqa: BLE001
                        called += 1
            for op in (lambda: v + vals[1], lambda: v - vals[1], lambda: -v, lambda: v * 3, lambda: v / 2, lambda: v & vals[1], lambda: v | vals[1],
                       lambda: list(iter(v)), lambda: repr(v), lambda: format(v, ""), lambda: v == vals[1], lambda: v < vals[1]):
                try:
                    op()
                except Exception:  # noqa: BLE001
                    pass
            # the library's own shared state moving on must not change a value either: every calendar / zone factory is asked again
            # (a value that looks its calendar or zone up at hash or comparison time would follow whatever they return now)
            member = typ in UNHASHABLE or (v in {v})
            try:
                from pyoda_time import CalendarSystem as _CS, DateTimeZone as _DTZ, Offset as _Off
                from pyoda_time.calendars import HebrewMonthNumbering as _HMN, IslamicEpoch as _IE, IslamicLeapYearPattern as _ILP

                for num in _HMN:
                    _CS.get_hebrew_calendar(num)
                for ep in _IE:
                    for pat in _ILP:
                        _CS.get_islamic_calendar(pat, ep)
                for cid in _CS.ids:
                    _CS.for_id(cid)
                _DTZ.for_offset(_Off.from_seconds(3600))
            except Exception:  # noqa: BLE001
                pass
            if typ not in UNHASHABLE:
                member = member and hash(v) == hb and (v in {vals[0]}) and (g.make(typ, pa) in {v} if typ not in ("Duration", "Instant", "Offset") else True)
            after = g.key(typ, v)
            rejected = True
            for name in dir(v):
                if name.startswith("_"):
                    continue
                if isinstance(getattr(type(v), name, None), property):
                    try:
                        setattr(v, name, getattr(v, name))
                        rejected = False
                    except Exception:  # noqa: BLE001
                        pass
            evs.append({"op": "immut", "type": typ, "methods_called": called, "unchanged": before == after and (typ in UNHASHABLE or hash(v) == hb)
                        and g.key(typ, v) == before and member, "setattr_rejected": rejected})
    return evs


def run(ctx: Ctx):
    q = ctx.quick
    ctx.mc("MC_ValueLaws", MC_CFG, workers="auto", tag="order")
    total = 30_000 if q else 800_000
    parts = parallel_map(gen, [(ctx.seed * 23 + k, total // 16) for k in range(16)])
    seen = set()
    for e in parts[0]:
        if e["type"] not in seen and e["op"] == "triple" and len(seen) < 4:
            seen.add(e["type"])
            ctx.sample({k: e[k] for k in ("op", "type", "keys", "eq", "cmp")})
    ctx.distinct_nontrivial = sum(1 for p in parts for e in p if e["op"] == "triple" and len({tuple(k) for k in e["keys"]}) > 1)
    ctx.notes["types"] = TYPES
    ctx.notes["events_by_type"] = {}
    for p in parts:
        for e in p:
            ctx.notes["events_by_type"][e["type"]] = ctx.notes["events_by_type"].get(e["type"], 0) + 1

    def key_of(ev, clause):
        return {"clause": clause, "type": ev["type"], "op": ev["op"]}

    ctx.validate("Trace_ValueLaws", TRACE_CFG, None, shards=parts, key_of=key_of, ntraces=len(parts))
    ctx.rule = ("triples of values of 17 types drawn from small parameter pools (so equal-but-distinct and adjacent values are frequent) in all "
                "calendars: ==, !=, equals, hash, set membership, <, <=, >, >=, compare_to, min/max, cross-calendar and unrelated-type comparisons; "
                "immutability probes calling every public zero-argument/plus_*/with_* method and operator; non-trivial = a triple with at "
                "least two distinct keys")


def replay(ctx, path):
    run(ctx)
