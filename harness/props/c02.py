"""C02 - calendar dates denote the physical day their published definitions prescribe."""
from harness.props import calprop


def run(ctx):
    calprop.run(ctx, "published")


def replay(ctx, path):
    run(ctx)
