"""C09 - date arithmetic and Period.between obey their stated laws in every calendar."""
from __future__ import annotations

import random

from harness import proj
from harness.core import Ctx, limbs, parallel_map

TRACE_CFG = "SPECIFICATION Spec\nCHECK_DEADLOCK FALSE\n"
MC_CFG = """SPECIFICATION Spec
CONSTANTS
  Cal = "{cal}"
  YLo = {lo}
  YHi = {hi}
INVARIANT OrdinalsChronological
INVARIANT PlusMonthsLaws
INVARIANT PlusYearsLaws
"""
NPD = proj.NPD
UNIT_NAMES = ["years", "months", "weeks", "days", "hours", "minutes", "seconds", "milliseconds", "ticks", "nanoseconds"]


def gen(args) -> list:
    seed, n = args
    from pyoda_time import CalendarSystem, LocalDate, LocalDateTime, LocalTime, Period, PeriodUnits, YearMonth

    rnd = random.Random(seed)
    cals = [CalendarSystem.for_id(c) for c in CalendarSystem.ids]
    flags = [PeriodUnits.YEARS, PeriodUnits.MONTHS, PeriodUnits.WEEKS, PeriodUnits.DAYS, PeriodUnits.HOURS, PeriodUnits.MINUTES,
             PeriodUnits.SECONDS, PeriodUnits.MILLISECONDS, PeriodUnits.TICKS, PeriodUnits.NANOSECONDS]
    evs = []
    ctor = LocalDate._ctor

    def rday(cal, near=None, spread=None):
        lo, hi = cal._min_days, cal._max_days
        if near is not None:
            return min(max(near + rnd.randint(-spread, spread), lo), hi)
        c = rnd.random()
        if c < 0.1:
            return lo + rnd.randint(0, 400)
        if c < 0.2:
            return hi - rnd.randint(0, 400)
        return rnd.randint(lo, hi)

    def ymd(d):
        return [d.year, d.month, d.day]

    def signs(p):
        vals = [p.years, p.months, p.weeks, p.days, p.hours, p.minutes, p.seconds, p.milliseconds, p.ticks, p.nanoseconds]
        return [(v > 0) - (v < 0) for v in vals]

    def units_from(mask_bits):
        u = PeriodUnits.NONE
        for i in mask_bits:
            u |= flags[i]
        return u

    def valid_date(r):
        try:
            c2 = r.calendar
            return 1 <= r.month <= c2.get_months_in_year(r.year) and 1 <= r.day <= c2.get_days_in_month(r.year, r.month) \
                and ctor(days_since_epoch=r._days_since_epoch, calendar=c2) == r and LocalDate(r.year, r.month, r.day, c2) == r
        except Exception:  # noqa: BLE001
            return False

    # calendars that share a name (the eight "Hijri" ones, the three "Persian" ones, the two Hebrew numberings): the same small step
    # over the same year end, in one after the other (whatever one of them leaves behind is not the other's)
    groups: dict = {}
    for cal in cals:
        groups.setdefault(cal.name, []).append(cal)
    for name, sibs in groups.items():
        if len(sibs) < 2:
            continue
        for _ in range(6):
            yy = rnd.randint(max(c2.min_year for c2 in sibs) + 1, min(c2.max_year for c2 in sibs) - 1)
            order = sibs[:]
            rnd.shuffle(order)
            k = rnd.choice([1, 2, 7, 10, 28, 35])
            for cal in order + order[:1]:
                try:
                    miy = cal.get_months_in_year(yy)
                    dim = cal.get_days_in_month(yy, miy)
                    d = LocalDate(yy, miy, max(1, dim - rnd.choice([0, 0, 1, 3])), cal)
                except Exception:  # noqa: BLE001
                    continue
                ev = {"op": "plus_days", "unit": "days", "n": d._days_since_epoch, "k": limbs(k), "cal": cal.id, "min_year": cal.min_year, "max_year": cal.max_year,
                      "min_day": cal._min_days, "max_day": cal._max_days, "after_sibling": True}
                try:
                    r = d.plus_days(k)
                    ev["res"], ev["res_cal"] = r._days_since_epoch, r.calendar.id
                    ev["res_valid"] = valid_date(r)
                except Exception as e:  # noqa: BLE001
                    ev["exc"] = type(e).__name__
                evs.append(ev)

    for _ in range(n):
        c = rnd.random()
        cal = rnd.choice(cals)
        base = {"cal": cal.id, "min_year": cal.min_year, "max_year": cal.max_year, "min_day": cal._min_days, "max_day": cal._max_days}
        if c < 0.2:
            nday = rday(cal)
            if rnd.random() < 0.5:
                # near a year boundary: amounts of about a year can then cross two boundaries in calendars with short years
                yy = rnd.randint(cal.min_year + 1, cal.max_year - 1)
                nday = min(max(LocalDate(yy, 1, 1, cal)._days_since_epoch + rnd.randint(-70, 70), cal._min_days), cal._max_days)
            d = ctor(days_since_epoch=nday, calendar=cal)
            unit = rnd.choice(["days", "weeks"])
            cc = rnd.random()
            k = rnd.choice([0, 1, -1, 299, 300, 301, -299, -300, -301, 353, 354, 355, 365, 366, -354, -365, -366]) if cc < 0.3 else rnd.randint(-400, 400) if cc < 0.55 else \
                rnd.randint(-4 * 10**6, 4 * 10**6) if cc < 0.8 else rnd.choice([cal._max_days - nday, cal._min_days - nday]) + rnd.choice([-1, 0, 1]) \
                if cc < 0.95 else rnd.choice([-1, 1]) * 10 ** rnd.randint(10, 30)
            if unit == "weeks":
                k //= 7
            ev = {"op": "plus_days", "unit": unit, "n": nday, "k": limbs(k), **base}
            try:
                route = rnd.randrange(2)
                r = (d.plus_days(k) if unit == "days" else d.plus_weeks(k)) if route == 0 else \
                    (d + (Period.from_days(k) if unit == "days" else Period.from_weeks(k)))
                ev["res"], ev["res_cal"] = r._days_since_epoch, r.calendar.id
                ev["res_valid"] = valid_date(r)
            except Exception as e:  # noqa: BLE001
                ev["exc"] = type(e).__name__
            evs.append(ev)
        elif c < 0.4:
            d = ctor(days_since_epoch=rday(cal), calendar=cal)
            if rnd.random() < 0.4:   # month ends and leap days are where clamping matters
                try:
                    d = LocalDate(d.year, d.month, cal.get_days_in_month(d.year, d.month), cal)
                except Exception:  # noqa: BLE001
                    pass
            if rnd.random() < 0.3:
                # the last day of the first, second, last-but-one or last month of a year: where leap years change a month's length
                # (the leap day of the ISO family, day 6 of Coptic month 13, day 30 of the last Hijri / Persian month, Adar)
                yy = rnd.randint(cal.min_year + 1, cal.max_year - 1)
                miy = cal.get_months_in_year(yy)
                mm = rnd.choice([1, 2, miy - 1, miy, miy, rnd.randint(1, miy)])
                d = LocalDate(yy, mm, cal.get_days_in_month(yy, mm), cal)
            op = rnd.choice(["plus_months", "plus_years"])
            cc = rnd.random()
            k = rnd.randint(-40, 40) if cc < 0.5 else rnd.randint(-3000, 3000) if cc < 0.8 else rnd.randint(-130000, 130000)
            if op == "plus_years":
                k = k // 12 if abs(k) > 40 else k
            ev = {"op": op, "y": d.year, "m": d.month, "d": d.day, "k": k, **base}
            try:
                route = rnd.randrange(2)
                if op == "plus_months":
                    r = d.plus_months(k) if route == 0 else d + Period.from_months(k)
                else:
                    r = d.plus_years(k) if route == 0 else d + Period.from_years(k)
                ev["res"] = ymd(r)
                try:
                    ev["res_dim"] = cal.get_days_in_month(r.year, r.month)
                except Exception:  # noqa: BLE001 - the result is not even a month of the calendar
                    ev["res_dim"] = 0
            except Exception as e:  # noqa: BLE001
                ev["exc"] = type(e).__name__
            evs.append(ev)
        elif c < 0.415:
            cal = rnd.choice([x for x in cals if x.id.startswith("Hebrew")])
            base = {"cal": cal.id, "min_year": cal.min_year, "max_year": cal.max_year, "min_day": cal._min_days, "max_day": cal._max_days}
            # two-step histories from empty caches in the calendars that cache more than year starts (the Hebrew year-length cache is
            # shared by both Hebrew calendars): touch year a, then do arithmetic in a year whose neighbour shares a's cache slot
            from harness.props.c13 import cold

            calc = cal._year_month_day_calculator
            ka = rnd.randint(1, 8)
            if rnd.random() < 0.5:
                a, b = ka * 1024, ka * 1024 + 1023          # b + 1 falls into the slot that a filled
            else:
                a = ka * 1024 + rnd.choice([-1, 0, 1])
                b = a + rnd.choice([1023, 1024, 1025, -1023, -1024, -1025, 1022])
            if not (cal.min_year <= a <= cal.max_year and cal.min_year <= b <= cal.max_year):
                continue
            mb = rnd.choice([2, 3, 8, 9, rnd.randint(1, cal.get_months_in_year(b))])    # Heshvan / Kislev (either numbering) most of the time

            def arithmetic(b=b, mb=mb):
                out = []
                for dd in (1, 29):
                    st = LocalDate(b, mb, dd, cal)
                    for k2 in (1, 2, 30, 60, -1, -30, 299):
                        try:
                            r2 = st.plus_days(k2)
                            out += [r2.year, r2.month, r2.day]
                        except (OverflowError, ValueError):
                            out += [0, 0, 0]        # leaves the calendar's range (first / last year): the same in both runs
                    try:
                        r3 = st.plus_months(1)
                        out += [r3.year, r3.month, r3.day]
                    except (OverflowError, ValueError):
                        out += [0, 0, 0]
                    out += [cal.get_days_in_month(b, mb)]
                return out

            try:
                def touch(a=a):
                    # ask about year a the way ordinary use does: a date's day number, a month length, a short hop
                    return (LocalDate(a, 1, 1, cal)._days_since_epoch, cal.get_days_in_month(a, rnd.randint(1, 12)), LocalDate(a, 3, 1, cal).plus_days(40))

                res = cold(calc, lambda: (touch(), arithmetic())[1])
                pure = cold(calc, arithmetic)
                evs.append({"op": "hist", "cal": cal.id, "after_year": a, "year": b, "month": mb, "res": res, "pure": pure})
            except Exception as e:  # noqa: BLE001
                evs.append({"op": "hist", "cal": cal.id, "after_year": a, "year": b, "month": mb, "res": [], "pure": [0], "exc": type(e).__name__})
        elif c < 0.47:
            # LocalDate +/- Period with several date units: applied years, months, weeks, days in that order
            d = ctor(days_since_epoch=rday(cal), calendar=cal)
            if rnd.random() < 0.5:
                d = LocalDate(d.year, d.month, cal.get_days_in_month(d.year, d.month), cal)
            amts = {"years": rnd.choice([0, 0, 1, -1, 4, rnd.randint(-30, 30)]), "months": rnd.choice([0, 1, -1, 12, 13, rnd.randint(-40, 40)]),
                    "weeks": rnd.choice([0, 0, rnd.randint(-60, 60)]), "days": rnd.choice([0, 1, -1, rnd.randint(-500, 500)])}
            p = Period.zero
            for kk, v in amts.items():
                if v:
                    p = p + getattr(Period, "from_" + kk)(v)
            minus = rnd.random() < 0.5
            eff = {kk: -v for kk, v in amts.items()} if minus else amts
            ev = {"op": "date_period", "minus": minus, "y": d.year, "m": d.month, "d": d.day, "n": d._days_since_epoch, **eff, **base}
            try:
                if minus:
                    r = rnd.choice([lambda: d - p, lambda: d.minus(p), lambda: LocalDate.subtract(d, p)])()
                else:
                    r = rnd.choice([lambda: d + p, lambda: d.plus(p), lambda: LocalDate.add(d, p)])()
                ev["res"], ev["res_cal"] = r._days_since_epoch, r.calendar.id
            except Exception as e:  # noqa: BLE001
                ev["exc"] = type(e).__name__
            evs.append(ev)
        elif c < 0.52:
            # the period value itself: componentwise + and -, builder round trip and indexing, equality and hash
            from pyoda_time import PeriodBuilder

            def rp():
                vals = [0 if rnd.random() < 0.4 else rnd.choice([1, -1, rnd.randint(-10**6, 10**6), rnd.randint(-10**9, 10**9)]) for _ in UNIT_NAMES]
                b = PeriodBuilder()
                for u, v in zip(UNIT_NAMES, vals):
                    setattr(b, u, v)
                return vals, b.build()

            pv, pp = rp()
            qv, qq = rp()
            comps = lambda x: [getattr(x, u) for u in UNIT_NAMES]  # noqa: E731
            ev = {"op": "period_algebra", "p": pv, "q": qv, "built": comps(pp)}
            try:
                ev["sum"] = comps(rnd.choice([lambda: pp + qq, lambda: Period.add(pp, qq)])())
                ev["diff"] = comps(rnd.choice([lambda: pp - qq, lambda: Period.subtract(pp, qq)])())
                ev["rebuilt"] = comps(pp.to_builder().build())
                ev["from_period"] = comps(PeriodBuilder.from_period(pp).build())
                _, same = pv, None
                b2 = pp.to_builder()
                i = rnd.randrange(10)
                unit_flag = flags[i]
                ev["index_read"] = b2[unit_flag] == pv[i]
                b2[unit_flag] = pv[i] + 1
                changed = b2.build()
                ev["changed"] = comps(changed)
                ev["changed_index"] = i + 1
                copy = pp.to_builder().build()
                ev["eq_copy"] = (pp == copy) and pp.equals(copy) and not (pp != copy) and hash(pp) == hash(copy)
                ev["ne_changed"] = (pp != changed) and not (pp == changed) and not pp.equals(changed)
                ev["has_date"] = pp.has_date_component
                ev["has_time"] = pp.has_time_component
            except Exception as e:  # noqa: BLE001
                ev["exc"] = type(e).__name__
            evs.append(ev)
        elif c < 0.55:
            yy = rnd.randint(cal.min_year, cal.max_year)
            mm = rnd.randint(1, cal.get_months_in_year(yy))
            cc = rnd.random()
            k = rnd.randint(-40, 40) if cc < 0.6 else rnd.randint(-3000, 3000) if cc < 0.9 else rnd.randint(-130000, 130000)
            ev = {"op": "ym_plus", "y": yy, "m": mm, "d": 1, "k": k, **base}
            try:
                r = YearMonth(year=yy, month=mm, calendar=cal).plus_months(k)
                ev["res"] = [r.year, r.month, 1]
                ev["res_dim"] = cal.get_days_in_month(r.year, r.month)
                ev["res_cal"] = r.calendar.id
            except Exception as e:  # noqa: BLE001
                ev["exc"] = type(e).__name__
            evs.append(ev)
        elif c < 0.85:
            kind = rnd.choice(["date", "date", "datetime", "time", "yearmonth"])
            nbits = rnd.choice([1, 1, 2, 3, rnd.randint(1, 10)])
            if kind == "date":
                avail = [0, 1, 2, 3]
            elif kind == "time":
                avail = [4, 5, 6, 7, 8, 9]
            elif kind == "yearmonth":
                avail = [0, 1]
            else:
                avail = list(range(10))
            bits = sorted(rnd.sample(avail, min(nbits, len(avail))))
            units = units_from(bits)
            requested = [i in bits for i in range(10)]
            ev = {"op": "between", "kind": kind, "cal": cal.id, "units": bits, "requested": requested}
            try:
                if kind in ("date", "datetime"):
                    n1 = rday(cal)
                    n2 = rday(cal, near=n1, spread=rnd.choice([3, 40, 400, 5000, 800000]))
                    d1, d2 = ctor(days_since_epoch=n1, calendar=cal), ctor(days_since_epoch=n2, calendar=cal)
                    if rnd.random() < 0.3:
                        # month ends and days 28-31 on both sides: where "one more month would pass the end" depends on clamping
                        def month_end_like(x):
                            dim = cal.get_days_in_month(x.year, x.month)
                            return LocalDate(x.year, x.month, rnd.choice([dim, dim, max(1, dim - 1), min(dim, 28), min(dim, 29), min(dim, 30)]), cal)

                        d1, d2 = month_end_like(d1), month_end_like(d2)
                        n1, n2 = d1._days_since_epoch, d2._days_since_epoch
                    if kind == "date":
                        a, b = d1, d2
                        pt = lambda x: [x._days_since_epoch, 0, 0]  # noqa: E731
                        ev["has_finest"] = 3 in bits
                        if not (set(bits) & {4, 5, 6, 7, 8, 9}) and len(bits) == 1 and abs(n2 - n1) > 2 * 10**5 and bits[0] in (0, 1) and cal.id == "Badi":
                            pass
                    else:
                        t1, t2 = rnd.randrange(NPD), rnd.choice([0, NPD - 1, rnd.randrange(NPD)])
                        a = d1.at(LocalTime.from_nanoseconds_since_midnight(t1))
                        b = d2.at(LocalTime.from_nanoseconds_since_midnight(t2))
                        pt = lambda x: [x.date._days_since_epoch, x.nanosecond_of_day // 10**9, x.nanosecond_of_day % 10**9]  # noqa: E731
                        ev["has_finest"] = 9 in bits or (8 in bits and t1 % 100 == t2 % 100)
                elif kind == "time":
                    a = LocalTime.from_nanoseconds_since_midnight(rnd.randrange(NPD))
                    b = LocalTime.from_nanoseconds_since_midnight(rnd.choice([0, NPD - 1, rnd.randrange(NPD)]))
                    pt = lambda x: [0, x.nanosecond_of_day // 10**9, x.nanosecond_of_day % 10**9]  # noqa: E731
                    ev["has_finest"] = 9 in bits or (8 in bits and a.nanosecond_of_day % 100 == b.nanosecond_of_day % 100)
                else:
                    if cal.id in ("Hebrew Civil", "Hebrew Scriptural"):
                        cal2 = cal
                    else:
                        cal2 = cal
                    y1 = rnd.randint(cal2.min_year, cal2.max_year)
                    y2 = min(max(y1 + rnd.choice([0, 1, -1, rnd.randint(-50, 50)]), cal2.min_year), cal2.max_year)
                    a = YearMonth(year=y1, month=rnd.randint(1, cal2.get_months_in_year(y1)), calendar=cal2)
                    b = YearMonth(year=y2, month=rnd.randint(1, cal2.get_months_in_year(y2)), calendar=cal2)
                    # year-months are ordered by their first day
                    pt = lambda x: [x.on_day_of_month(1)._days_since_epoch, 0, 0]  # noqa: E731
                    ev["has_finest"] = 1 in bits
                ev["start"], ev["end"] = pt(a), pt(b)
                lo_d, hi_d = min(ev["start"][0], ev["end"][0]), max(ev["start"][0], ev["end"][0])
                if kind in ("date", "datetime", "yearmonth"):
                    ev["near_range_end"] = cal._max_days - hi_d < 60 or lo_d - cal._min_days < 60
                if cal.id == "Badi" and kind in ("date", "datetime"):
                    ev["badi_intercalary"] = any(x.month == 18 and x.day > 19 for x in (d1, d2))
                p = Period.between(a, b, units)
                ev["signs"] = signs(p)
                if kind == "yearmonth":
                    sp = a.on_day_of_month(1).plus(p).to_year_month()
                else:
                    sp = a + p
                ev["sp"] = pt(sp)
                if len(bits) == 1:
                    u = UNIT_NAMES[bits[0]]
                    amt = getattr(p, u)
                    fwd = ev["start"] <= ev["end"]
                    more = getattr(Period, "from_" + u)(amt + (1 if fwd else -1))
                    try:
                        ov = (a.on_day_of_month(1).plus(more).to_year_month() if kind == "yearmonth" else a + more)
                        if kind == "time":
                            # times wrap: an overshoot shows as wrapping past midnight
                            total = a.nanosecond_of_day + getattr(more, u) * {"hours": 3600 * 10**9, "minutes": 60 * 10**9, "seconds": 10**9,
                                                                              "milliseconds": 10**6, "ticks": 100, "nanoseconds": 1}[u]
                            ev["over"] = [total // NPD, (total % NPD) // 10**9, total % 10**9] if 0 <= total < NPD else ([1, 0, 0] if total >= NPD else [-1, 0, 0])
                        else:
                            ev["over"] = pt(ov)
                        ev["over_raised"] = False
                    except Exception:  # noqa: BLE001
                        ev["over"], ev["over_raised"] = ev["end"], True
            except Exception as e:  # noqa: BLE001
                ev["exc"] = type(e).__name__
                ev.setdefault("start", [0, 0, 0])
                ev.setdefault("end", [0, 0, 0])
                ev.setdefault("has_finest", False)
            evs.append(ev)
        else:
            comps = {}
            for u in UNIT_NAMES:
                cc = rnd.random()
                big = {"years": 10**4, "months": 10**5, "weeks": 10**6, "days": 10**7, "hours": 10**8, "minutes": 10**10, "seconds": 10**12,
                       "milliseconds": 10**15, "ticks": 10**18, "nanoseconds": 10**19}[u]   # the total stays inside the Duration range
                comps[u] = 0 if cc < 0.3 else rnd.randint(-100, 100) if cc < 0.7 else rnd.randint(-10**6, 10**6) if cc < 0.9 else rnd.randint(-big, big)
            if rnd.random() < 0.25:
                # a total within a few nanoseconds of a whole number of days, many days out
                dd = rnd.choice([1, -1]) * rnd.choice([1, 128, 129, 200, 10**4, 36525, rnd.randint(100, 10**7)])
                comps = {u: 0 for u in UNIT_NAMES}
                how = rnd.randrange(3)
                if how == 0:
                    comps["days"] = dd
                elif how == 1:
                    comps["hours"] = 24 * dd
                else:
                    comps["weeks"], comps["days"] = dd // 7 if dd > 0 else -((-dd) // 7), (dd % 7 if dd > 0 else -((-dd) % 7))
                comps[rnd.choice(["nanoseconds", "ticks"])] = rnd.choice([0, 0, 0, -1, 1, -3, 3, -300, 300, rnd.randint(-999, 999)])    # (or exactly)
            if rnd.random() < 0.5:
                comps["years"] = comps["months"] = 0
            p = Period.zero
            for u, v in comps.items():
                if v:
                    p = p + getattr(Period, "from_" + u)(v)
            before = {u: limbs(getattr(p, u)) for u in UNIT_NAMES}
            if rnd.random() < 0.5:
                ev = {"op": "normalize", "before": before}
                try:
                    q = p.normalize()
                    ev["after"] = {u: limbs(getattr(q, u)) for u in UNIT_NAMES}
                except Exception as e:  # noqa: BLE001
                    ev["exc"] = type(e).__name__
            else:
                ev = {"op": "to_duration", "before": before, "has_ym": bool(p.years or p.months), "res": [0, 0, 0]}
                try:
                    ev["res"] = proj.t3_duration(p.to_duration())
                except Exception as e:  # noqa: BLE001
                    ev["exc"] = type(e).__name__
            evs.append(ev)
    return evs


def run(ctx: Ctx):
    q = ctx.quick
    for cal, lo, hi in (("Hebrew Civil", 5775, 5790), ("Hebrew Scriptural", 5775, 5790), ("ISO", 2015, 2030), ("Coptic", 1, 12)):
        ctx.mc("MC_DateArith", MC_CFG.format(cal=cal, lo=lo, hi=hi if q else hi + 30), workers="auto", tag=cal.replace(" ", ""))
    total = 40_000 if q else 1_000_000
    parts = parallel_map(gen, [(ctx.seed * 19 + k, total // 16) for k in range(16)])
    for e in parts[0][:60]:
        if e["op"] in ("plus_months", "between"):
            ctx.sample(e, cap=5)
    ctx.distinct_nontrivial = sum(len(p) for p in parts)
    ctx.notes["events_by_op"] = {}
    for p in parts:
        for e in p:
            ctx.notes["events_by_op"][e["op"]] = ctx.notes["events_by_op"].get(e["op"], 0) + 1

    def key_of(ev, clause):
        k = {"clause": clause, "op": ev["op"]}
        if "cal" in ev:
            k["cal"] = ev["cal"]
        if "kind" in ev:
            k["kind"] = ev["kind"]
        if ev["op"] == "between":
            k["units"] = ",".join(UNIT_NAMES[i] for i in ev["units"])
        if "exc" in ev:
            k["exc"] = ev["exc"]
        if ev.get("near_range_end"):
            k["near_range_end"] = True
        return k

    ctx.validate("Trace_DateArith", TRACE_CFG, None, shards=parts, key_of=key_of, ntraces=len(parts))
    ctx.rule = ("dates in all calendars (range ends, month ends) x day/week amounts incl. the 300-day fast path threshold and range-crossing "
                "ones x month/year amounts up to +-130000 months; Period.between on LocalDate/LocalDateTime/LocalTime/YearMonth pairs with "
                "random unit subsets (single units checked for maximality); normalize/to_duration of random periods; non-trivial = every event")


def replay(ctx, path):
    run(ctx)
