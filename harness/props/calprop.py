"""Shared runner for C01 (self-consistency) and C02 (published rules)."""
from __future__ import annotations

import random

from harness.core import NCPU, Ctx, parallel_map
from harness.drivers import calwalk

TRACE_CFG = 'SPECIFICATION Spec\nCONSTANT Mode = "{mode}"\nCHECK_DEADLOCK FALSE\n'

MC_CFG = """SPECIFICATION Spec
CONSTANTS
  CalSet <- AllCals
  YearStep = {step}
  YearPhase = {phase}
INVARIANT MonthStartAgrees
INVARIANT DaysOfMonthOrdered
INVARIANT YearCloses
INVARIANT AllowedYearLengths
INVARIANT SecondFormulation
INVARIANT RangeIsDocumented
CHECK_DEADLOCK FALSE
"""

ARITHMETIC = {"ISO", "Gregorian", "Julian", "Coptic", "Hebrew Civil", "Hebrew Scriptural", "Persian Simple",
              "Persian Arithmetic"}


def _merge(segs):
    segs = sorted(segs)
    out = []
    for a, b in segs:
        if out and a <= out[-1][1] + 1:
            out[-1][1] = max(out[-1][1], b)
        else:
            out.append([a, b])
    return out


def build_events(ctx: Ctx, cal_ids: list, rnd: random.Random, year_mod: int, chunk: int = 15000):
    """Returns {cal_id: [events]} and counters."""
    from pyoda_time import CalendarSystem

    all_ids = list(CalendarSystem.ids)
    headers = {c: calwalk.cal_header(c) for c in cal_ids}
    # year events for every year of every calendar
    ytasks = []
    for c in cal_ids:
        h = headers[c]
        for y0 in range(h["min_year"], h["max_year"] + 1, 400):
            ytasks.append((c, y0, min(y0 + 399, h["max_year"])))
    yres = parallel_map(calwalk.year_events, ytasks)
    years: dict[str, list] = {c: [] for c in cal_ids}
    for (c, _, _), evs in zip(ytasks, yres):
        years[c].extend(evs)
    # segments
    wtasks = []
    ptasks = []
    phase = rnd.randrange(year_mod) if year_mod > 1 else 0
    for c in cal_ids:
        cal = CalendarSystem.for_id(c)
        lo, hi = cal._min_days, cal._max_days
        other = rnd.choice([i for i in all_ids if i != c])
        if year_mod <= 1:
            segs = [[lo, hi]]
        else:
            segs = [[lo, min(lo + 500, hi)], [max(hi - 500, lo), hi]]
            for ev in years[c]:
                ys = min(ev["mstarts"])
                segs.append([max(lo, ys - 2), min(hi, ys + 1)])
                if ev["y"] % year_mod == phase:
                    segs.append([max(lo, ys - 2), min(hi, ys + ev["diy"] + 1)])
            if c in ("ISO", "Gregorian"):
                # the implementation documents table-driven fast paths for 1900-2100: walk them fully
                segs.append([-25567 - 5, 47846 + 5])
        for ev in years[c]:
            # field probes: every year in the exhaustive mode; sampled years plus every century year (where leap rules
            # written with a shortcut go wrong) otherwise
            if year_mod <= 1 or ev["y"] % year_mod == phase or ev["y"] % 100 == 0 or ev["y"] in (cal.min_year, cal.max_year):
                ptasks.append((c, ev["y"]))
        for a, b in _merge(segs):
            x = a
            while x <= b:
                wtasks.append((c, x, min(x + chunk - 1, b), other, 37))
                x += chunk
    rnd.shuffle(wtasks)
    wres = parallel_map(calwalk.walk_segment, wtasks, chunksize=1)
    pres = parallel_map(calwalk.probes_for_year, ptasks, chunksize=50)
    runs: dict[str, list] = {c: [] for c in cal_ids}
    ndays = 0
    for (c, a, b, _, _), evs in zip(wtasks, wres):
        runs[c].extend(evs)
        ndays += b - a + 1
    probes: dict[str, dict] = {c: {} for c in cal_ids}
    for (c, y), evs in zip(ptasks, pres):
        probes[c][y] = evs
    out = {}
    for c in cal_ids:
        h = headers[c]
        cal = CalendarSystem.for_id(c)
        evs = [h]
        by_year: dict[int, list] = {}
        strays = []
        for r in runs[c]:
            if h["min_year"] <= r["y"] <= h["max_year"]:
                by_year.setdefault(r["y"], []).append(r)
            else:
                strays.append(r)
        for yev in years[c]:
            evs.append(yev)
            for r in sorted(by_year.get(yev["y"], []), key=lambda r: r["n0"]):
                evs.append(r)
            evs.extend(probes[c].get(yev["y"], []))
        evs.extend(strays)
        evs.extend(calwalk.range_probes(c))
        evs.append({"op": "end", "max_day": cal._max_days})
        out[c] = evs
    return out, ndays


def run(ctx: Ctx, mode: str):
    from pyoda_time import CalendarSystem

    rnd = random.Random(ctx.seed * 1009 + (1 if mode == "self" else 2))
    q = ctx.quick
    ids = list(CalendarSystem.ids)
    if mode == "published":
        ids = [c for c in ids if c in ARITHMETIC or c.startswith("Hijri")]
    # 1. the oracle's own consistency, by TLC, at month granularity over the real year ranges
    step = 12 if q else 1
    ctx.mc("MC_Calendars", MC_CFG.format(step=step, phase=rnd.randrange(step)), workers="auto", timeout=3600,
           tag="odometer")
    # 2. walk the real package
    evs, ndays = build_events(ctx, ids, rnd, year_mod=(24 if q else 1))
    shards = [evs[c] for c in ids]
    nruns = sum(1 for s in shards for e in s if e["op"] == "run")
    ctx.notes["days_walked"] = ndays
    ctx.notes["month_runs"] = nruns
    ctx.notes["calendars"] = ids
    ctx.distinct_nontrivial = nruns
    ctx.exhaustive = not q
    for s in shards[:3]:
        for e in s:
            if e["op"] == "run" and e["len"] > 20:
                ctx.sample({"cal": s[0]["cal"], **e})
                break
    ctx.sample(next(e for e in shards[0] if e["op"] == "year"))

    def key_of(ev, clause, _shards=shards):
        k = {"clause": clause, "op": ev.get("op")}
        if ev.get("op") in ("run", "year", "probe") and "y" in ev:
            k["y"] = ev["y"]
        if ev.get("op") == "probe":
            k.update({f: ev[f] for f in ("kind", "m", "d", "out", "n") if f in ev})
        return k

    rej = ctx.validate("Trace_Calendar", TRACE_CFG.format(mode=mode), None, shards=shards, key_of=key_of,
                       ntraces=len(shards), heap="6g", tag=mode)
    # the same mapping while another thread asks the same calculator about years that share its cache slots: TLC-simulated
    # two-thread schedules (YearStartCache.tla) enforced line by line; judged by Trace_Caches (answer = cold answer, and for
    # the arithmetic calendars = the published year start)
    from harness.props import c13

    tev = c13.thread_year_start_events(ctx, rnd, 30 if q else 300, [c for c in ids if c not in ("Badi", "Um Al Qura")], ctx.seed + 31, "ysc_" + mode)
    for e in tev:
        e["self_only"] = mode == "self"      # C01 judges a calendar against itself; the published rules are C02's
    ctx.validate("Trace_Caches", "SPECIFICATION Spec\nCHECK_DEADLOCK FALSE\n", None, shards=[tev],
                 key_of=lambda ev, clause: {"clause": clause, "op": ev["op"], "cal": ev.get("cal"), "threads": True}, ntraces=1, tag="thr" + mode)
    # attach the calendar id to each reject key (the shard index gives it)
    for r in rej:
        if r.shard is not None:
            r.key["cal"] = ids[r.shard]
            if r.event and r.event.get("op") == "run":
                bad = [f for f, v in r.event.get("flags", {}).items() if not v]
                if r.clause == "round_trip_or_order_flag" and bad:
                    r.key["flag"] = bad[0]
    ctx.rule = (f"mode={mode}: every year of every calendar (year events) + "
                + ("every day of every calendar" if not q else
                   "all year boundaries +-2 days, every 24th year walked in full (phase by seed), 1900-2100 in full for ISO/Gregorian, range ends")
                + "; run-length compressed to month runs; non-trivial = a month run (distinct (calendar, year, month, first day))")
    ctx.assumptions += ["day numbers are read through LocalDate._days_since_epoch / LocalDate._ctor(days_since_epoch=...) (plus public round trips)",
                        "ISO day-of-week is anchored on 1970-01-01 = Thursday"]
