"""C10 - time-of-day and local date-time arithmetic is exact and carries correctly."""
from __future__ import annotations

import random

from harness import proj
from harness.core import Ctx, limbs, parallel_map

TRACE_CFG = "SPECIFICATION Spec\nCHECK_DEADLOCK FALSE\n"
MC_CFG = "SPECIFICATION Spec\nCONSTANT UPD = {upd}\nINVARIANT AlgorithmIsModular\n"
UNITS = ["hours", "minutes", "seconds", "milliseconds", "ticks", "nanoseconds"]
UNIT_NS = {"hours": 3600 * 10**9, "minutes": 60 * 10**9, "seconds": 10**9, "milliseconds": 10**6, "ticks": 100, "nanoseconds": 1}
NPD = proj.NPD
ARITH = {"ISO", "Gregorian", "Julian", "Coptic", "Hebrew Civil", "Hebrew Scriptural", "Persian Simple"} | {
    f"Hijri {e}-{p}" for e in ("Civil", "Astronomical") for p in ("Base15", "Base16", "Indian", "HabashAlHasib")}


def amount_fields(unit: str, k: int) -> dict:
    """k units = q days + (r, f) in the mixed radix of T3.AmountToT3; q as limbs (may be huge)."""
    if unit in proj.UNIT_PER_SEC:
        p = proj.UNIT_PER_SEC[unit]
        secs, f = divmod(k, p)
        q, r = divmod(secs, 86400)
        amt = [0, r, f]
    else:
        q, r = divmod(k, proj.UNIT_PER_DAY[unit])
        amt = [0, r]
    return {"unit": unit, "k": str(k), "q": limbs(q), "amt": amt}


def gen(args) -> list:
    seed, n = args
    from pyoda_time import CalendarSystem, LocalDate, LocalDateTime, LocalTime, Offset, Period, TimeAdjusters

    rnd = random.Random(seed)
    cals = [CalendarSystem.for_id(c) for c in CalendarSystem.ids]
    evs = []

    def rtime():
        c = rnd.random()
        if c < 0.2:
            return rnd.choice([0, NPD - 1, 1, NPD // 2, 10**9 - 1, NPD - 10**9])
        if c < 0.5:
            # next to an hour / minute / second / millisecond boundary, at every sub-millisecond distance
            unit = rnd.choice([3600 * 10**9, 60 * 10**9, 10**9, 10**6])
            base = rnd.randrange(NPD // unit + 1) * unit
            off = rnd.choice([0, 1, 99, 100, 999, 1000, 8191, 8192, 8193, 10**5, 196607, 196608, 10**6 - 1, rnd.randrange(1, 10**6)])
            return min(max(base + rnd.choice([-1, 1]) * off, 0), NPD - 1)
        return rnd.randrange(NPD)

    def ramount(unit):
        upd = NPD // UNIT_NS[unit]
        c = rnd.random()
        if c < 0.2:
            return rnd.choice([0, 1, -1, 2, -2])
        if c < 0.5:
            return rnd.choice([-3, -2, -1, 1, 2, 3]) * upd + rnd.choice([-1, 0, 1])
        if c < 0.6:
            return rnd.choice([-1, 1]) * (2**63 + rnd.choice([-1, 0, 1]))
        if c < 0.7:
            return rnd.choice([-1, 1]) * 10 ** rnd.randint(28, 41) + rnd.randint(-5, 5)
        if c < 0.78:
            # just short of / just past a large whole number of days (exact integer carries are needed here)
            return rnd.choice([-1, 1]) * rnd.choice([128, 200, 1000, 16384, 20000, 10**5, 3 * 10**5]) * upd + rnd.choice([-1, 0, 1])
        if c < 0.88:
            return rnd.randint(-3 * upd, 3 * upd)
        return rnd.randint(-10**6, 10**6) * upd + rnd.randint(-upd, upd)

    def tt(nod):
        return [nod // 10**9, nod % 10**9]

    for _ in range(n):
        c = rnd.random()
        nod = rtime()
        lt = LocalTime.from_nanoseconds_since_midnight(nod)
        if c < 0.04:
            # factories: fields inside and just outside their ranges
            which = rnd.randrange(4)
            h = rnd.choice([0, 23, 24, -1, rnd.randint(0, 23)])
            mi = rnd.choice([0, 59, 60, -1, rnd.randint(0, 59)])
            sec = rnd.choice([0, 59, 60, -1, rnd.randint(0, 59)])
            if which == 0:
                ms, tk = rnd.choice([0, 999, 1000, -1, rnd.randint(0, 999)]), rnd.choice([0, 9999, 10000, -1, rnd.randint(0, 9999)])
                ev = {"op": "lt_from", "how": "hmsmt", "h": h, "mi": mi, "s": sec, "a": ms, "b": tk, "ok": 0 <= ms < 1000 and 0 <= tk < 10000,
                      "sub": ms * 10**6 + tk * 100}
                f = lambda: LocalTime.from_hour_minute_second_millisecond_tick(h, mi, sec, ms, tk)  # noqa: E731
            elif which == 1:
                tk = rnd.choice([0, 9_999_999, 10_000_000, -1, rnd.randint(0, 9_999_999)])
                ev = {"op": "lt_from", "how": "hmst", "h": h, "mi": mi, "s": sec, "a": tk, "b": 0, "ok": 0 <= tk < 10**7, "sub": tk * 100}
                f = lambda: LocalTime.from_hour_minute_second_tick(h, mi, sec, tk)  # noqa: E731
            elif which == 2:
                nn = rnd.choice([0, 999_999_999, 10**9, -1, rnd.randint(0, 999_999_999)])
                ev = {"op": "lt_from", "how": "hmsn", "h": h, "mi": mi, "s": sec, "a": nn, "b": 0, "ok": 0 <= nn < 10**9, "sub": nn}
                f = lambda: LocalTime.from_hour_minute_second_nanosecond(h, mi, sec, nn)  # noqa: E731
            else:
                ms = rnd.choice([0, 999, 1000, -1, rnd.randint(0, 999)])
                ev = {"op": "lt_from", "how": "ctor", "h": h, "mi": mi, "s": sec, "a": ms, "b": 0, "ok": 0 <= ms < 1000, "sub": ms * 10**6}
                f = lambda: LocalTime(h, mi, sec, ms)  # noqa: E731
            ev["sub"] = ev["sub"] if ev["ok"] else 0
            try:
                ev["res"] = tt(f().nanosecond_of_day)
            except Exception as e:  # noqa: BLE001
                ev["exc"] = type(e).__name__
            evs.append(ev)
        elif c < 0.07:
            unit = rnd.choice(["nanoseconds", "ticks", "milliseconds", "seconds", "minutes", "hours"])
            upd = NPD // UNIT_NS[unit]
            k = rnd.choice([0, 1, upd - 1, upd, upd + 1, -1, rnd.randrange(upd), rnd.randrange(upd)])
            ev = {"op": "lt_since", "unit": unit, **amount_fields(unit, k), "inside": 0 <= k < upd}
            try:
                ev["res"] = tt(getattr(LocalTime, "from_" + unit + "_since_midnight")(k).nanosecond_of_day)
            except Exception as e:  # noqa: BLE001
                ev["exc"] = type(e).__name__
            evs.append(ev)
        elif c < 0.12:
            x = lt
            cx = rnd.random()
            if cx < 0.4:
                cal = rnd.choice(cals)
                x = LocalDate._ctor(days_since_epoch=rnd.randint(cal._min_days, cal._max_days), calendar=cal).at(lt)
            elif cx < 0.55:
                x = lt.with_offset(Offset.from_seconds(rnd.randint(-64800, 64800)))                       # OffsetTime: the same accessors
            elif cx < 0.7:
                x = LocalDate(2021, 3, 4).at(lt).with_offset(Offset.from_seconds(rnd.randint(-64800, 64800)))  # OffsetDateTime
            evs.append({"op": "lt_parts", "t": tt(x.nanosecond_of_day), "hour": x.hour, "minute": x.minute, "second": x.second,
                        "millisecond": x.millisecond, "tick_of_second": x.tick_of_second, "nanosecond_of_second": x.nanosecond_of_second,
                        "clock_hour_of_half_day": x.clock_hour_of_half_day, "tick_of_day": limbs(x.tick_of_day),
                        "nanosecond_of_day": limbs(x.nanosecond_of_day), **({"microsecond": x.microsecond} if hasattr(x, "microsecond") else {})})
        elif c < 0.0:
            evs.append({"op": "lt_parts", "t": tt(lt.nanosecond_of_day), "hour": lt.hour, "minute": lt.minute, "second": lt.second,
                        "millisecond": lt.millisecond, "tick_of_second": lt.tick_of_second, "nanosecond_of_second": lt.nanosecond_of_second,
                        "clock_hour_of_half_day": lt.clock_hour_of_half_day, "tick_of_day": limbs(lt.tick_of_day),
                        "nanosecond_of_day": limbs(lt.nanosecond_of_day)})
        elif c < 0.4:
            unit = rnd.choice(UNITS)
            k = ramount(unit)
            ev = {"op": "lt_plus", "t": tt(nod), **amount_fields(unit, k)}
            route = rnd.randrange(2)
            try:
                if route == 0:
                    r = getattr(lt, "plus_" + unit)(k)
                elif rnd.random() < 0.5:
                    r = rnd.choice([lambda: lt + getattr(Period, "from_" + unit)(k), lambda: lt.plus(getattr(Period, "from_" + unit)(k)),
                                    lambda: LocalTime.add(lt, getattr(Period, "from_" + unit)(k))])()
                else:
                    # subtracting the negated amount is the same addition
                    r = rnd.choice([lambda: lt - getattr(Period, "from_" + unit)(-k), lambda: lt.minus(getattr(Period, "from_" + unit)(-k)),
                                    lambda: LocalTime.subtract(lt, getattr(Period, "from_" + unit)(-k))])()
                ev["res"] = tt(r.nanosecond_of_day)
            except Exception as e:  # noqa: BLE001
                ev["exc"] = type(e).__name__
            ev["route"] = route
            evs.append(ev)
        elif c < 0.8:
            cal = rnd.choice(cals)
            lo, hi = cal._min_days, cal._max_days
            cc = rnd.random()
            day = lo + rnd.randint(0, 2) if cc < 0.15 else hi - rnd.randint(0, 2) if cc < 0.3 else rnd.randint(lo, hi)
            date = LocalDate._ctor(days_since_epoch=day, calendar=cal)
            ldt = date.at(lt)
            unit = rnd.choice(UNITS)
            k = ramount(unit)
            if rnd.random() < 0.3:   # amounts that land near the range ends
                target = rnd.choice([lo, hi]) + rnd.choice([-1, 0, 1])
                k = ((target - day) * NPD + rnd.choice([-NPD, 0, NPD]) - nod + rnd.randrange(NPD)) // UNIT_NS[unit]
            ev = {"op": "ldt_plus", "day": day, "cal": cal.id, "min_day": lo, "max_day": hi, "t": tt(nod), **amount_fields(unit, k)}
            try:
                r = getattr(ldt, "plus_" + unit)(k)
                rn = r.nanosecond_of_day
                ev["res"] = [r.date._days_since_epoch, rn // 10**9, rn % 10**9]
                ev["res_cal"] = r.calendar.id
            except Exception as e:  # noqa: BLE001
                ev["exc"] = type(e).__name__
            evs.append(ev)
        elif c < 0.92:
            cal = rnd.choice(cals)
            lo, hi = cal._min_days, cal._max_days
            day = rnd.randint(lo + 200000, hi - 200000) if hi - lo > 500000 else rnd.randint(lo + 3000, hi - 3000)
            ldt = LocalDate._ctor(days_since_epoch=day, calendar=cal).at(lt)
            amts = {"weeks": rnd.randint(-50, 50), "days": rnd.randint(-500, 500), "hours": rnd.randint(-100, 100),
                    "minutes": rnd.randint(-5000, 5000), "seconds": rnd.randint(-10**6, 10**6), "milliseconds": rnd.randint(-10**9, 10**9),
                    "ticks": rnd.randint(-10**12, 10**12), "nanoseconds": rnd.randint(-10**14, 10**14)}
            for kk in list(amts):
                if rnd.random() < 0.35:
                    amts[kk] = 0
            if rnd.random() < 0.15:
                # time units only, netting to an exact number of whole days (24 hours; 23 hours and 60 minutes; 3 days in nanoseconds ...)
                k = rnd.choice([1, -1, 2, 3, -3, 10])
                amts = {kk: 0 for kk in amts}
                form = rnd.randrange(4)
                if form == 0:
                    amts["hours"] = 24 * k
                elif form == 1:
                    amts["hours"], amts["minutes"] = 24 * k - 1, 60
                elif form == 2:
                    amts["nanoseconds"] = k * 86400 * 10**9
                else:
                    amts["hours"], amts["seconds"], amts["milliseconds"] = 24 * k - 2, 7199, 1000
            p = Period.zero
            for kk, v in amts.items():
                if v:
                    p = p + getattr(Period, "from_" + kk)(v)
            ym = {"years": 0, "months": 0}
            if cal.id in ARITH and rnd.random() < 0.6:
                ym = {"years": rnd.choice([0, 0, 1, -1, 4, rnd.randint(-30, 30)]), "months": rnd.choice([0, 1, -1, 12, 13, rnd.randint(-40, 40)])}
                d0 = LocalDate._ctor(days_since_epoch=day, calendar=cal)
                if rnd.random() < 0.5:
                    # month ends are where the order "date units first, then time units" shows
                    d0 = LocalDate(d0.year, d0.month, cal.get_days_in_month(d0.year, d0.month), cal)
                    day = d0._days_since_epoch
                    ldt = d0.at(lt)
                for kk, v in ym.items():
                    if v:
                        p = getattr(Period, "from_" + kk)(v) + p
            minus = rnd.random() < 0.4
            if minus:
                # subtracting a period adds the negated components, in the same order: the event logs the effective amounts
                amts = {kk: -v for kk, v in amts.items()}
                ym = {kk: -v for kk, v in ym.items()}
            ev = {"op": "ldt_period", "minus": minus, "day": day, "cal": cal.id, "min_day": lo, "max_day": hi, "t": tt(nod), "weeks": amts["weeks"],
                  "years": ym["years"], "months": ym["months"], "ymd": [ldt.year, ldt.month, ldt.day], "arith": cal.id in ARITH,
                  "days": amts["days"], "h": proj.amount_digits("hours", amts["hours"]), "mi": proj.amount_digits("minutes", amts["minutes"]),
                  "s": proj.amount_digits("seconds", amts["seconds"]), "ms": proj.amount_digits("milliseconds", amts["milliseconds"]),
                  "tk": proj.amount_digits("ticks", amts["ticks"]), "ns": proj.amount_digits("nanoseconds", amts["nanoseconds"])}
            try:
                if minus:
                    r = rnd.choice([lambda: ldt - p, lambda: ldt.minus(p), lambda: LocalDateTime.subtract(ldt, p)])()
                else:
                    r = rnd.choice([lambda: ldt + p, lambda: ldt.plus(p), lambda: LocalDateTime.add(ldt, p)])()
                rn = r.nanosecond_of_day
                ev["res"] = [r.date._days_since_epoch, rn // 10**9, rn % 10**9]
            except Exception as e:  # noqa: BLE001
                ev["exc"] = type(e).__name__
            evs.append(ev)
        else:
            kind = rnd.choice(["second", "minute", "hour"])
            adj = getattr(TimeAdjusters, "truncate_to_" + kind)
            route = rnd.randrange(3)
            if route == 0:
                r = lt.with_time_adjuster(adj)
            elif route == 1:
                ot = lt.with_offset(Offset.from_seconds(rnd.randint(-64800, 64800)))
                r2 = ot.with_time_adjuster(adj)
                if r2.offset != ot.offset:
                    evs.append({"op": "adjust", "t": tt(nod), "kind": kind, "res": [-1, -1]})
                    continue
                r = r2.time_of_day
            else:
                r = LocalDate(2020, 2, 29).at(lt).with_time_adjuster(adj).time_of_day
            evs.append({"op": "adjust", "t": tt(nod), "kind": kind, "res": tt(r.nanosecond_of_day), "route": route})
    return evs


def run(ctx: Ctx):
    q = ctx.quick
    ctx.mc("MC_LocalTimeArith", MC_CFG.format(upd=7), workers="auto", tag="upd7")
    ctx.mc("MC_LocalTimeArith", MC_CFG.format(upd=24 if q else 60), workers="auto", tag="upd24")
    # the same law for ALL integers and the real units-per-day constants, symbolically (Apalache); and its refutation of a
    # deliberately wrong variant (non-vacuity)
    ctx.apalache("APA_LocalTimeArith", "AlgorithmIsModular", cinit="ConstInit")
    ctx.apalache("APA_LocalTimeArithNeg", "AlgorithmIsModular", cinit="ConstInit", expect_violation=True)
    total = 40_000 if q else 1_000_000
    parts = parallel_map(gen, [(ctx.seed * 91 + k, total // 16) for k in range(16)])
    for e in parts[0][:40]:
        if e["op"] in ("lt_plus", "ldt_plus", "ldt_period"):
            ctx.sample(e, cap=4)
    ctx.distinct_nontrivial = sum(1 for p in parts for e in p if e["op"] in ("lt_plus", "ldt_plus", "ldt_period"))

    def key_of(ev, clause):
        k = {"clause": clause, "op": ev["op"]}
        if "unit" in ev:
            k["unit"] = ev["unit"]
        if "exc" in ev:
            k["exc"] = ev["exc"]
        return k

    ctx.validate("Trace_LocalTime", TRACE_CFG, None, shards=parts, key_of=key_of, ntraces=len(parts))
    ctx.rule = ("times at 0, 24h-1ns and random x amounts 0, +-1, +-k*unitsPerDay +-1, +-2^63 +-1, ~10^28..10^41, random x all six units; "
                "local date-times in all calendars incl. range edges (must raise, not wrap); periods of weeks/days/time units; time adjusters; "
                "non-trivial = a plus event")


def replay(ctx, path):
    run(ctx)
