"""C03 - Duration, Instant and Offset do exact integer arithmetic.

spec:  time/Elapsed.tla (values as T3 numerals + BigInt), time/ElapsedImpl.tla (normal-form machine)
MC:    MC_Elapsed (scaled day, all op sequences), MC_BigInt (oracle hygiene)
C->S:  every public factory / operator / accessor on boundary-biased operands -> Trace_Elapsed
"""
from __future__ import annotations

import random

from harness import proj
from harness.core import Ctx, limbs

TRACE_CFG = "SPECIFICATION Spec\nCHECK_DEADLOCK FALSE\n"
MC_ELAPSED = """SPECIFICATION Spec
CONSTANTS
  UPD = {upd}
  MaxDays = {maxdays}
INVARIANT Normalised
INVARIANT Refines
INVARIANT AccessorsExact
PROPERTY RaisesOnlyOutOfRange
"""
MC_BIGINT = """SPECIFICATION Spec
INVARIANT AddOK
INVARIANT MulOK
INVARIANT CmpOK
INVARIANT WfOK
INVARIANT DivOK
INVARIANT AlgOK
"""

NPD = proj.NPD
UNIT_NS = {"nanoseconds": 1, "ticks": 100, "microseconds": 1000, "milliseconds": 10**6, "seconds": 10**9,
           "minutes": 60 * 10**9, "hours": 3600 * 10**9, "days": NPD}


def _exc(e):
    return type(e).__name__


def _res(ev, fn, conv):
    try:
        ev["res"] = conv(fn())
    except Exception as e:  # noqa: BLE001
        ev["exc"] = _exc(e)
    return ev


def gen_events(seed: int, n: int) -> list:
    from pyoda_time import Duration, Instant, Offset

    rnd = random.Random(seed)
    T3D, T3I = proj.t3_duration, proj.t3_instant
    dmin, dmax = Duration._MIN_NANOSECONDS, Duration._MAX_NANOSECONDS
    imin = proj.ns_from_t3(T3I(Instant.min_value))
    imax = proj.ns_from_t3(T3I(Instant.max_value))
    small = [0, 1, -1, 99, 100, 101, -99, -100, -101, 999, 1000, -1000, 10**9, -(10**9), 10**9 - 1, -(10**9) + 1]
    evs: list = []

    def rnd_dur_ns():
        c = rnd.random()
        if c < 0.2:
            return rnd.choice(small)
        if c < 0.4:
            return rnd.choice([-2, -1, 1, 2, 3]) * NPD + rnd.choice([0, 1, -1, 100, -100, 50, -50])
        if c < 0.55:
            return rnd.choice([dmin, dmax]) + rnd.choice([0, 1, -1, 2, -2, NPD, -NPD])
        if c < 0.8:
            return rnd.randint(-10**15, 10**15)
        return rnd.randint(dmin, dmax)

    def mk_dur():
        for _ in range(20):
            ns = rnd_dur_ns()
            if dmin <= ns <= dmax:
                # build through the normal-form constructor used everywhere internally
                return Duration._ctor(days=ns // NPD, nano_of_day=ns % NPD)
        return Duration.zero

    def mk_inst():
        c = rnd.random()
        if c < 0.2:
            ns = imin + rnd.choice([0, 1, NPD - 1, NPD, rnd.randint(0, 10**15)])
        elif c < 0.4:
            ns = imax - rnd.choice([0, 1, NPD - 1, NPD, rnd.randint(0, 10**15)])
        elif c < 0.6:
            ns = rnd.choice(small) + rnd.choice([0, NPD, -NPD])
        else:
            ns = rnd.randint(imin, imax)
        return Instant._ctor(days=ns // NPD, nano_of_day=ns % NPD)

    def amount(unit, lo_ns, hi_ns):
        per = UNIT_NS[unit]
        c = rnd.random()
        if c < 0.25:
            k = rnd.choice(small) // 1
        elif c < 0.5:
            k = rnd.choice([lo_ns, hi_ns]) // per + rnd.choice([-2, -1, 0, 1, 2])
        elif c < 0.6:
            k = rnd.choice([-1, 1]) * 10 ** rnd.randint(20, 45)
        else:
            k = rnd.randint(lo_ns * 2, hi_ns * 2) // per
        return k

    def put_amount(ev, unit, k):
        ev["unit"] = unit
        ev["k"] = str(k)
        digs = proj.amount_digits(unit, k)
        if digs is None:
            ev["huge"] = True
        else:
            ev["amt"] = digs

    def cmp_fields(ev, a, b, conv, with_minmax_cls):
        ev.update(lt=a < b, le=a <= b, gt=a > b, ge=a >= b, eq=a == b, ne=a != b)
        cv = a.compare_to(b)
        ev["cmp"] = (cv > 0) - (cv < 0)  # only the sign is specified (and the magnitude may not fit TLC ints)
        ev["eq"] = ev["eq"] and a.equals(b) and (hash(a) == hash(b)) or (ev["eq"] and False)
        ev["max"] = conv(with_minmax_cls.max(a, b))
        ev["min"] = conv(with_minmax_cls.min(a, b))

    # the advertised constants are values like any other: the ends of the ranges, zero, the unit durations
    evs.append({"op": "consts", "i_max": T3I(Instant.max_value), "i_min": T3I(Instant.min_value), "d_max": T3D(Duration.max_value),
                "d_min": T3D(Duration.min_value), "d_zero": T3D(Duration.zero), "d_eps": T3D(Duration.epsilon), "d_day": T3D(Duration.one_day),
                "d_week": T3D(Duration.one_week), "o_max": Offset.max_value.seconds, "o_min": Offset.min_value.seconds, "o_zero": Offset.zero.seconds,
                "epoch": T3I(Instant.from_unix_time_ticks(0))})
    for i in range(n):
        c = rnd.random()
        if c < 0.12:
            unit = rnd.choice(list(UNIT_NS))
            k = amount(unit, dmin, dmax)
            ev = {"op": "d_from"}
            put_amount(ev, unit, k)
            f = getattr(Duration, "from_" + unit)
            evs.append(_res(ev, lambda: f(k), T3D))
        elif c < 0.24:
            a, b = mk_dur(), mk_dur()
            op = rnd.choice(["d_add", "d_sub"])
            route = rnd.randrange(3)
            ev = {"op": op, "a": T3D(a), "b": T3D(b), "route": route}
            if op == "d_add":
                f = [lambda: a + b, lambda: Duration.add(a, b), lambda: a.plus(b)][route]
            else:
                f = [lambda: a - b, lambda: Duration.subtract(a, b), lambda: a.minus(b)][route]
            evs.append(_res(ev, f, T3D))
        elif c < 0.28:
            a = mk_dur()
            route = rnd.randrange(2)
            evs.append(_res({"op": "d_neg", "a": T3D(a), "route": route}, [lambda: -a, lambda: Duration.negate(a)][route], T3D))
        elif c < 0.38:
            a = mk_dur()
            k = rnd.choice([0, 1, -1, 2, -2, 3, 7, -7, 1000, 10**6, -(10**6), rnd.randint(-10**5, 10**5), rnd.randint(-10**12, 10**12)])
            if rnd.random() < 0.3:
                ans = proj.ns_from_t3(T3D(a))
                if ans:
                    k = (rnd.choice([dmin, dmax]) // ans) + rnd.choice([-1, 0, 1])
            route = rnd.randrange(3)
            ev = {"op": "d_mul", "a": T3D(a), "k": limbs(k), "route": route}
            evs.append(_res(ev, [lambda: a * k, lambda: k * a, lambda: Duration.multiply(a, k)][route], T3D))
        elif c < 0.5:
            a = mk_dur()
            k = rnd.choice([1, -1, 2, -2, 3, -3, 7, 10, 1000, -1000, 300001, -300001, 86_400_000_000_000,
                            10**12 + 7, -(10**12) - 7, rnd.randint(-10**6, 10**6), rnd.randint(-10**18, 10**18), 10**30])
            route = rnd.randrange(2)
            ev = {"op": "d_div", "a": T3D(a), "k": limbs(k), "route": route}
            evs.append(_res(ev, [lambda: a / k, lambda: Duration.divide(a, k)][route], T3D))
        elif c < 0.56:
            a, b = mk_dur(), mk_dur()
            if rnd.random() < 0.3:
                b = Duration._ctor(days=a._floor_days, nano_of_day=a._nanosecond_of_floor_day)
            ev = {"op": "d_cmp", "a": T3D(a), "b": T3D(b)}
            cmp_fields(ev, a, b, T3D, Duration)
            evs.append(ev)
        elif c < 0.66:
            a = mk_dur()
            nod = a.nanosecond_of_day
            sg = -1 if nod < 0 else 1
            ev = {"op": "d_parts", "a": T3D(a), "days": a.days, "hours": a.hours, "minutes": a.minutes,
                  "seconds": a.seconds, "milliseconds": a.milliseconds, "microseconds": a.microseconds,
                  "subsecond_ticks": a.subsecond_ticks, "subsecond_nanoseconds": a.subsecond_nanoseconds,
                  "nod": [sg * (abs(nod) // 10**9), sg * (abs(nod) % 10**9)],
                  "to_ns": limbs(a.to_nanoseconds()), "bcl_ticks": limbs(a.bcl_compatible_ticks)}
            evs.append(ev)
        elif c < 0.70:
            a = mk_dur()
            unit = rnd.choice(["days", "hours", "minutes", "seconds", "milliseconds", "ticks", "nanoseconds"])
            fl = getattr(a, "total_" + unit)
            num, den = float(fl).as_integer_ratio()
            evs.append({"op": "d_total", "a": T3D(a), "unit": unit, "unit_ns": limbs(UNIT_NS[unit]), "num": limbs(num), "den": limbs(den)})
        elif c < 0.76:
            unit = rnd.choice(["seconds", "milliseconds", "ticks"])
            k = amount(unit, imin, imax)
            ev = {"op": "i_from_unix"}
            put_amount(ev, unit, k)
            f = getattr(Instant, "from_unix_time_" + unit)
            evs.append(_res(ev, lambda: f(k), T3I))
        elif c < 0.80:
            a = mk_inst()
            unit = rnd.choice(["seconds", "milliseconds", "ticks"])
            evs.append({"op": "i_to_unix", "a": T3I(a), "unit_ns": UNIT_NS[unit], "res": limbs(getattr(a, "to_unix_time_" + unit)())})
        elif c < 0.88:
            a, d = mk_inst(), mk_dur()
            if rnd.random() < 0.5:
                d = Duration._ctor(days=rnd.randint(-8_000_000, 8_000_000), nano_of_day=rnd.choice([0, 1, NPD - 1, rnd.randrange(NPD)]))
            op = rnd.choice(["i_plus", "i_minus"])
            route = rnd.randrange(3)
            if op == "i_plus" and rnd.random() < 0.35:
                # the unit routes: plus_nanoseconds for any amount, plus_ticks when the amount is a whole number of ticks
                dns = d.to_nanoseconds()
                if rnd.random() < 0.5:
                    dns -= dns % 100
                    d = Duration._ctor(days=dns // NPD, nano_of_day=dns % NPD)
                    route = 4
                else:
                    route = 3
            ev = {"op": op, "a": T3I(a), "d": T3D(d), "route": route}
            if op == "i_plus":
                f = [lambda: a + d, lambda: a.plus(d), lambda: Instant.add(a, d), lambda: a.plus_nanoseconds(d.to_nanoseconds()),
                     lambda: a.plus_ticks(d.to_nanoseconds() // 100)][route]
            else:
                f = [lambda: a - d, lambda: a.minus(d), lambda: Instant.subtract(a, d)][route]
            evs.append(_res(ev, f, T3I))
        elif c < 0.91:
            a, b = mk_inst(), mk_inst()
            route = rnd.randrange(3)
            evs.append(_res({"op": "i_diff", "a": T3I(a), "b": T3I(b), "route": route},
                            [lambda: a - b, lambda: a.minus(b), lambda: Instant.subtract(a, b)][route], T3D))
        elif c < 0.92:
            a, b = mk_inst(), mk_inst()
            if rnd.random() < 0.3:
                b = Instant._ctor(days=a._days_since_epoch, nano_of_day=a._nanosecond_of_day)
            ev = {"op": "i_cmp", "a": T3I(a), "b": T3I(b)}
            cmp_fields(ev, a, b, T3I, Instant)
            evs.append(ev)
        elif c < 0.94:
            # offsets applied to instants and to local instants, plain and "safe" routes, biased to the ends of time
            from pyoda_time._local_instant import _LocalInstant

            o = Offset.from_seconds(rnd.choice([0, 1, -1, 64800, -64800, 3600, -3600, rnd.randint(-64800, 64800)]))
            cc = rnd.random()
            ns = (imin + rnd.choice([0, 1, rnd.randrange(2 * NPD), NPD - 1, NPD]) if cc < 0.3 else
                  imax - rnd.choice([0, 1, rnd.randrange(2 * NPD), NPD - 1, NPD]) if cc < 0.6 else
                  rnd.choice([-2, -1, 0, 1, 2]) * NPD + rnd.choice([0, 1, -1, 64800 * 10**9, -64800 * 10**9, o.nanoseconds, -o.nanoseconds,
                                                                   NPD - o.nanoseconds, rnd.randrange(NPD)]) if cc < 0.8 else
                  rnd.randint(imin, imax))
            ns = min(max(ns, imin), imax)

            def T3L(li):
                if not li._is_valid:
                    return [-2000000000, 0, 0] if li._days_since_epoch < 0 else [2000000000, 0, 0]
                return [li._days_since_epoch, li._nanosecond_of_day // 10**9, li._nanosecond_of_day % 10**9]

            def T3S(inst):
                if not inst._is_valid:
                    return [-2000000000, 0, 0] if inst._days_since_epoch < 0 else [2000000000, 0, 0]
                return T3I(inst)

            if rnd.random() < 0.5:
                a = Instant._ctor(days=ns // NPD, nano_of_day=ns % NPD)
                ev = {"op": "i_local", "a": T3I(a), "o": o.seconds}
                try:
                    li = a._plus(o)
                    ev["res"] = T3L(li)
                    ev["back"] = T3I(li._minus(o))
                except Exception as e:  # noqa: BLE001
                    ev["exc"] = _exc(e)
                try:
                    ev["safe"] = T3L(a._safe_plus(o))
                except Exception as e:  # noqa: BLE001
                    ev["safe_exc"] = _exc(e)
                evs.append(ev)
            else:
                li = _LocalInstant._ctor(days=ns // NPD, nano_of_day=ns % NPD)
                ev = {"op": "l_minus", "a": T3L(li), "o": o.seconds}
                _res(ev, lambda: li._minus(o), T3I)
                try:
                    ev["safe"] = T3S(li._safe_minus(o))
                except Exception as e:  # noqa: BLE001
                    ev["safe_exc"] = _exc(e)
                evs.append(ev)
        elif c < 0.95:
            y = rnd.choice([-9998, 9999, 1, 0, 1970, 2000, 1900, 2100, rnd.randint(-9998, 9999), 10000, -9999])
            mo = rnd.choice([1, 2, 12, rnd.randint(1, 12), 0, 13])
            d = rnd.choice([1, 28, 29, 30, 31, rnd.randint(1, 31), 0, 32])
            h, mi, s = rnd.choice([0, 23, 24, rnd.randint(0, 23)]), rnd.choice([0, 59, 60, rnd.randint(0, 59)]), rnd.choice([0, 59, 60, rnd.randint(0, 59)])
            evs.append(_res({"op": "i_from_utc", "y": y, "mo": mo, "d": d, "h": h, "mi": mi, "s": s},
                            lambda: Instant.from_utc(y, mo, d, h, mi, s), T3I))
        else:
            def mk_off():
                return Offset.from_seconds(rnd.choice([0, 1, -1, 64800, -64800, 64799, -64799, rnd.randint(-64800, 64800)]))

            cc = rnd.random()
            if cc < 0.3:
                unit = rnd.choice(["seconds", "milliseconds", "ticks", "nanoseconds", "hours"])
                lim = 64800 * 10**9
                k = rnd.choice([lim, -lim, lim + UNIT_NS[unit], -lim - UNIT_NS[unit], lim - 1, -lim + 1,
                                rnd.randint(-lim, lim), rnd.randint(-2 * lim, 2 * lim), -(10**9) + 1, 10**9 - 1, -1, 1]) // UNIT_NS[unit] \
                    if unit != "hours" else rnd.randint(-20, 20)
                if rnd.random() < 0.2 and unit != "hours":
                    k = rnd.choice([-1, 1]) * (lim // UNIT_NS[unit] + rnd.choice([0, 1]))
                ev = {"op": "o_from"}
                put_amount(ev, unit, k)
                f = getattr(Offset, "from_" + unit)
                evs.append(_res(ev, lambda: f(k), lambda o: o.seconds))
            elif cc < 0.33:
                # the standard library's durations as a unit of construction: Offset.from_timedelta truncates the fraction toward
                # zero and checks +-18 h exactly; Duration.from_timedelta is exact
                import datetime as _dt

                base = rnd.choice([0, 64800, -64800, 1, -1, 3600, -5400, rnd.randint(-64800, 64800), rnd.randint(-90000, 90000)])
                us = rnd.choice([0, 1, -1, 500000, -500000, 999999, -999999, rnd.randint(-999999, 999999)])
                td = _dt.timedelta(seconds=base, microseconds=us)
                ev = {"op": "o_from_td", "td": [td.days, td.seconds, td.microseconds]}
                _res(ev, lambda: Offset.from_timedelta(td), lambda o: o.seconds)
                try:
                    ev["dur"] = T3D(Duration.from_timedelta(td))
                except Exception as ex:  # noqa: BLE001
                    ev["dur_exc"] = _exc(ex)
                evs.append(ev)
            elif cc < 0.4:
                h, m = rnd.randint(-19, 19), rnd.randint(-70, 70)
                evs.append(_res({"op": "o_hm", "h": h, "m": m}, lambda: Offset.from_hours_and_minutes(h, m), lambda o: o.seconds))
            elif cc < 0.6:
                a, b = mk_off(), mk_off()
                op = rnd.choice(["o_add", "o_sub"])
                route = rnd.randrange(3)
                if op == "o_add":
                    f = [lambda: a + b, lambda: a.plus(b), lambda: Offset.add(a, b)][route]
                else:
                    f = [lambda: a - b, lambda: a.minus(b), lambda: Offset.subtract(a, b)][route]
                evs.append(_res({"op": op, "a": a.seconds, "b": b.seconds, "route": route}, f, lambda o: o.seconds))
            elif cc < 0.7:
                a = mk_off()
                evs.append(_res({"op": "o_neg", "a": a.seconds}, lambda: -a, lambda o: o.seconds))
            elif cc < 0.85:
                a = mk_off()
                evs.append({"op": "o_parts", "a": a.seconds, "seconds": a.seconds, "milliseconds": a.milliseconds,
                            "ticks": limbs(a.ticks), "nanoseconds": limbs(a.nanoseconds)})
            else:
                a, b = mk_off(), mk_off()
                ev = {"op": "o_cmp", "a": a.seconds, "b": b.seconds}
                ev.update(lt=a < b, le=a <= b, gt=a > b, ge=a >= b, eq=(a == b) and a.equals(b) and hash(a) == hash(b),
                          cmp=(a.compare_to(b) > 0) - (a.compare_to(b) < 0), max=Offset.max(a, b).seconds, min=Offset.min(a, b).seconds)
                evs.append(ev)
    return evs


def _gen(args):
    return gen_events(*args)


def run(ctx: Ctx):
    from harness.core import NCPU, parallel_map

    q = ctx.quick
    ctx.mc("MC_Elapsed", MC_ELAPSED.format(upd=6, maxdays=3), workers="auto", tag="upd6")
    ctx.mc("MC_Elapsed", MC_ELAPSED.format(upd=4 if q else 12, maxdays=2 if q else 4), workers="auto", tag="upd_b", timeout=1800)
    ctx.mc("MC_BigInt", MC_BIGINT, workers="auto", tag="bigint")
    # normal-form carry/borrow/negate/from-units and truncating accessors for ALL integers with the real constant (Apalache)
    ctx.apalache("APA_ElapsedImpl", "NormalFormLaws")
    total = 40_000 if q else 1_200_000
    nshard = NCPU
    per = total // nshard
    parts = parallel_map(_gen, [(ctx.seed * 100 + k, per) for k in range(nshard)])
    for e in parts[0][:60]:
        if e["op"] in ("d_div", "d_mul", "i_plus", "o_from", "d_parts"):
            ctx.sample(e, cap=5)
    ops = {}
    for p in parts:
        for e in p:
            ops[e["op"]] = ops.get(e["op"], 0) + 1
    ctx.notes["events_by_op"] = ops
    ctx.distinct_nontrivial = len({(e["op"], str(e.get("a")), str(e.get("b")), str(e.get("k")), str(e.get("amt"))) for p in parts for e in p})

    def key_of(ev, clause):
        k = {"clause": clause, "op": ev["op"]}
        if "exc" in ev:
            k["exc"] = ev["exc"]
        return k

    ctx.validate("Trace_Elapsed", TRACE_CFG, None, shards=parts, key_of=key_of, ntraces=len(parts), heap="3g")
    ctx.rule = ("boundary-biased operands (sign changes, day boundaries +-1 ns, sub-tick/sub-microsecond remainders, range edges +-1, "
                "amounts far beyond 64 bit) through every public factory/operator/accessor route of Duration, Instant, Offset; "
                "non-trivial = distinct (op, operands)")
    ctx.assumptions += ["operands are constructed through the trusted normal-form constructors Duration._ctor / Instant._ctor",
                        "float-returning total_* accessors are checked to a relative error of 2^-50, not exactness"]


def replay(ctx, path):
    run(ctx)
