"""C05 - local date-times map to exactly the instants whose local rendering is that value."""
from __future__ import annotations

import random

from harness.core import Ctx, parallel_map
from harness.drivers import zonewalk
from harness.props.c04 import zone_ids

TRACE_CFG = "SPECIFICATION Spec\nCHECK_DEADLOCK FALSE\n"
MC_CFG = """SPECIFICATION Spec
CONSTANTS
  D = {D}
  T = {T}
  MaxTr = {maxtr}
INVARIANT AtMostTwo
INVARIANT AlgorithmIsDeclarative
"""
MC_NEG = """SPECIFICATION Spec
CONSTANTS
  D = 2
  T = 8
  MaxTr = 2
INVARIANT NeverThree
"""
ODD = ["Pacific/Apia", "Pacific/Kiritimati", "Pacific/Enderbury", "Australia/Lord_Howe", "Europe/Dublin", "Africa/Casablanca",
       "America/St_Johns", "Asia/Kathmandu", "Pacific/Kwajalein", "America/Juneau", "Asia/Manila", "Antarctica/Troll"]


def run(ctx: Ctx):
    q = ctx.quick
    rnd = random.Random(ctx.seed + 5)
    ctx.mc("MC_ZoneLocalMapping", MC_CFG.format(D=2, T=14, maxtr=2), workers="auto", tag="d2", timeout=1800)
    if not q:
        ctx.mc("MC_ZoneLocalMapping", MC_CFG.format(D=3, T=16, maxtr=2), workers="auto", tag="d3", timeout=3000)
        ctx.mc("MC_ZoneLocalMapping", MC_CFG.format(D=2, T=17, maxtr=3), workers="auto", tag="d2t3", timeout=3000)
    ctx.mc_expect_violation("MC_ZoneLocalMapping", MC_NEG, "Invariant NeverThree is violated", workers="auto", tag="neg")
    ids = zone_ids()
    odd = [z for z in ODD if z in ids]
    if q:
        chosen = rnd.sample(ids, 50) + odd
        tasks = [(z, 1900, 2040, ctx.seed, 40) for z in chosen] + [(z, -9998, 1900, ctx.seed, 0) for z in odd] \
            + [(z, 9990, 9999, ctx.seed, 0) for z in rnd.sample(ids, 20)]
    else:
        tasks = [(z, -9998, 2100, ctx.seed, 0) for z in ids] + [(z, 2100, 9999, ctx.seed, 300) for z in ids]
    # zones with one transition on the first and on the last days of time (and one in the middle), gaps and overlaps, small and whole-day
    # (only those whose local times around the transition all lie inside the calendar: a result beyond the last day has to raise,
    #  which is another matter)
    singles = [f"single:{day}:{sod}:{b}:{a}" for day in (2932896, 2932895, -4371222, -4371221, 19000)
               for sod in (43200, 3600, 82800) for (b, a) in ((0, 3600), (3600, 0), (-36000, 50400), (7200, -3600))
               if not (day >= 2932895 and ((b, a) == (-36000, 50400) or sod == 82800)) and not (day <= -4371221 and (sod != 43200 or b > a))]
    tasks += [(z, -9998, 9999, ctx.seed, 0) for z in (rnd.sample(singles, 12) if q else singles)]
    rnd.shuffle(tasks)
    res = parallel_map(zonewalk.map_events, tasks)
    nm = sum(1 for r in res for e in r if e["op"] == "map")
    ctx.notes["zones"] = len({t[0] for t in tasks})
    ctx.notes["local_times_mapped"] = nm
    ctx.notes["by_count"] = {str(c): sum(1 for r in res for e in r if e["op"] == "map" and e["count"] == c) for c in (0, 1, 2)}
    ctx.distinct_nontrivial = sum(1 for r in res for e in r if e["op"] == "map" and e["count"] != 1)
    for r in res:
        for e in r:
            if e["op"] == "map" and e["count"] in (0, 2):
                ctx.sample({k: v for k, v in e.items() if k != "win"} | {"win_len": len(e["win"])}, cap=4)
                break
    shards, curr = [], []
    for r in res:
        if len(curr) + len(r) > 6000 and curr:
            shards.append(curr)
            curr = []
        curr.extend(r)
    if curr:
        shards.append(curr)

    def key_of(ev, clause):
        return {"clause": clause, "op": ev["op"], **({"count": ev.get("count")} if ev["op"] == "map" else {})}

    rej = ctx.validate("Trace_Zone", TRACE_CFG, None, shards=shards, key_of=key_of, ntraces=len(tasks), heap="4g")
    for r in rej:
        if r.shard is not None and r.event is not None:
            sh = shards[r.shard]
            i = sh.index(r.event)
            while i >= 0 and sh[i]["op"] != "zone":
                i -= 1
            if i >= 0:
                r.key["zone"] = sh[i]["id"]
    ctx.rule = ("for each chosen zone and each transition in the year window: local times at transition+wall_before/after "
                "+ {0, +-1 ns, +-1 s, +-gap/2, +-gap, +-gap-1, +-1 day, random}, some in non-ISO calendars; map_local count/early/late/"
                "first/last/single, strict and lenient resolvers, and the reverse rendering; non-trivial = a local time with 0 or 2 results")


def replay(ctx, path):
    run(ctx)
