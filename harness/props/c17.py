"""C17 - ISO patterns interoperate with other ISO-8601 implementations (the standard library)."""
from __future__ import annotations

import datetime as dt
import random

from harness import proj
from harness.core import Ctx, cps, parallel_map

TRACE_CFG = "SPECIFICATION Spec\nCHECK_DEADLOCK FALSE\n"
MC_CFG = "SPECIFICATION Spec\nINVARIANT TimeLaws\nINVARIANT OffsetLaws\n"
NPD = proj.NPD


def gen(args) -> list:
    seed, n, ord_lo, ord_hi = args
    from pyoda_time import Instant, LocalDate, LocalDateTime, LocalTime, Offset
    from pyoda_time.text import InstantPattern, LocalDatePattern, LocalDateTimePattern, LocalTimePattern, OffsetPattern

    rnd = random.Random(seed)
    evs = []
    # the built-in ISO patterns are the same whatever culture the thread that first touches them runs under: some workers
    # (fresh processes, nothing touched yet) switch their current culture before anything else
    ambient = {1: "fi-FI", 2: "da-DK", 3: "ar-SA", 4: "fa-IR"}.get(seed % 29)       # (seed = 29 * run seed + worker number)
    if ambient:
        try:
            from pyoda_time._compatibility._culture_info import CultureInfo

            CultureInfo.current_culture = CultureInfo(ambient)
        except Exception:  # noqa: BLE001 - this build has no such culture: run as usual
            pass

    def rnod():
        c = rnd.random()
        if c < 0.3:
            return rnd.randrange(86400) * 10**9
        if c < 0.5:
            return rnd.randrange(86400) * 10**9 + rnd.choice([1, 10, 100, 1000, 120_000_000, 999_999_999, 500_000_000, 999_999_000, 1000_000 * rnd.randint(1, 999)])
        return rnd.choice([0, NPD - 1, rnd.randrange(NPD)])

    def guarded(ev, fn):
        try:
            fn()
        except Exception as e:  # noqa: BLE001
            ev["exc"] = type(e).__name__
        return ev

    # dates: a contiguous block of ordinals
    for o in range(ord_lo, ord_hi):
        sd = dt.date.fromordinal(o)
        ev = {"op": "date", "value": [sd.year, sd.month, sd.day]}

        def body(ev=ev, sd=sd):
            ld = LocalDate(sd.year, sd.month, sd.day)
            # month ends are also arrived at by month arithmetic from a longer month (31 December plus two months is the last day of
            # February): the same date, however it was arrived at
            import calendar as _cal

            last = sd.day == _cal.monthrange(sd.year, sd.month)[1]
            if last and sd.year > 1 and sd.month in (2, 4, 6, 9, 11) and (sd.toordinal() % 2 == 0):
                # from 31 December of the year before, or from 31 January of the same year
                ld = LocalDate(sd.year - 1, 12, 31).plus_months(sd.month) if sd.toordinal() % 4 == 0 else LocalDate(sd.year, 1, 31).plus_months(sd.month - 1)
            text = LocalDatePattern.iso.format(ld)
            ev["text"] = cps(text)
            r = dt.date.fromisoformat(text)
            ev["std_read"], ev["std_expect"] = [r.year, r.month, r.day], ev["value"]
            p = LocalDatePattern.iso.parse(sd.isoformat()).value
            ev["pyoda_read_std"] = [p.year, p.month, p.day]

        evs.append(guarded(ev, body))
    # years the standard library cannot express (<= 0): the documented form is a sign and a four-digit magnitude; own text parses back
    for _ in range(max(20, n // 40)):
        y = rnd.choice([0, -1, -9, -10, -99, -100, -999, -1000, -9998, rnd.randint(-9998, 0)])
        m, d = rnd.randint(1, 12), rnd.randint(1, 28)
        nod = rnod()
        which = rnd.choice(["date", "datetime", "instant"])
        ev = {"op": which, "value": [y, m, d] if which == "date" else [y, m, d, nod // 10**9, nod % 10**9]}

        def body(ev=ev, which=which, y=y, m=m, d=d, nod=nod):
            ld = LocalDate(y, m, d)
            if which == "date":
                pat, v = LocalDatePattern.iso, ld
                back = lambda x: [x.year, x.month, x.day]  # noqa: E731
            elif which == "datetime":
                pat, v = LocalDateTimePattern.extended_iso, ld.at(LocalTime.from_nanoseconds_since_midnight(nod))
                back = lambda x: [x.year, x.month, x.day, x.nanosecond_of_day // 10**9, x.nanosecond_of_day % 10**9]  # noqa: E731
            else:
                pat, v = InstantPattern.extended_iso, ld.at(LocalTime.from_nanoseconds_since_midnight(nod)).in_utc().to_instant()
                back = lambda x: (lambda u: [u.year, u.month, u.day, u.nanosecond_of_day // 10**9, u.nanosecond_of_day % 10**9])(x.in_utc().local_date_time)  # noqa: E731
            text = pat.format(v)
            ev["text"] = cps(text)
            ev["pyoda_read_own"] = back(pat.parse(text).value)

        evs.append(guarded(ev, body))
    for _ in range(n):
        c = rnd.random()
        if c < 0.3:
            nod = rnod()
            lt = LocalTime.from_nanoseconds_since_midnight(nod)
            if rnd.random() < 0.12:
                # the same time of day as the result of arithmetic (often landing exactly on midnight): a time of day is what it is
                # however it was arrived at
                x = rnd.randrange(1, NPD)
                if rnd.random() < 0.6:
                    nod = 0
                k = (nod - x) % NPD
                try:
                    lt = rnd.choice([lambda: LocalTime.from_nanoseconds_since_midnight(x).plus_nanoseconds(k if k else NPD),
                                     lambda: LocalTime.from_nanoseconds_since_midnight(x).plus_nanoseconds(k + NPD),
                                     lambda: LocalTime(12, 0).plus_hours(12) if nod == 0 else LocalTime.from_nanoseconds_since_midnight(x).plus_nanoseconds(k),
                                     lambda: LocalTime(23, 59, 59).plus_seconds(1) if nod == 0 else LocalTime.from_nanoseconds_since_midnight(x).plus_nanoseconds(k)])()
                except Exception:  # noqa: BLE001
                    lt = LocalTime.from_nanoseconds_since_midnight(nod)
            long_form = rnd.random() < 0.3
            ev = {"op": "time_long" if long_form else "time", "value": [nod // 10**9, nod % 10**9]}

            def body(ev=ev, lt=lt, nod=nod, long_form=long_form):
                pat = LocalTimePattern.long_extended_iso if long_form else LocalTimePattern.extended_iso
                text = pat.format(lt)
                ev["text"] = cps(text)
                r = dt.time.fromisoformat(text)
                us = (nod % 10**9) // 1000
                ev["std_read"], ev["std_expect"] = [r.hour * 3600 + r.minute * 60 + r.second, r.microsecond], [nod // 10**9, us]
                back = pat.parse(text).value
                ev["pyoda_read_own"] = [back.nanosecond_of_day // 10**9, back.nanosecond_of_day % 10**9]
                if nod % 1000 == 0 and not long_form:
                    st = dt.time(lt.hour, lt.minute, lt.second, us)
                    p = LocalTimePattern.extended_iso.parse(st.isoformat()).value
                    ev["pyoda_read_std"] = [p.nanosecond_of_day // 10**9, p.nanosecond_of_day % 10**9]

            evs.append(guarded(ev, body))
        elif c < 0.42:
            # the reduced-precision and variable-precision built-ins of LocalTime / LocalDateTime / Instant
            form = rnd.choice(["general", "hm", "h", "var", "var"])
            kind = rnd.choice(["time", "datetime", "instant"]) if form in ("general",) else rnd.choice(["time", "datetime"])
            nod = rnod()
            cc = rnd.random()
            if form == "var":
                # which form is chosen depends on which fields are zero: minute- and hour-aligned times carrying nothing, a
                # sub-microsecond, a sub-millisecond or a larger fraction, or whole seconds
                unit0 = rnd.choice([60 * 10**9, 3600 * 10**9])
                extra = rnd.choice([0, 0, 1, 999, 1000, 999_999, 10**6, 5 * 10**8, 10**9, 59 * 10**9, rnd.randrange(10**9)])
                nod = nod if cc < 0.3 else min((nod // unit0) * unit0 + extra, NPD - 1)
            # what the form keeps of the value (the rest is not written; only values it keeps entirely are read back)
            unit = {"general": 10**9, "hm": 60 * 10**9, "h": 3600 * 10**9, "var": 1}[form]
            kept = (nod // unit) * unit
            sd = dt.date.fromordinal(rnd.choice([1, dt.date.max.toordinal(), rnd.randint(1, dt.date.max.toordinal())]))
            val = [nod // 10**9, nod % 10**9] if kind == "time" else [sd.year, sd.month, sd.day, nod // 10**9, nod % 10**9]
            ev = {"op": kind + "_form", "form": form, "value": val}

            def body(ev=ev, kind=kind, form=form, nod=nod, kept=kept, sd=sd):
                lt = LocalTime.from_nanoseconds_since_midnight(nod)
                if kind == "time":
                    pat = {"general": LocalTimePattern.general_iso, "hm": LocalTimePattern.hour_minute_iso, "h": LocalTimePattern.hour_iso,
                           "var": LocalTimePattern.variable_precision_iso}[form]
                    v = lt
                    proj_v = lambda x: [x.nanosecond_of_day // 10**9, x.nanosecond_of_day % 10**9]  # noqa: E731
                elif kind == "datetime":
                    pat = {"general": LocalDateTimePattern.general_iso, "hm": LocalDateTimePattern.date_hour_minute_iso,
                           "h": LocalDateTimePattern.date_hour_iso, "var": LocalDateTimePattern.variable_precision_iso}[form]
                    v = LocalDate(sd.year, sd.month, sd.day).at(lt)
                    proj_v = lambda x: [x.year, x.month, x.day, x.nanosecond_of_day // 10**9, x.nanosecond_of_day % 10**9]  # noqa: E731
                else:
                    pat = InstantPattern.general
                    v = Instant._ctor(days=sd.toordinal() - 719163, nano_of_day=nod)
                    proj_v = lambda x: (lambda u: [u.year, u.month, u.day, u.nanosecond_of_day // 10**9, u.nanosecond_of_day % 10**9])(x.in_utc().local_date_time)  # noqa: E731
                text = pat.format(v)
                ev["text"] = cps(text)
                ks, kus = kept // 10**9, (kept % 10**9) // 1000
                if kind == "time":
                    r = dt.time.fromisoformat(text)
                    ev["std_read"], ev["std_expect"] = [r.hour * 3600 + r.minute * 60 + r.second, r.microsecond], [ks, kus]
                else:
                    r = dt.datetime.fromisoformat(text)
                    ev["std_read"] = [r.year, r.month, r.day, r.hour * 3600 + r.minute * 60 + r.second, r.microsecond]
                    ev["std_expect"] = [sd.year, sd.month, sd.day, ks, kus]
                if kept == nod:
                    ev["pyoda_read_own"] = proj_v(pat.parse(text).value)
                    if nod % 1000 == 0 and form in ("general", "var"):
                        s0 = nod // 10**9
                        if kind == "time":
                            std_text = dt.time(s0 // 3600, (s0 % 3600) // 60, s0 % 60, kus).isoformat()
                        else:
                            std_text = dt.datetime(sd.year, sd.month, sd.day, s0 // 3600, (s0 % 3600) // 60, s0 % 60, kus).isoformat() + ("Z" if kind == "instant" else "")
                        ev["pyoda_read_std"] = proj_v(pat.parse(std_text).value)

            evs.append(guarded(ev, body))
        elif c < 0.6:
            sd = dt.date.fromordinal(rnd.choice([1, dt.date.max.toordinal(), rnd.randint(1, dt.date.max.toordinal())]))
            nod = rnod()
            ev = {"op": "datetime", "value": [sd.year, sd.month, sd.day, nod // 10**9, nod % 10**9]}

            def body(ev=ev, sd=sd, nod=nod):
                ldt = LocalDate(sd.year, sd.month, sd.day).at(LocalTime.from_nanoseconds_since_midnight(nod))
                text = LocalDateTimePattern.extended_iso.format(ldt)
                ev["text"] = cps(text)
                r = dt.datetime.fromisoformat(text)
                us = (nod % 10**9) // 1000
                ev["std_read"] = [r.year, r.month, r.day, r.hour * 3600 + r.minute * 60 + r.second, r.microsecond]
                ev["std_expect"] = [sd.year, sd.month, sd.day, nod // 10**9, us]
                if nod % 1000 == 0:
                    s = nod // 10**9
                    st = dt.datetime(sd.year, sd.month, sd.day, s // 3600, (s % 3600) // 60, s % 60, us)
                    p = LocalDateTimePattern.extended_iso.parse(st.isoformat()).value
                    ev["pyoda_read_std"] = [p.year, p.month, p.day, p.nanosecond_of_day // 10**9, p.nanosecond_of_day % 10**9]

            evs.append(guarded(ev, body))
        elif c < 0.8:
            sd = dt.date.fromordinal(rnd.choice([1, dt.date.max.toordinal(), rnd.randint(1, dt.date.max.toordinal())]))
            nod = rnod()
            ev = {"op": "instant", "value": [sd.year, sd.month, sd.day, nod // 10**9, nod % 10**9]}

            def body(ev=ev, sd=sd, nod=nod):
                inst = Instant._ctor(days=sd.toordinal() - 719163, nano_of_day=nod)
                text = InstantPattern.extended_iso.format(inst)
                ev["text"] = cps(text)
                r = dt.datetime.fromisoformat(text)
                us = (nod % 10**9) // 1000
                ev["std_read"] = [r.year, r.month, r.day, r.hour * 3600 + r.minute * 60 + r.second, r.microsecond, int(r.utcoffset().total_seconds())]
                ev["std_expect"] = [sd.year, sd.month, sd.day, nod // 10**9, us, 0]
                back = InstantPattern.extended_iso.parse(text).value
                ev["pyoda_read_own"] = ev["value"] if back == inst else [0]
                if nod % 1000 == 0:
                    s = nod // 10**9
                    st = dt.datetime(sd.year, sd.month, sd.day, s // 3600, (s % 3600) // 60, s % 60, us, tzinfo=dt.timezone.utc)
                    p = InstantPattern.extended_iso.parse(st.isoformat().replace("+00:00", "Z")).value
                    ev["pyoda_read_std"] = ev["value"] if p == inst else [0]

            evs.append(guarded(ev, body))
        else:
            sec = rnd.choice([0, 3600, -3600, 19800, 64800, -64800, rnd.randint(-1080, 1080) * 60, rnd.randint(-1080, 1080) * 60])
            z = rnd.random() < 0.5
            ev = {"op": "offset", "value": [sec], "z": z}

            def body(ev=ev, sec=sec, z=z):
                off = Offset.from_seconds(sec)
                pat = OffsetPattern.general_invariant_with_z if z else OffsetPattern.general_invariant
                text = pat.format(off)
                ev["text"] = cps(text)
                r = dt.datetime.fromisoformat("2020-01-01T00:00:00" + text)
                ev["std_read"], ev["std_expect"] = [int(r.utcoffset().total_seconds())], [sec]
                ev["pyoda_read_own"] = [pat.parse(text).value.seconds]
                std_text = dt.datetime(2020, 1, 1, tzinfo=dt.timezone(dt.timedelta(seconds=sec))).isoformat()[19:]
                ev["pyoda_read_std"] = [pat.parse(std_text).value.seconds]

            evs.append(guarded(ev, body))
    return evs


def run(ctx: Ctx):
    q = ctx.quick
    rnd = random.Random(ctx.seed + 17)
    ctx.mc("MC_Iso8601", MC_CFG, workers=4, tag="gen")
    max_ord = dt.date.max.toordinal()
    if q:
        blocks = [(1, 1200), (max_ord - 1200, max_ord + 1)] + [(b, b + 1200) for b in [rnd.randint(1, max_ord - 1200) for _ in range(14)]]
    else:
        step = (max_ord + 16) // 16
        blocks = [(1 + k * step, min(1 + (k + 1) * step, max_ord + 1)) for k in range(16)]
    total = 30_000 if q else 1_000_000
    parts = parallel_map(gen, [(ctx.seed * 29 + k, total // 16, blocks[k][0], blocks[k][1]) for k in range(16)])
    for e in parts[0][1300:1600]:
        if e["op"] in ("time", "instant", "offset"):
            ctx.sample({k: (bytes(v).decode() if k == "text" else v) for k, v in e.items()}, cap=4)
    ctx.distinct_nontrivial = sum(len(p) for p in parts)

    def key_of(ev, clause):
        k = {"clause": clause, "op": ev["op"]}
        if "exc" in ev:
            k["exc"] = ev["exc"]
        return k

    ctx.validate("Trace_Iso", TRACE_CFG, None, shards=parts, key_of=key_of, ntraces=len(parts))
    ctx.rule = ("dates (" + ("both range ends + 14 random blocks of 1200 consecutive dates" if q else "every date of years 1-9999")
                + "), times to nanosecond precision (short and nine-digit forms), date-times and instants at range ends and random, offsets of "
                "whole minutes within +-18h (with and without Z); each value: pyoda text = Iso(value), stdlib fromisoformat(text) = value "
                "(to microseconds), pyoda parse of stdlib isoformat() = value; non-trivial = every event")
    ctx.assumptions += ["the independent reader is Python 3.12's datetime.fromisoformat, which truncates fractions beyond microseconds"]


def replay(ctx, path):
    run(ctx)
