"""C19 - clocks follow their simple model under any sequence of operations.

spec:   conc/Clock.tla (trivial model), conc/FakeClockImpl.tla (line-level implementation model)
MC:     mc/MC_FakeClock (2 threads x 2 ops, all interleavings; liveness; negative configs)
C->S:   sequential op sequences on the real FakeClock / ZonedClock / SystemClock -> Trace_Clock
S->C:   TLC behaviours (programs + thread schedules) enforced on real threads -> Trace_ClockLin
        free-running 16-thread histories -> Trace_ClockLin
"""
from __future__ import annotations

import glob
import random
import threading
import time

from harness import proj
from harness.core import Ctx, run_tlc
from harness.sched import LineScheduler
from harness.tlaval import parse_behaviour

MC_CFG = """SPECIFICATION Spec
CONSTANTS
  Threads = {{{threads}}}
  Amounts <- MCAmounts
  Instants <- MCInstants
  ProgLen = {proglen}
  NestedLock = {nested}
  UseLock = {uselock}
  Auto0 = {auto0}
  ReadsOnly = {readsonly}
{view}
{props}
"""

TRACE_CFG = "SPECIFICATION Spec\nCHECK_DEADLOCK FALSE\n"

UNITS = ["nanoseconds", "ticks", "milliseconds", "seconds", "minutes", "hours", "days"]


def mc_cfg(threads="t1, t2", proglen=2, nested="FALSE", uselock="TRUE", auto0=1, readsonly="FALSE", live=False,
           view=True, invs=("ModelConformance", "DistinctReads", "TypeOK")):
    props = "\n".join(f"INVARIANT {i}" for i in invs)
    if live:
        props += "\nPROPERTY Termination"
    return MC_CFG.format(threads=threads, proglen=proglen, nested=nested, uselock=uselock, auto0=auto0,
                         readsonly=readsonly, view="VIEW View" if view else "", props=props)


# ---------------------------------------------------------------------------------------------
def _mk_instant(ns: int):
    from pyoda_time import Duration, Instant

    return Instant.from_unix_time_ticks(0) + Duration.from_nanoseconds(ns)


def _call(fn, watchdog_s=5.0):
    """Run fn() under a watchdog; returns ('ok', value) | ('exc', name) | ('exc', 'HANG')."""
    box = {}

    def body():
        try:
            box["v"] = ("ok", fn())
        except BaseException as e:  # noqa: BLE001 - the class is what is logged
            box["v"] = ("exc", type(e).__name__)

    th = threading.Thread(target=body, daemon=True)
    th.start()
    th.join(watchdog_s)
    if th.is_alive():
        return ("exc", "HANG")
    return box["v"]


def sequential_traces(ctx: Ctx, rnd: random.Random, ntraces: int, maxlen: int) -> list:
    from pyoda_time import CalendarSystem, DateTimeZone, Duration, Instant, Offset, ZonedClock
    from pyoda_time.testing import FakeClock

    events = []
    edge_ns = [0, 1, -1, 86_400 * 10**9, -86_400 * 10**9, 10**9 - 1, 86_400 * 10**9 - 1]
    imin = proj.ns_from_t3(proj.t3_instant(Instant.min_value))
    imax = proj.ns_from_t3(proj.t3_instant(Instant.max_value))

    def rnd_ns(big=False):
        c = rnd.random()
        if c < 0.3:
            return rnd.choice(edge_ns)
        if c < 0.6:
            return rnd.randint(-10**12, 10**12)
        if c < 0.8 or not big:
            return rnd.randint(-10**20, 10**20)
        return rnd.choice([imin, imax, imax - imin, imin - imax]) + rnd.randint(-3, 3)

    def rnd_instant():
        c = rnd.random()
        if c < 0.2:
            # an instant that is exactly (or 1 ns off) local midnight at one of the offsets the zoned reads below use
            off = rnd.choice([0, 3600, -3600, 64800, -64800, 19800])
            ns = rnd.randint(imin // proj.NPD + 2, imax // proj.NPD - 2) * proj.NPD + (-off * 10**9) % proj.NPD + rnd.choice([-1, 0, 0, 0, 1])
            return ns
        if c < 0.3:
            return imin + rnd.randint(0, 5)
        if c < 0.4:
            return imax - rnd.randint(0, 5)
        return rnd.randint(imin, imax)

    hung = False
    for t in range(ntraces):
        if hung:
            break
        i0, a0 = rnd_instant(), (0 if rnd.random() < 0.3 else rnd_ns())
        if rnd.random() < 0.2:
            # the other public way of making one: FakeClock.from_utc(fields), no auto-advance
            import datetime as _dt

            base = _dt.datetime(1, 1, 1) + _dt.timedelta(seconds=rnd.randrange(0, 9998 * 365 * 86400))
            f = rnd.choice([(base.year, base.month, base.day), (base.year, base.month, base.day, base.hour, base.minute),
                            (base.year, base.month, base.day, base.hour, base.minute, base.second or 30)])
            clock = FakeClock.from_utc(*f)
            full = list(f) + [0] * (6 - len(f))
            i0 = ((_dt.date(full[0], full[1], full[2]).toordinal() - 719163) * 86400 + full[3] * 3600 + full[4] * 60 + full[5]) * 10**9
            a0 = 0
        else:
            clock = FakeClock(_mk_instant(i0), Duration.from_nanoseconds(a0))
        events.append({"op": "init", "t": t, "now": proj.t3_from_ns(i0), "auto": proj.t3_from_ns(a0)})
        kept_zoned: dict = {}
        # some traces keep one real zone for all their ZonedClock reads and move the clock by whole turns of that zone's
        # interval cache in between (the zone object is shared by everything in the process: its cache has a history)
        trace_zone = rnd.choice(["Europe/London", "America/New_York", "Australia/Lord_Howe", "Asia/Tehran", "America/Sao_Paulo"]) if rnd.random() < 0.35 else None
        trace_cal = rnd.choice(["ISO", "ISO", "Gregorian", "Julian", "Coptic"])
        for _ in range(rnd.randint(1, maxlen)):
            c = rnd.random()
            if trace_zone is not None:
                c = rnd.choice([c, 0.5, 0.99])       # more cache-turn advances and zoned reads in these traces
            ev = {"t": t}
            if c < 0.35:
                ev["op"] = "read"
                r = _call(clock.get_current_instant)
                if r[0] == "ok":
                    ev["res"] = proj.t3_instant(r[1])
            elif c < 0.45:
                ev["op"] = "advance"
                ns = rnd_ns(big=True)
                ev["d"] = proj.t3_from_ns(ns)
                d = Duration.from_nanoseconds(ns)
                r = _call(lambda: clock.advance(d))
            elif c < 0.7:
                unit = rnd.choice(UNITS)
                ev["op"], ev["unit"] = "advance_unit", unit
                per = {**proj.UNIT_PER_SEC, **proj.UNIT_PER_DAY}[unit]
                scale = proj.NPD // (per if unit in proj.UNIT_PER_DAY else 1) if unit in proj.UNIT_PER_DAY else 10**9 // per
                k = rnd_ns(big=True) // max(scale, 1) if rnd.random() < 0.8 else rnd.randint(-5, 5)
                if trace_zone is not None and c == 0.5:
                    unit = "days"
                    ev["unit"] = unit
                    per = proj.UNIT_PER_DAY[unit]
                if unit == "days" and (rnd.random() < 0.3 or trace_zone is not None):
                    k = rnd.choice([-2, -1, 1, 2]) * 16384     # one turn of the 512 x 32-day zone-interval cache
                if rnd.random() < 0.03:
                    k = rnd.choice([-1, 1]) * 10 ** rnd.randint(25, 40)
                digs = proj.amount_digits(unit, k)
                if digs is None:
                    ev["huge"] = True
                else:
                    ev["amt"] = digs
                ev["k"] = str(k)
                m = getattr(clock, "advance_" + unit)
                r = _call(lambda: m(k), watchdog_s=3.0)
            elif c < 0.78:
                ev["op"] = "reset"
                ns = rnd_instant()
                ev["i"] = proj.t3_from_ns(ns)
                inst = _mk_instant(ns)
                r = _call(lambda: clock.reset(inst))
            elif c < 0.88:
                ev["op"] = "set_auto"
                ns = rnd_ns()
                ev["d"] = proj.t3_from_ns(ns)
                d = Duration.from_nanoseconds(ns)

                def _set():
                    clock.auto_advance = d

                r = _call(_set)
            elif c < 0.93:
                ev["op"] = "get_auto"
                r = _call(lambda: clock.auto_advance)
                if r[0] == "ok":
                    ev["res"] = proj.t3_duration(r[1])
            else:
                # ZonedClock over this fake clock: fixed-offset zone, some calendar
                off = rnd.choice([0, 3600, -3600, 64800, -64800, 19800, rnd.randint(-64800, 64800)])
                cal = rnd.choice(list(CalendarSystem.ids)) if trace_zone is None else trace_cal
                zone = DateTimeZone.for_offset(Offset.from_seconds(off))
                if trace_zone is not None or rnd.random() < 0.2:
                    # a real zone: the offset is the one the zone has at the instant the wrapped clock is about to return; the
                    # reference is the zone underneath the provider's interval cache (the cache has its own history)
                    from pyoda_time import DateTimeZoneProviders
                    from harness.drivers.zonewalk import t3i as _t3i

                    zone = DateTimeZoneProviders.tzdb[trace_zone or rnd.choice(["Europe/London", "America/New_York", "Australia/Lord_Howe", "Asia/Tehran", "America/Sao_Paulo"])]
                    try:
                        nowi = getattr(clock, "_FakeClock__now")
                        riv = getattr(zone, "_CachedDateTimeZone__time_zone", zone).get_zone_interval(nowi)
                        off = riv.wall_offset.seconds
                        ev["iv"] = {"start": _t3i(riv._raw_start), "end": _t3i(riv._raw_end), "wall": off}
                        ev["peek"] = proj.t3_instant(nowi)       # the value the reference interval was looked up for
                    except Exception:  # noqa: BLE001
                        zone = DateTimeZone.for_offset(Offset.from_seconds(off))
                if "iv" not in ev and rnd.random() < 0.3:
                    # put the clock on (or 1 ns around) local midnight of this offset first: the date carry of the rendering is exact there
                    ns0 = rnd.randint(imin // proj.NPD + 2, imax // proj.NPD - 2) * proj.NPD + (-off * 10**9) % proj.NPD + rnd.choice([-1, 0, 0, 0, 1])
                    clock.reset(_mk_instant(ns0))
                    events.append({"t": t, "op": "reset", "i": proj.t3_from_ns(ns0)})
                # three ways to the same ZonedClock: the constructor, IClock.in_zone, and (UTC + ISO only) IClock.in_utc
                zroute = rnd.randrange(3)
                if zroute == 2 and "iv" not in ev and rnd.random() < 0.5:
                    off, cal, zone = 0, "ISO", DateTimeZone.utc
                    zc = clock.in_utc()
                elif (zone.id, cal) in kept_zoned and rnd.random() < 0.7:
                    zc = kept_zoned[(zone.id, cal)]         # the same ZonedClock object as earlier in this trace (the clock may have gone back since)
                elif zroute >= 1:
                    zc = clock.in_zone(zone, CalendarSystem.for_id(cal))
                    kept_zoned[(zone.id, cal)] = zc
                else:
                    zc = ZonedClock(clock, zone, CalendarSystem.for_id(cal))
                    kept_zoned[(zone.id, cal)] = zc
                ev.update(op="zoned", offset=off, cal=cal, zone=zone.id, zroute=zroute)

                getter = rnd.choice(["get_current_zoned_date_time", "get_current_offset_date_time", "get_current_local_date_time",
                                     "get_current_date", "get_curent_time_of_day", "get_current_instant"])
                ev["getter"] = getter

                def _z():
                    return getattr(zc, getter)()

                r = _call(_z)
                if r[0] == "ok":
                    v = r[1]
                    # which parts this getter exposes: instant / local day / local time of day / offset / calendar / zone
                    ev.update(has_instant=False, has_day=False, has_time=False, has_meta=False,
                              instant=[0, 0, 0], local=[0, 0, 0], got_offset=off, got_cal=cal, got_zone=zone.id)
                    if getter == "get_current_instant":
                        ev.update(has_instant=True, instant=proj.t3_instant(v))
                    elif getter in ("get_current_zoned_date_time", "get_current_offset_date_time"):
                        ldt = v.local_date_time
                        nod = ldt.nanosecond_of_day
                        ev.update(has_instant=True, has_day=True, has_time=True, has_meta=True, instant=proj.t3_instant(v.to_instant()),
                                  local=[ldt.date._days_since_epoch, nod // proj.NPS, nod % proj.NPS],
                                  got_offset=v.offset.seconds, got_cal=v.calendar.id,
                                  got_zone=v.zone.id if getter == "get_current_zoned_date_time" else zone.id)
                    elif getter == "get_current_local_date_time":
                        nod = v.nanosecond_of_day
                        ev.update(has_day=True, has_time=True, local=[v.date._days_since_epoch, nod // proj.NPS, nod % proj.NPS],
                                  got_cal=v.calendar.id)
                    elif getter == "get_current_date":
                        ev.update(has_day=True, local=[v._days_since_epoch, 0, 0], got_cal=v.calendar.id)
                    else:
                        nod = v.nanosecond_of_day
                        ev.update(has_time=True, local=[0, nod // proj.NPS, nod % proj.NPS])
                else:
                    # rendering failed (range end): not a clock operation; drop the event, re-sync model
                    ev = {"t": t, "op": "reset", "i": proj.t3_from_ns(i0)}
                    clock.reset(_mk_instant(i0))
                    r = ("ok", None)
            if r[0] == "exc":
                ev["exc"] = r[1]
                if r[1] == "HANG":
                    events.append(ev)
                    hung = True  # the clock's lock is now held forever; stop driving this process
                    break
            events.append(ev)
    return events


def system_clock_events(n: int) -> list:
    from pyoda_time import SystemClock

    evs = []
    # the operating-system clock may be stepped (NTP, manual change, VM resume): replace the OS time source by a stepping one
    # and require the reported instant to follow it (the source is what "operating-system time" means to the process)
    real = time.time_ns
    try:
        for step in (0, 3600 * 10**9, -86400 * 10**9, 123456789, 0):
            base = real() + step
            time.time_ns = lambda base=base: base
            i = SystemClock.instance.get_current_instant()
            evs.append({"op": "sys", "before": proj.t3_from_ns(base - base % 100), "res": proj.t3_instant(i), "after": proj.t3_from_ns(base), "stepped": step})
    finally:
        time.time_ns = real
    for _ in range(n):
        b = time.time_ns()
        i = SystemClock.instance.get_current_instant()
        a = time.time_ns()
        # the clock is documented to tick-precision: compare at tick granularity (floor both brackets)
        evs.append({"op": "sys", "before": proj.t3_from_ns(b - b % 100), "res": proj.t3_instant(i), "after": proj.t3_from_ns(a)})
    return evs


# ---------------------------------------------------------------------------------------------
FILES = ("pyoda_time/testing/_fake_clock.py",)


def _history_from(program: dict, schedule: list, auto0: int, scale: int, unit_of) -> dict:
    """Run one TLC behaviour (program per thread + schedule) on real threads; return the history."""
    from pyoda_time import Duration
    from pyoda_time.testing import FakeClock

    names = sorted(program)
    clock = FakeClock(_mk_instant(0), Duration.from_nanoseconds(auto0 * scale))
    sch = LineScheduler(FILES)
    ops_log: list = []
    lock = threading.Lock()

    def body(tn):
        def fn(s):
            for name, arg in program[tn]:
                ev = {"thr": tn, "op": name}
                if name == "read":
                    f = clock.get_current_instant
                elif name == "advance":
                    ev["d"] = proj.t3_from_ns(arg * scale)
                    d = Duration.from_nanoseconds(arg * scale)
                    f = lambda d=d: clock.advance(d)  # noqa: E731
                elif name == "advance_unit":
                    unit = unit_of(arg)
                    k = arg * scale if unit == "nanoseconds" else arg
                    ev.update(unit=unit, amt=proj.amount_digits(unit, k))
                    m = getattr(clock, "advance_" + unit)
                    f = lambda m=m, k=k: m(k)  # noqa: E731
                elif name == "reset":
                    ev["i"] = proj.t3_from_ns(arg * scale)
                    inst = _mk_instant(arg * scale)
                    f = lambda inst=inst: clock.reset(inst)  # noqa: E731
                elif name == "set_auto":
                    ev["d"] = proj.t3_from_ns(arg * scale)
                    d = Duration.from_nanoseconds(arg * scale)

                    def f(d=d):
                        clock.auto_advance = d
                else:
                    f = lambda: clock.auto_advance  # noqa: E731
                ev["start"] = s.stamp()
                with lock:
                    ops_log.append(ev)
                try:
                    v = f()
                    if name == "read":
                        ev["res"] = proj.t3_instant(v)
                    elif name == "get_auto":
                        ev["res"] = proj.t3_duration(v)
                except BaseException as e:  # noqa: BLE001
                    ev["exc"] = type(e).__name__
                ev["end"] = s.stamp()

        return fn

    hung = sch.run([body(tn) for tn in names], [names.index(t) for t in schedule if t in names])
    with lock:
        ops = [dict(e) for e in ops_log]
    for e in ops:
        if "end" not in e:
            e["exc"] = "HANG"
            e["end"] = 10**9
    reads_only = all(e["op"] == "read" for e in ops)
    return {"now": proj.t3_from_ns(0), "auto": proj.t3_from_ns(auto0 * scale), "ops": ops, "reads_only": reads_only,
            "hung": bool(hung)}


def tlc_behaviours(ctx: Ctx, cfg: str, num: int, depth: int, seed: int, tag: str) -> list:
    simdir = ctx.workdir / f"sim_{tag}"
    simdir.mkdir(parents=True, exist_ok=True)
    r = run_tlc("MC_FakeClock", cfg, workdir=ctx.workdir, mode="simulate", workers=1,
                simulate=f"file={simdir}/tr,num={num}", depth=depth, seed=seed, tag=tag, timeout=600)
    r.ok = r.ok or "Error:" not in r.out
    ctx.tlc_runs.append(r)
    res = []
    for f in sorted(glob.glob(f"{simdir}/tr_*")):
        st = parse_behaviour(open(f).read())
        if not st:
            continue
        last = st[-1]["vars"]
        res.append({"program": last["Program"], "schedule": last["sched"], "hist": last.get("hist")})
    return res


def free_running_history(rnd: random.Random, nthreads: int, nops: int, auto_ns: int, reads_only: bool) -> dict:
    import itertools
    import sys

    from pyoda_time import Duration
    from pyoda_time.testing import FakeClock

    clock = FakeClock(_mk_instant(0), Duration.from_nanoseconds(auto_ns))
    counter = itertools.count(1)
    progs = []
    for _ in range(nthreads):
        p = []
        for _ in range(nops):
            if reads_only or rnd.random() < 0.6:
                p.append(("read", 0))
            elif rnd.random() < 0.5:
                p.append(("advance", rnd.randint(-5, 5)))
            else:
                p.append(("advance_unit", rnd.randint(-5, 5)))
        progs.append(p)
    logs = [[] for _ in range(nthreads)]
    start_evt = threading.Event()

    def body(i):
        start_evt.wait()
        for name, arg in progs[i]:
            ev = {"thr": f"t{i}", "op": name}
            if name == "advance":
                ev["d"] = proj.t3_from_ns(arg)
                d = Duration.from_nanoseconds(arg)
            elif name == "advance_unit":
                ev.update(unit="ticks", amt=proj.amount_digits("ticks", arg))
            ev["start"] = next(counter)
            try:
                if name == "read":
                    ev["res"] = proj.t3_instant(clock.get_current_instant())
                elif name == "advance":
                    clock.advance(d)
                else:
                    clock.advance_ticks(arg)
            except BaseException as e:  # noqa: BLE001
                ev["exc"] = type(e).__name__
            ev["end"] = next(counter)
            logs[i].append(ev)

    old = sys.getswitchinterval()
    sys.setswitchinterval(1e-6)
    try:
        ths = [threading.Thread(target=body, args=(i,), daemon=True) for i in range(nthreads)]
        for th in ths:
            th.start()
        start_evt.set()
        for th in ths:
            th.join(10.0)
    finally:
        sys.setswitchinterval(old)
    ops = [e for lg in logs for e in lg]
    for i, th in enumerate(ths):
        if th.is_alive():
            ops.append({"thr": f"t{i}", "op": "read", "start": 0, "end": 10**9, "exc": "HANG"})
    return {"now": proj.t3_from_ns(0), "auto": proj.t3_from_ns(auto_ns), "ops": ops, "reads_only": reads_only, "hung": False}


def validate_histories(ctx: Ctx, hists: list, tag: str):
    if not hists:
        return
    import json

    f = ctx.workdir / f"hists_{tag}.json"
    f.write_text(json.dumps(hists))
    r = run_tlc("Trace_ClockLin", TRACE_CFG, workdir=ctx.workdir, mode="trace", workers=4, deque=False,
                env={"TRACE_FILE": str(f)}, tag=tag, timeout=1800)
    ctx.tlc_runs.append(r)
    if not r.ok:
        ctx.machinery_errors.append(f"Trace_ClockLin {tag}: {r.error}")
        return
    lin = {pv[1] for pv in r.printed if isinstance(pv, list) and pv and pv[0] == "LIN"}
    from harness.core import Reject

    for pv in r.printed:
        if isinstance(pv, list) and pv and pv[0] == "REJECT":
            h = hists[pv[2] - 1]
            ctx.rejects.append(Reject(ctx.pid, pv[1], {"clause": pv[1]}, h))
    seen = set()
    for k, h in enumerate(hists, 1):
        if k not in lin:
            clause = "operation_completes" if any(e.get("exc") == "HANG" for e in h["ops"]) else "history_linearizable"
            ops = sorted({e["op"] for e in h["ops"] if e.get("exc") == "HANG"}) if clause == "operation_completes" else []
            key = {"clause": clause, **({"ops": ",".join(ops)} if ops else {})}
            ctx.rejects.append(Reject(ctx.pid, clause, key, h))
            seen.add(clause)
    ctx.traces += len(hists)
    ctx.events += sum(len(h["ops"]) for h in hists)


# ---------------------------------------------------------------------------------------------
def run(ctx: Ctx):
    rnd = random.Random(ctx.seed * 7919 + 19)
    q = ctx.quick
    ctx.rule = ("MC: all programs of 2 ops/thread over {read, advance, advance_<unit>, reset, get/set auto} x all "
                "interleavings of 2 threads (+3 threads x 1 op with liveness); conformance: random op sequences with "
                "range-edge/huge amounts (sequential), TLC-simulated programs+schedules enforced line-by-line on real "
                "threads, free-running 16-thread histories; non-trivial = history with >= 2 overlapping calls or a "
                "sequence with >= 2 state-changing ops")
    # 1. model checking of the line-level model (repaired code shape) ---------------------------
    ctx.mc("MC_FakeClock", mc_cfg(proglen=2, live=not q), workers="auto", tag="fixed2x2", coverage=True, timeout=1800)
    ctx.mc("MC_FakeClock", mc_cfg(threads="t1, t2, t3", proglen=1, live=True), workers="auto", tag="live3x1", timeout=1800)
    ctx.mc("MC_FakeClock", mc_cfg(threads="t1, t2, t3", proglen=2 if not q else 1, readsonly="TRUE", auto0=2, live=True),
           workers="auto", tag="reads3", timeout=1800)
    # negative configurations (non-vacuity): the model of the code as found deadlocks; without the lock
    # conformance and distinct reads fail
    ctx.mc_expect_violation("MC_FakeClock", mc_cfg(nested="TRUE"), "Deadlock reached", workers="auto", tag="neg_nested")
    ctx.mc_expect_violation("MC_FakeClock", mc_cfg(uselock="FALSE"), "Invariant ModelConformance is violated",
                            workers="auto", tag="neg_nolock")
    ctx.mc_expect_violation("MC_FakeClock", mc_cfg(uselock="FALSE", readsonly="TRUE", invs=("DistinctReads",)),
                            "Invariant DistinctReads is violated", workers="auto", tag="neg_nolock_reads")

    # 2. sequential conformance -------------------------------------------------------------------
    evs = sequential_traces(ctx, rnd, 400 if q else 6000, 12 if q else 20)
    evs += system_clock_events(200 if q else 5000)
    ntr = sum(1 for e in evs if e["op"] == "init")
    ctx.distinct_nontrivial += ntr
    for e in evs[:40]:
        if e["op"] in ("advance_unit", "zoned", "read"):
            ctx.sample(e, cap=4)

    def key_of(ev, clause):
        k = {"clause": clause, "op": ev.get("op")}
        if ev.get("exc"):
            k["exc"] = ev["exc"]
        return k

    # shards are cut at trace boundaries only (an "init" event starts a trace; the model state is per trace)
    shards, cur = [], []
    for e in evs:
        if e["op"] == "init" and len(cur) >= 8000:
            shards.append(cur)
            cur = []
        cur.append(e)
    shards.append(cur)
    ctx.validate("Trace_Clock", TRACE_CFG, None, shards=shards, key_of=key_of, ntraces=ntr)
    hung = any(e.get("exc") == "HANG" for e in evs)

    # 3. TLC behaviours enforced on real threads ---------------------------------------------------
    hists = []
    if not hung:
        units = ["nanoseconds", "ticks", "seconds", "milliseconds", "minutes", "hours", "days"]
        nsim = 150 if q else 1500
        # schedules from the lock-free model are the adversarial ones: they preempt inside the critical sections
        cfgs = [
            ("simA", mc_cfg(uselock="FALSE", invs=(), view=False), 1),
            ("simB", mc_cfg(uselock="FALSE", readsonly="TRUE", auto0=2, invs=(), view=False), 2),
            ("simC", mc_cfg(threads="t1, t2, t3", proglen=1, uselock="FALSE", invs=(), view=False), 1),
            ("simD", mc_cfg(uselock="TRUE", invs=(), view=False), 1),
        ]
        for tag, cfg, auto0 in cfgs:
            for b in tlc_behaviours(ctx, cfg, nsim, 30, ctx.seed + 11, tag):
                scale = 1_000_003
                h = _history_from(b["program"], b["schedule"], auto0, scale, lambda a: units[(a + len(b["schedule"])) % len(units)])
                h["schedule"] = b["schedule"]
                hists.append(h)
                if h["hung"]:
                    break
            if hists and hists[-1]["hung"]:
                break
        if hists:
            ctx.sample({"program_ops": [[e["thr"], e["op"]] for e in hists[0]["ops"]], "schedule": hists[0]["schedule"]})
        ctx.distinct_nontrivial += sum(1 for h in hists if len({e["thr"] for e in h["ops"]}) > 1)
        validate_histories(ctx, hists, "enforced")
        hung = any(h["hung"] for h in hists)
    # 4. free-running threads -------------------------------------------------------------------
    if not hung:
        fr = []
        for k in range(30 if q else 400):
            ro = k % 2 == 0
            fr.append(free_running_history(rnd, 16 if k % 3 == 0 else 4, 4 if k % 3 == 0 else 8, 7 if ro else rnd.choice([0, 3]), ro))
        ctx.distinct_nontrivial += len(fr)
        validate_histories(ctx, fr, "free")
    ctx.assumptions += [
        "instants/durations are projected through Instant._days_since_epoch/_nanosecond_of_day and Duration._floor_days/_nanosecond_of_floor_day",
        "thread schedules are enforced at Python line granularity inside pyoda_time/testing/_fake_clock.py",
        "SystemClock is compared with time.time_ns() at tick (100 ns) granularity",
    ]


def replay(ctx: Ctx, path: str):
    import json

    data = json.load(open(path))
    print(json.dumps(data["violations"][:3], indent=1)[:3000])
    run(ctx)
