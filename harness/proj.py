"""Projection of implementation values to the abstract values of the specification.

Serialisation only: an instant / duration becomes the T3 numeral [floor day, second of day,
nanosecond of second]; integers too large for TLC become mixed-radix digits or limbs.
"""
from __future__ import annotations

NPD = 86_400_000_000_000
NPS = 1_000_000_000


def t3_from_ns(ns: int) -> list:
    d, r = divmod(ns, NPD)
    s, n = divmod(r, NPS)
    return [d, s, n]


def ns_from_t3(t) -> int:
    return (t[0] * 86400 + t[1]) * NPS + t[2]


def t3_instant(i) -> list:
    nod = i._nanosecond_of_day
    return [i._days_since_epoch, nod // NPS, nod % NPS]


def t3_duration(d) -> list:
    nod = d._nanosecond_of_floor_day
    return [d._floor_days, nod // NPS, nod % NPS]


UNIT_PER_SEC = {"nanoseconds": 10**9, "ticks": 10**7, "microseconds": 10**6, "milliseconds": 1000}
UNIT_PER_DAY = {"seconds": 86400, "minutes": 1440, "hours": 24, "days": 1}


def amount_digits(unit: str, k: int):
    """k units as mixed-radix digits (see T3.tla AmountToT3); None when the day digit leaves 32 bits."""
    if unit in UNIT_PER_SEC:
        p = UNIT_PER_SEC[unit]
        secs, f = divmod(k, p)
        q, r = divmod(secs, 86400)
        digs = [q, r, f]
    else:
        q, r = divmod(k, UNIT_PER_DAY[unit])
        digs = [q, r]
    if abs(digs[0]) >= 2**31 - 2:
        return None
    return digs


def exc_name(e: BaseException) -> str:
    return type(e).__name__
