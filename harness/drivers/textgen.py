"""Shared generators for the text properties (C07, C08): pattern types, pattern texts, values, cultures."""
from __future__ import annotations

import random

from harness import proj

NPD = proj.NPD

TOKENS = {
    "Offset": ["+", "-", "H", "HH", "m", "mm", "s", "ss", ":", "Z", "'x'", "\\:", " "],
    "LocalTime": ["H", "HH", "h", "hh", "m", "mm", "s", "ss", "f", "ff", "fff", "ffffff", "fffffffff", "F", "FFF", "FFFFFFFFF", ".fff", ".FFF", ";fff",
                  ";FFFFFFFFF", "t", "tt", ":", ".", " ", "'at'", "\\h"],
    "LocalDate": ["yyyy", "yy", "y", "uuuu", "u", "M", "MM", "MMM", "MMMM", "d", "dd", "ddd", "dddd", "g", "gg", "c", "/", "-", " ", "'of'", ",", "\\d"],
    "LocalDateTime": ["uuuu", "yyyy", "MM", "M", "MMM", "dd", "d", "HH", "H", "hh", "mm", "ss", "fff", "FFFFFFFFF", ";FFF", "tt", "T", "'T'", ":", "-", "/", " ",
                      "ld<uuuu-MM-dd>", "lt<HH:mm:ss>", "l<uuuu-MM-ddTHH:mm:ss>", "c", "g"],
    "Instant": ["uuuu", "yyyy", "MM", "dd", "HH", "mm", "ss", "fff", "FFFFFFFFF", ";FFF", "'T'", "'Z'", ":", "-", " "],
    "Duration": ["D", "DD", "H", "HH", "h", "hh", "M", "m", "mm", "S", "s", "ss", "f", "fff", "FFFFFFFFF", ".FFF", "+", "-", ":", ".", " ", "'d'"],
    "AnnualDate": ["M", "MM", "MMM", "MMMM", "d", "dd", "/", "-", " ", "'of'"],
}
STANDARD = {
    "Offset": list("gGiIlmsLMSf"),
    "LocalTime": list("tTr"),
    "LocalDate": list("dDr"),
    "LocalDateTime": list("fFgGoOrRsS"),
    "Instant": list("g"),
    "Duration": list("oj"),
    "AnnualDate": list("G"),
}
MALFORMED = ["HH''mm", "uuuu''MM''dd", "+HH''mm", "''HH", "\"\"", "HH\"\"mm", "'abc", "\"abc", "abc\\", "%", "%%", "%%H", "H%", "<", ">", "l<", "ld<uuuu", "lt<HH>>", "HHH", "mmm", "sss", "ddddd", "MMMMM", "yyyyy", "ttt",
             "ffffffffff", "HH:HH", "mm mm", "dd dd", "q", "Q", "e", "\x00", "'", "''", "\\", "yyyy gg", "c c", "uuuu yyyy", "g", "HH tt", "h", "\U0001F552",
             "٣", "H" * 300, "'" * 301]


def pattern_class(typ):
    from pyoda_time import text as T

    return getattr(T, typ + "Pattern")


def create(typ, text, culture):
    cls = pattern_class(typ)
    if culture is None:
        return cls.create_with_invariant_culture(text)
    return cls.create(text, culture)


_CLASSES: dict | None = None


def culture_classes() -> dict:
    """All ICU cultures grouped by the structural features of their data that the pattern code branches on.

    Computed once per process (about 7 s; call it in the parent before forking workers so that they inherit it)."""
    global _CLASSES
    if _CLASSES is not None:
        return _CLASSES
    import icu
    from pyoda_time._compatibility._culture_info import CultureInfo
    from pyoda_time.globalization._pyoda_format_info import _PyodaFormatInfo

    cls: dict = {"all": [], "genitive_differs": [], "genitive_prefix_of_plain": [], "plain_prefix_of_genitive": [], "time_sep": [], "date_sep": [],
                 "ampm_odd": [], "name_prefix_of_name": []}
    for nm in sorted(icu.Locale.getAvailableLocales()):
        try:
            c = CultureInfo(nm.replace("_", "-"))
            fi = _PyodaFormatInfo._get_format_info(c)
            tabs = [list(x)[1:13] for x in (fi.long_month_names, fi.long_month_genitive_names, fi.short_month_names, fi.short_month_genitive_names)]
            days = [list(x)[1:8] for x in (fi.long_day_names, fi.short_day_names)]
        except Exception:  # noqa: BLE001
            continue
        cls["all"].append(c.name)
        pairs = [(a.lower(), b.lower()) for a, b in list(zip(tabs[0], tabs[1])) + list(zip(tabs[2], tabs[3])) if a and b]
        if any(a != b for a, b in pairs):
            cls["genitive_differs"].append(c.name)
        if any(a != b and a.startswith(b) for a, b in pairs):
            cls["genitive_prefix_of_plain"].append(c.name)
        if any(a != b and b.startswith(a) for a, b in pairs):
            cls["plain_prefix_of_genitive"].append(c.name)
        if fi.time_separator != ":":
            cls["time_sep"].append(c.name)
        if fi.date_separator != "/":
            cls["date_sep"].append(c.name)
        am, pm = fi.am_designator or "", fi.pm_designator or ""
        if not am or not pm or am[0].lower() == pm[0].lower() or len(am) != len(pm):
            cls["ampm_odd"].append(c.name)
        for xs in tabs + days:
            low = [x.lower() for x in xs if x]
            if any(a != b and b.startswith(a) for a in low for b in low):
                cls["name_prefix_of_name"].append(c.name)
                break
    _CLASSES = cls
    return cls


def cultures(rnd: random.Random, n: int) -> list:
    """n cultures: about half drawn from the structural classes (one class each), the rest uniformly."""
    from pyoda_time._compatibility._culture_info import CultureInfo

    cls = culture_classes()
    picks = []
    feature_classes = [k for k in cls if k != "all" and cls[k]]
    rnd.shuffle(feature_classes)
    for k in feature_classes[: (n + 1) // 2]:
        picks.append(rnd.choice(cls[k]))
    names = cls["all"]
    out = []
    for name in picks + rnd.sample(names, min(len(names), n * 2)):
        try:
            out.append(CultureInfo(name.replace("_", "-")))
        except Exception:  # noqa: BLE001
            continue
        if len(out) >= n:
            break
    return out


def synthetic_culture(rnd: random.Random, no_designators: bool = False):
    """A culture built the way applications build their own: a clone of a real one with some format data replaced.

    The standard patterns expand to the culture's date/time pattern texts, which may themselves be single letters, malformed
    or empty; separators and designators may be long, empty or digits."""
    from pyoda_time._compatibility._culture_info import CultureInfo

    base = CultureInfo.invariant_culture if rnd.random() < 0.5 else (cultures(rnd, 1) or [CultureInfo.invariant_culture])[0]
    c = base.clone()
    f = c.date_time_format
    times = ["t", "T", "HH:mm", "h:mm tt", "H'h'mm", "%H", "'", "HH:mm:ss.FFF", "r", "", "HH:HH", "\\", "hh", "mm:ss"]
    dates = ["d", "D", "yyyy-MM-dd", "dd/MM/yyyy", "M/d/yy", "%d", "dddd, MMMM d", "'", "", "yyyy yyyy", "G", "MMMM", "dd"]
    try:
        if rnd.random() < 0.6:
            f.short_time_pattern = rnd.choice(times)
        if rnd.random() < 0.6:
            f.long_time_pattern = rnd.choice(times)
        if rnd.random() < 0.6:
            f.short_date_pattern = rnd.choice(dates)
        if rnd.random() < 0.6:
            f.long_date_pattern = rnd.choice(dates)
        if rnd.random() < 0.3:
            f.time_separator = rnd.choice([":", ".", "h", "::", " ", "-", ""])
        if rnd.random() < 0.2:
            try:
                f.date_separator = rnd.choice(["/", ".", "-", "", "//"])
            except Exception:  # noqa: BLE001 - no setter in this port
                pass
        if no_designators:
            f.am_designator, f.pm_designator = "", ""       # a culture without AM/PM designators (they exist: e.g. 24-hour-only locales)
        elif rnd.random() < 0.3:
            f.am_designator, f.pm_designator = rnd.choice([("AM", "PM"), ("a", "p"), ("", ""), ("am", "AM"), ("1", "2"), ("x", "")])
    except Exception:  # noqa: BLE001 - a setter refusing a value is its own business
        pass
    try:
        return CultureInfo.read_only(c)
    except Exception:  # noqa: BLE001
        return c


def random_pattern(typ: str, rnd: random.Random) -> str:
    c = rnd.random()
    if c < 0.15:
        return rnd.choice(STANDARD[typ])
    if c < 0.3:
        return rnd.choice(MALFORMED)
    toks = TOKENS[typ]
    k = rnd.choice([1, 2, 3, 3, 4, 5, 7])
    s = "".join(rnd.choice(toks) for _ in range(k))
    if rnd.random() < 0.1:
        s = s[: rnd.randrange(len(s) + 1)] + rnd.choice(["'", "\\", "%", "<", ">", "\"", "Z", "x"]) + s[rnd.randrange(len(s) + 1):]
    return s


def random_value(typ: str, rnd: random.Random, cals, year0: float = 0.08):
    from pyoda_time import AnnualDate, Duration, Instant, LocalDate, LocalTime, Offset

    def arrived_at_midnight():
        # a time of day that is the result of arithmetic landing exactly on midnight (or just around it)
        x = rnd.randrange(1, NPD)
        t = LocalTime.from_nanoseconds_since_midnight(x)
        k = NPD - x + rnd.choice([0, 0, 0, 1, -1])
        return rnd.choice([lambda: t.plus_nanoseconds(k), lambda: t.plus_hours(24).plus_nanoseconds(k), lambda: LocalTime(12, 0).plus_hours(12),
                           lambda: LocalTime(23, 59, 59).plus_seconds(1), lambda: LocalTime.midnight.plus_hours(24)])()

    def nod():
        c = rnd.random()
        if c < 0.4:
            return rnd.randrange(86400) * 10**9
        if c < 0.65:
            # a fraction with exactly k significant digits (each parse width scales differently)
            k = rnd.randint(1, 9)
            return rnd.randrange(86400) * 10**9 + rnd.randrange(10**k) * 10 ** (9 - k)
        return rnd.choice([0, NPD - 1, rnd.randrange(NPD), rnd.randrange(86400) * 10**9 + 120_000_000])

    if typ == "Offset":
        return Offset.from_seconds(rnd.choice([0, 3600, -3600, 19800, 64800, -64800, 1, -1, 59, -3599, rnd.randint(-64800, 64800)]))
    if typ == "LocalTime":
        if rnd.random() < 0.06:
            try:
                return arrived_at_midnight()
            except Exception:  # noqa: BLE001
                pass
        return LocalTime.from_nanoseconds_since_midnight(nod())
    if typ == "LocalDate":
        cal = rnd.choice(cals)
        c = rnd.random()
        if c > 1 - year0:
            # around (ISO) year 0: small and negative absolute years
            # (a third of them within a year or two of year 0 itself: 1 BCE is absolute year 0, where eras and signs change)
            span = rnd.choice([(-45000, 45000), (-45000, 45000), (-400, 800)])
            return LocalDate._ctor(days_since_epoch=min(max(-719528 + rnd.randint(*span), cal._min_days), cal._max_days), calendar=cal)
        d = cal._min_days + rnd.randint(0, 400) if c < 0.1 else cal._max_days - rnd.randint(0, 400) if c < 0.2 else \
            rnd.randint(max(cal._min_days, -30000), min(cal._max_days, 60000)) if c < 0.7 else rnd.randint(cal._min_days, cal._max_days)
        return LocalDate._ctor(days_since_epoch=d, calendar=cal)
    if typ == "LocalDateTime":
        return random_value("LocalDate", rnd, cals, year0).at(LocalTime.from_nanoseconds_since_midnight(nod()))
    if typ == "Instant":
        c = rnd.random()
        day = -719528 + rnd.randint(*rnd.choice([(-45000, 45000), (-45000, 45000), (-400, 800)])) if c > 1 - year0 else rnd.choice([-4371222, 2932896]) if c < 0.1 else \
            rnd.randint(-30000, 60000) if c < 0.55 else rnd.randint(-4371222, 2932896)
        return Instant._ctor(days=day, nano_of_day=nod())
    if typ == "Duration":
        c = rnd.random()
        if c > 0.92:
            # a value that is the result of arithmetic: two parts whose times of day add up to exactly one day (or to anything)
            x = rnd.randrange(NPD)
            y = NPD - x if rnd.random() < 0.7 else rnd.randrange(NPD)
            try:
                return Duration._ctor(days=rnd.randint(-5, 5), nano_of_day=x) + Duration._ctor(days=rnd.randint(-5, 5), nano_of_day=y % NPD)
            except Exception:  # noqa: BLE001
                pass
        ns = rnd.choice([0, 1, -1, NPD, -NPD, NPD - 1, -NPD + 1, 3600 * 10**9, -1000]) if c < 0.3 else rnd.randint(-10**16, 10**16) if c < 0.6 else \
            rnd.choice([-1, 1]) * (rnd.randrange(10**7) * 10**9 + rnd.randrange(10 ** (k := rnd.randint(1, 9))) * 10 ** (9 - k)) if c < 0.8 else \
            rnd.randint(Duration._MIN_NANOSECONDS, Duration._MAX_NANOSECONDS)
        return Duration._ctor(days=ns // NPD, nano_of_day=ns % NPD)
    if typ == "AnnualDate":
        m = rnd.randint(1, 12)
        return AnnualDate(m, rnd.randint(1, [31, 29, 31, 30, 31, 30, 31, 31, 30, 31, 30, 31][m - 1]))
    raise ValueError(typ)


def is_valid(typ: str, v) -> bool:
    """Is v a well-formed value of its type (all components inside the documented ranges)?"""
    from pyoda_time import AnnualDate, Duration, Instant, LocalDate, LocalTime

    try:
        if typ == "Offset":
            return -64800 <= v.seconds <= 64800
        if typ == "LocalTime":
            return 0 <= v.nanosecond_of_day < NPD and LocalTime.from_nanoseconds_since_midnight(v.nanosecond_of_day) == v
        if typ == "LocalDate":
            return LocalDate(v.year, v.month, v.day, v.calendar) == v and v.calendar._min_days <= v._days_since_epoch <= v.calendar._max_days
        if typ == "LocalDateTime":
            return is_valid("LocalDate", v.date) and is_valid("LocalTime", v.time_of_day)
        if typ == "Instant":
            return Instant.min_value <= v <= Instant.max_value and 0 <= v._nanosecond_of_day < NPD
        if typ == "Duration":
            return Duration._MIN_DAYS <= v._floor_days <= Duration._MAX_DAYS and 0 <= v._nanosecond_of_floor_day < NPD
        if typ == "AnnualDate":
            return AnnualDate(v.month, v.day) == v
    except Exception:  # noqa: BLE001
        return False
    return False


def mutate(text: str, rnd: random.Random) -> str:
    c = rnd.random()
    if not text or c < 0.05:
        return rnd.choice(["", "\x00", " ", "٣٤", "9" * 40, "-", "+", "\U0001F552", "Z", "0"])
    if c < 0.12:
        # range-edge field values: extreme years, hour 24 (valid only as 24:00:00 and only if the next day exists)
        import re

        t = text
        m4 = re.search(r"-?\d{4,5}", t)
        if m4 and rnd.random() < 0.7:
            t = t[:m4.start()] + rnd.choice(["-9999", "-9998", "9999", "10000", "0000", "-0001", "0001"]) + t[m4.end():]
        mt = re.search(r"\d{2}:\d{2}(:\d{2})?", t)
        if mt and rnd.random() < 0.5:
            t = t[:mt.start()] + rnd.choice(["24:00:00", "24:00", "24:00:01", "23:59:60"])[: mt.end() - mt.start()] + t[mt.end():]
        md = re.search(r"(\d{4})-(\d{2})-(\d{2})", t)
        if md and rnd.random() < 0.4:
            t = t[:md.start(2)] + rnd.choice(["12-31", "02-29", "02-30", "01-01", "13-01", "00-10", "04-31", "06-31", "09-31", "11-31", "04-30", "01-32", "10-00"]) + t[md.end(3):]
        return t
    i = rnd.randrange(len(text))
    if c < 0.25:
        return text[:i] + text[i + 1:]
    if c < 0.5:
        return text[:i] + rnd.choice("0123456789:-+/. Z\x00xT٣") + text[i:]
    if c < 0.7:
        return text[:i] + rnd.choice("0123456789:-+/. Z\x00xT٣") + text[i + 1:]
    if c < 0.85:
        # out-of-range numbers: replace a digit run
        import re

        runs = list(re.finditer(r"\d+", text))
        if runs:
            m = rnd.choice(runs)
            return text[:m.start()] + rnd.choice(["99", "24", "60", "61", "13", "32", "00", "0", "19", "23", "18", "17", "12", "10000", "999999999999", "366"]) + text[m.end():]
        return text + "9"
    if c < 0.93:
        return text + rnd.choice(["0", " ", "x", "\x00", "99"])
    return text[: max(0, len(text) - rnd.randint(1, 3))]
