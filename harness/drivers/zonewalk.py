"""Time-zone walker: drives the real zones and serialises intervals / local mappings. No zone logic here."""
from __future__ import annotations

import random

from harness import proj

TMIN = [-2000000000, 0, 0]
TMAX = [2000000000, 0, 0]
SKIPPED = [0, 0, -2]
AMBIG = [0, 0, -3]
NPD = proj.NPD


def t3i(i):
    if not i._is_valid:
        return TMIN if i._days_since_epoch < 0 else TMAX
    return proj.t3_instant(i)


def iv_event(iv) -> dict:
    return {"op": "iv", "start": t3i(iv._raw_start), "end": t3i(iv._raw_end), "name": iv.name,
            "wall": iv.wall_offset.seconds, "std": iv.standard_offset.seconds, "sav": iv.savings.seconds,
            "has_start": iv.has_start, "has_end": iv.has_end}


def get_zone(zid: str, provider=None):
    from pyoda_time import DateTimeZone, DateTimeZoneProviders, Offset

    if zid.startswith("fixed:"):
        return DateTimeZone.for_offset(Offset.from_seconds(int(zid[6:])))
    if zid.startswith("single:"):
        # the library's own single-transition zone (pyoda_time.testing): "single:<day>:<second of day>:<offset before>:<offset after>"
        from pyoda_time import Instant
        from pyoda_time.testing.time_zones import SingleTransitionDateTimeZone

        day, sod, before, after = (int(x) for x in zid[7:].split(":"))
        return SingleTransitionDateTimeZone(Instant._ctor(days=day, nano_of_day=sod * 10**9), Offset.from_seconds(before), Offset.from_seconds(after), zid)
    return (provider or DateTimeZoneProviders.tzdb)[zid]


def walk_zone(args) -> list:
    """args = (zone id, mode) with mode 'full' or 'windows' (start..2100, then the last ten years)."""
    zid, mode, seed = args
    from pyoda_time import Duration, Instant, Interval

    rnd = random.Random(seed)
    z = get_zone(zid)
    evs = [{"op": "zone", "id": zid, "min_off": z.min_offset.seconds, "max_off": z.max_offset.seconds}]
    eps = Duration.epsilon
    segs = [(Instant.min_value, None)]
    if mode == "windows":
        segs = [(Instant.min_value, Instant.from_utc(2100, 1, 1, 0, 0)), (Instant.from_utc(9989, 6, 1, 0, 0), None)]
    walked = []
    for seg_start, seg_stop in segs:
        evs.append({"op": "seg", "from": t3i(seg_start)})
        cur = seg_start
        first = True
        while True:
            try:
                iv = z.get_zone_interval(cur)
            except Exception as ex:  # noqa: BLE001 - an instant with no interval: the event is the verdict's evidence
                evs.append({"op": "iv_exc", "at": t3i(cur), "exc": type(ex).__name__})
                break
            e = iv_event(iv)
            e["from_min"] = first and seg_start == Instant.min_value
            first = False
            fl = {}
            # probes inside the interval must answer the same interval and its wall offset
            pts = []
            lo = iv.start if iv.has_start else Instant.min_value
            hi = (iv.end - eps) if iv.has_end else Instant.max_value
            pts = [lo, hi]
            if lo + eps <= hi:
                pts.append(lo + eps)
            span = hi - lo
            if span > eps:
                pts.append(lo + span / rnd.randint(2, 9))
            ok = True
            for p in pts:
                try:
                    got = z.get_zone_interval(p)
                    if got != iv or p not in iv or z.get_utc_offset(p) != iv.wall_offset:
                        ok = False
                except Exception:  # noqa: BLE001 - no answer for an instant inside the interval
                    ok = False
            fl["probes"] = ok
            if iv.has_start and iv.start > Instant.min_value:
                try:
                    before = z.get_zone_interval(iv.start - eps)
                    fl["instant_before_start_is_outside"] = (iv.start - eps) not in iv and before != iv
                except Exception:  # noqa: BLE001
                    fl["instant_before_start_is_outside"] = False
            if iv.has_end and iv.end <= Instant.max_value:
                # ... and its end is outside it too (half-open): the instant a transition happens at lies in the later interval only
                try:
                    fl["end_is_outside"] = iv.end not in iv and (iv.end - eps) in iv
                except Exception:  # noqa: BLE001
                    fl["end_is_outside"] = False
            # the interval's own derived properties: duration, local start and end (ISO), standard offset
            pr = {}
            try:
                if iv.has_start and iv.has_end:
                    pr["duration"] = proj.t3_duration(iv.duration)
                if iv.has_start:
                    ls = iv.iso_local_start
                    pr["local_start"] = [ls.date._days_since_epoch, ls.nanosecond_of_day // 10**9, ls.nanosecond_of_day % 10**9]
                if iv.has_end:
                    le = iv.iso_local_end
                    pr["local_end"] = [le.date._days_since_epoch, le.nanosecond_of_day // 10**9, le.nanosecond_of_day % 10**9]
            except OverflowError:
                pr["local_overflow"] = True      # a local bound outside the local time line (within 18 h of the ends of time)
            except Exception as ex:  # noqa: BLE001
                pr["exc"] = type(ex).__name__
            e["props"] = pr
            e["flags"] = fl
            walked.append(iv)
            if zid.startswith("fixed:"):
                e["fixed"] = int(zid[6:])
            evs.append(e)
            if not iv.has_end:
                break
            if iv.end <= cur:
                break  # the walk cannot progress (the interval answered does not contain the instant asked for)
            cur = iv.end
            if seg_stop is not None and cur >= seg_stop:
                break
            if len(evs) > 40000:
                break
    # the same zone object asked again in adversarial orders: backwards, and jumping by multiples of 512 x 32 days (instants that
    # share a slot of the interval cache); every answer must be the interval of the walk that contains the instant
    def find(t):
        lo_i, hi_i = 0, len(walked) - 1
        while lo_i <= hi_i:
            mid = (lo_i + hi_i) // 2
            w = walked[mid]
            if w.has_start and t < w.start:
                hi_i = mid - 1
            elif w.has_end and t >= w.end:
                lo_i = mid + 1
            else:
                return w
        return None

    # get_zone_intervals over a window must list exactly the walked intervals that overlap it, in order
    if len(walked) > 2 and mode != "windows":
        for _ in range(4):
            i0 = rnd.randrange(len(walked))
            i1 = min(len(walked) - 1, i0 + rnd.randint(0, 6))
            a, b = walked[i0], walked[i1]
            lo = (a.start if a.has_start else Instant.min_value)
            hi = (b.end if b.has_end else Instant.max_value)
            s0 = lo + (((a.end if a.has_end else Instant.max_value) - lo) / rnd.randint(2, 5)) if rnd.random() < 0.7 else lo
            e0 = hi - ((hi - (b.start if b.has_start else Instant.min_value)) / rnd.randint(2, 5)) if rnd.random() < 0.7 else hi
            if e0 <= s0:
                continue
            ev = {"op": "ivs", "from": t3i(s0), "to": t3i(e0), "want_first": t3i(a._raw_start), "want_n": i1 - i0 + 1 - (1 if e0 == (b.start if b.has_start else None) else 0)}
            try:
                got = list(z.get_zone_intervals(start=s0, end=e0) if rnd.random() < 0.5 else z.get_zone_intervals(interval=Interval(s0, e0)))
                ev["n"] = len(got)
                ev["same"] = got == walked[i0:i0 + len(got)]
                ev["starts"] = [t3i(g._raw_start) for g in got]
                ev["ends"] = [t3i(g._raw_end) for g in got]
            except Exception as ex:  # noqa: BLE001
                ev["exc"] = type(ex).__name__
            evs.append(ev)
    if len(walked) > 1:
        pts = []
        for w in rnd.sample(walked, min(len(walked), 40)):
            lo = w.start if w.has_start else Instant.min_value
            hi = (w.end - eps) if w.has_end else Instant.max_value
            p0 = lo + (hi - lo) / rnd.randint(2, 9) if hi - lo > eps else lo
            pts.append(p0)
            for k in (1, 2, 3, rnd.randint(1, 12)):
                for sgn in (-1, 1):
                    try:
                        pts.append(p0 + Duration.from_days(sgn * k * 512 * 32 + rnd.choice([0, 0, 1, -1, 31])))
                    except Exception:  # noqa: BLE001
                        pass
        order = sorted(pts, reverse=True) if rnd.random() < 0.5 else pts
        for p in order:
            want = find(p)
            if want is None:
                continue    # outside the walked windows
            try:
                got = z.get_zone_interval(p)
            except Exception as ex:  # noqa: BLE001
                evs.append({"op": "iv_exc", "at": t3i(p), "exc": type(ex).__name__})
                continue
            evs.append({"op": "requery", "at": t3i(p), "start": t3i(got._raw_start), "end": t3i(got._raw_end), "wall": got.wall_offset.seconds,
                        "same_as_walk": got == want, "offset_agrees": z.get_utc_offset(p) == want.wall_offset})
    evs.append({"op": "endz"})
    return evs


def _outcome(fn):
    from pyoda_time import AmbiguousTimeError, SkippedTimeError

    try:
        return t3i(fn().to_instant())
    except SkippedTimeError:
        return SKIPPED
    except AmbiguousTimeError:
        return AMBIG


def map_events(args) -> list:
    """For a zone: local-time probes around every transition in [year_lo, year_hi]."""
    zid, year_lo, year_hi, seed, max_tr = args
    from pyoda_time import CalendarSystem, Duration, Instant, LocalDateTime
    from pyoda_time._local_date import LocalDate
    from pyoda_time._local_time import LocalTime

    rnd = random.Random(seed)
    z = get_zone(zid)
    start = Instant.from_utc(year_lo, 1, 1, 0, 0) if year_lo > -9998 else Instant.min_value
    stop = Instant.from_utc(year_hi, 12, 31, 0, 0) if year_hi < 9999 else Instant.max_value
    ivs = []
    cur = start
    # a margin of intervals before the first transition
    first_iv = z.get_zone_interval(cur)
    back = []
    b = first_iv
    for _ in range(6):
        if not b.has_start:
            break
        b = z.get_zone_interval(b.start - Duration.epsilon)
        back.append(b)
    ivs = list(reversed(back)) + [first_iv]
    stuck = []
    kept = None

    def step():
        """The interval at the end of the last one; False when the zone answers with an interval that does not contain it."""
        at = ivs[-1].end
        nxt = z.get_zone_interval(at)
        if at not in nxt:
            stuck.append((at, nxt))
            return False
        ivs.append(nxt)
        return True

    while ivs[-1].has_end and ivs[-1].end < stop and len(ivs) < 30000:
        if not step():
            break
    for _ in range(6):
        if not ivs[-1].has_end or stuck:
            break
        step()
    evs = [{"op": "zone", "id": zid, "min_off": z.min_offset.seconds, "max_off": z.max_offset.seconds}]
    for at, nxt in stuck:
        # evidence for the verdict: the interval answered for an instant does not contain it
        evs.append({"op": "requery", "at": t3i(at), "start": t3i(nxt._raw_start), "end": t3i(nxt._raw_end), "wall": nxt.wall_offset.seconds,
                    "same_as_walk": False, "offset_agrees": False})
    idxs = [k for k in range(1, len(ivs)) if start <= ivs[k].start <= stop]
    if max_tr and len(idxs) > max_tr:
        keep = set(rnd.sample(idxs, max_tr))
        idxs = [k for k in idxs if k in keep]
    three_days = Duration.from_days(3)
    iso = CalendarSystem.iso
    cals = [CalendarSystem.for_id(c) for c in ("Julian", "Hebrew Civil", "Persian Simple", "Coptic")]
    for k in idxs:
        a, bb = ivs[k - 1], ivs[k]
        t = bb.start
        # window: all intervals overlapping [t - 3d, t + 3d]
        lo = k - 1
        while lo > 0 and ivs[lo].has_start and ivs[lo].start > t - three_days:
            lo -= 1
        hi = k
        while hi < len(ivs) - 1 and ivs[hi].has_end and ivs[hi].end < t + three_days:
            hi += 1
        win = ivs[lo:hi + 1]
        wevs = [iv_event(w) for w in win]
        tl = t3i(t)
        tns = proj.ns_from_t3(tl)
        gap = (bb.wall_offset.seconds - a.wall_offset.seconds) * 10**9
        # start of day for the local dates around the transition, in ISO and other calendars
        for base_off in (a.wall_offset.seconds, bb.wall_offset.seconds):
            d0 = (tns + base_off * 10**9) // NPD
            for dd in (d0 - 1, d0, d0 + 1):
                for cal in [iso] + ([rnd.choice(cals)] if rnd.random() < 0.5 else []):
                    try:
                        date = LocalDate._ctor(days_since_epoch=dd, calendar=cal)
                    except Exception:  # noqa: BLE001
                        continue
                    ev = {"op": "sod", "win": wevs, "day": dd, "cal": cal.id, "res_cal": cal.id, "res_day": dd}
                    try:
                        # two equivalent routes: the zone's method and the date's
                        zdt = z.at_start_of_day(date) if rnd.random() < 0.5 else date.at_start_of_day_in_zone(z)
                        ev["res"] = t3i(zdt.to_instant())
                        ev["res_cal"] = zdt.calendar.id
                        ev["res_day"] = zdt.date._days_since_epoch
                    except Exception as e:  # noqa: BLE001
                        ev["res"] = SKIPPED if type(e).__name__ == "SkippedTimeError" else [0, 0, -9]
                        ev["exc"] = type(e).__name__
                    evs.append(ev)
        deltas = {-10**9, -1, 0, 1, 10**9, gap // 2, -gap // 2, gap, -gap, gap - 1, -gap - 1, NPD, -NPD, rnd.randint(-NPD, NPD)}
        for base_off in (a.wall_offset.seconds, bb.wall_offset.seconds):
            for dlt in deltas:
                lns = tns + base_off * 10**9 + dlt
                day, nod = divmod(lns, NPD)
                try:
                    ldt = LocalDate._ctor(days_since_epoch=day).at(LocalTime.from_nanoseconds_since_midnight(nod))
                except Exception:  # noqa: BLE001 - outside the local range
                    continue
                if rnd.random() < 0.15:
                    try:
                        ldt = ldt.with_calendar(rnd.choice(cals))
                    except Exception:  # noqa: BLE001
                        pass
                try:
                    m = z.map_local(ldt)
                except Exception as e:  # noqa: BLE001
                    evs.append({"op": "map", "win": wevs, "local": [day, nod // 10**9, nod % 10**9], "count": -1,
                                "early": 0, "late": 0, "first": SKIPPED, "last": SKIPPED, "single": SKIPPED, "strict": SKIPPED,
                                "lenient": SKIPPED, "back_ok": False, "exc": type(e).__name__})
                    continue

                def idx_of(x):
                    for j, w in enumerate(win):
                        if w == x:
                            return j + 1
                    return -1

                ev = {"op": "map", "win": wevs, "local": [day, nod // 10**9, nod % 10**9], "count": m.count,
                      "early": idx_of(m.early_interval), "late": idx_of(m.late_interval),
                      "first": _outcome(m.first), "last": _outcome(m.last), "single": _outcome(m.single),
                      "strict": _outcome(lambda: z.at_strictly(ldt)), "lenient": _outcome(lambda: z.at_leniently(ldt)),
                      "cal": ldt.calendar.id}
                # the stock resolvers, one (ambiguity, gap) pair and one route per event:
                #   ambiguity: 0 earlier, 1 later, 2 raise; gap: 0 end of the interval before, 1 start of the interval after,
                #   2 shifted forward by the gap, 3 raise; route: resolve_local / LocalDateTime.in_zone
                from pyoda_time.time_zones import Resolvers

                amb = rnd.randrange(3)
                skp = rnd.randrange(4)
                res = Resolvers.create_mapping_resolver(
                    [Resolvers.return_earlier, Resolvers.return_later, Resolvers.throw_when_ambiguous][amb],
                    [Resolvers.return_end_of_interval_before, Resolvers.return_start_of_interval_after, Resolvers.return_forward_shifted,
                     Resolvers.throw_when_skipped][skp])
                route = rnd.randrange(2)
                ev["amb"], ev["skp"], ev["route"] = amb, skp, route
                try:
                    zr = z.resolve_local(ldt, res) if route == 0 else ldt.in_zone(z, res)
                    ev["resolved"] = t3i(zr.to_instant())
                    ev["resolved_meta"] = zr.zone == z and zr.calendar == ldt.calendar
                except Exception as e2:  # noqa: BLE001
                    nm = type(e2).__name__
                    ev["resolved"] = SKIPPED if nm == "SkippedTimeError" else AMBIG if nm == "AmbiguousTimeError" else [0, 0, -9]
                    ev["resolved_meta"] = True
                ev["strict2"] = _outcome(lambda: ldt.in_zone_strictly(z))
                ev["lenient2"] = _outcome(lambda: ldt.in_zone_leniently(z))
                # reverse direction: every reported instant renders back to this local date-time
                back_ok = True
                for o in {tuple(ev["first"]), tuple(ev["last"])}:
                    if o[2] >= 0:
                        inst = Instant._ctor(days=o[0], nano_of_day=o[1] * 10**9 + o[2])
                        zdt = inst.in_zone(z, ldt.calendar)
                        if zdt.local_date_time != ldt:
                            back_ok = False
                        mm = z.map_local(zdt.local_date_time)
                        if inst not in {x.to_instant() for x in ([mm.first(), mm.last()] if mm.count else [])}:
                            back_ok = False
                        # ... and so does the zoned value reached from it by a duration (across the transition or not): it is the
                        # rendering of its own instant, and its local time maps back to that instant
                        for dlt2 in (Duration.from_nanoseconds(gap), Duration.from_nanoseconds(-gap), Duration.from_hours(rnd.choice([1, -1, 25, -25]))):
                            try:
                                moved = zdt + dlt2
                                fresh_r = (inst + dlt2).in_zone(z, ldt.calendar)
                            except (OverflowError, ValueError):
                                continue
                            if moved.local_date_time != fresh_r.local_date_time or moved.offset != fresh_r.offset or moved.to_instant() != inst + dlt2:
                                back_ok = False
                            mm2 = z.map_local(moved.local_date_time)
                            if moved.to_instant() not in {x.to_instant() for x in ([mm2.first(), mm2.last()] if mm2.count else [])}:
                                back_ok = False
                ev["back_ok"] = back_ok
                # a mapping is a value: kept while other local times are mapped (this event made several more), it still says what it said
                def summary(mp):
                    out = [mp.count]
                    for f in (lambda: idx_of(mp.early_interval), lambda: idx_of(mp.late_interval), lambda: _outcome(mp.first),
                              lambda: _outcome(mp.last), lambda: _outcome(mp.single)):
                        try:
                            out.append(f())
                        except Exception as e:  # noqa: BLE001
                            out.append(type(e).__name__)
                    return out

                ev["kept_same"] = summary(m) == [ev["count"], ev["early"], ev["late"], ev["first"], ev["last"], ev["single"]]
                if kept is not None:
                    # ... and so does the one kept from the previous local time (another window: its indices are compared as recorded)
                    pm, pwin_idx, psum = kept

                    def idx_prev(x, pwin=pwin_idx):
                        for j, w in enumerate(pwin):
                            if w == x:
                                return j + 1
                        return -1

                    try:
                        now = [pm.count, idx_prev(pm.early_interval), idx_prev(pm.late_interval), _outcome(pm.first), _outcome(pm.last), _outcome(pm.single)]
                    except Exception as e:  # noqa: BLE001
                        now = [type(e).__name__]
                    ev["kept_same"] = ev["kept_same"] and now == psum
                kept = (m, list(win), [ev["count"], ev["early"], ev["late"], ev["first"], ev["last"], ev["single"]])
                evs.append(ev)
    return evs
