"""Run in a FRESH interpreter (python -m harness.drivers.fresh_probe): a first caller under some current culture touches the
process-wide lazily built objects; then the culture is put back and a fixed list of questions is answered.  Reads
{"first_culture": name-or-"" } from stdin, prints the answers as a JSON list.  The answers must not depend on the first caller."""
import json
import sys


def main() -> None:
    req = json.loads(sys.stdin.read())
    from pyoda_time import DateTimeZone, DateTimeZoneProviders, Duration, Instant, LocalDate, LocalTime, Offset
    from pyoda_time._compatibility._culture_info import CultureInfo
    from pyoda_time.text import DurationPattern, InstantPattern, LocalDatePattern, LocalDateTimePattern, LocalTimePattern, OffsetPattern

    probe_i = Instant.from_utc(2024, 2, 29, 13, 5, 7)
    offs = [Offset.from_hours_and_minutes(5, 30), Offset.from_seconds(-12345), Offset.from_hours(-7)]

    def _calendars():
        from pyoda_time import CalendarSystem
        from pyoda_time.calendars import WeekYearRules

        out = []
        for cid in ("Hebrew Scriptural", "Hebrew Civil", "Hijri Civil-Base15", "Hijri Astronomical-Base16", "Persian Simple", "Coptic"):
            cal = CalendarSystem.for_id(cid)
            y = cal.min_year + 5000 if cid.startswith("Hebrew") else cal.min_year + 1400
            for m in (1, 7, cal.get_months_in_year(y)):
                d = LocalDate(y, m, min(15, cal.get_days_in_month(y, m)), cal)
                iso = d.with_calendar(CalendarSystem.iso)
                out.append([cid, y, m, cal.get_days_in_month(y, m), iso.year, iso.month, iso.day])
        for (yy, mm, dd) in ((2012, 12, 31), (2014, 12, 29), (2024, 12, 30), (2021, 1, 3)):
            ld = LocalDate(yy, mm, dd)
            out.append([WeekYearRules.iso.get_week_year(ld), WeekYearRules.iso.get_week_of_week_year(ld)])
        return out

    def touch():
        out = []
        for f in (lambda: [DateTimeZone.for_offset(o).id for o in offs],
                  lambda: [OffsetPattern.general_invariant.format(o) for o in offs],
                  lambda: [OffsetPattern.general_invariant_with_z.format(o) for o in offs],
                  lambda: InstantPattern.general.format(probe_i),
                  lambda: InstantPattern.extended_iso.format(probe_i),
                  lambda: LocalTimePattern.extended_iso.format(LocalTime(13, 5, 7)),
                  lambda: LocalTimePattern.general_iso.format(LocalTime(13, 5, 7)) if hasattr(LocalTimePattern, "general_iso") else "",
                  lambda: LocalDateTimePattern.general_iso.format(LocalDate(2024, 2, 29).at(LocalTime(13, 5, 7))),
                  lambda: LocalDatePattern.iso.format(LocalDate(2024, 2, 29)),
                  lambda: DurationPattern.roundtrip.format(Duration.from_seconds(100000)),
                  lambda: [DateTimeZoneProviders.tzdb.get_zone_or_none(i) is not None for i in ("UTC+05:30", "UTC-03:25:45", "UTC-07")],
                  lambda: [DateTimeZoneProviders.tzdb["UTC+05:30"].id, DateTimeZoneProviders.tzdb["UTC+05:30"].get_utc_offset(probe_i).seconds],
                  lambda: LocalDatePattern.create_with_invariant_culture("yyyy MMMM dd gg").format(LocalDate(2024, 2, 29)),
                  lambda: _calendars()):
            try:
                out.append(f())
            except Exception as e:  # noqa: BLE001
                out.append("exc:" + type(e).__name__)
        return out

    # other first callers: a calendar first made through its factory with a plain integer, the BCL-style week rules made before the ISO one
    for call in req.get("first_calls", []):
        try:
            from pyoda_time import CalendarSystem, IsoDayOfWeek
            from pyoda_time.calendars import CalendarWeekRule, WeekYearRules

            if call == "hebrew_int":
                CalendarSystem.get_hebrew_calendar(2)
                CalendarSystem.get_hebrew_calendar(1)
            elif call == "bcl_rules":
                for cwr in CalendarWeekRule:
                    for d in IsoDayOfWeek:
                        if d.value:
                            WeekYearRules.from_calendar_week_rule(cwr, d)
            elif call == "islamic_int":
                CalendarSystem.get_islamic_calendar(1, 1)
        except Exception:  # noqa: BLE001
            pass
    first = req.get("first_culture")
    if first:
        before = CultureInfo.current_culture
        CultureInfo.current_culture = CultureInfo(first)
        touch()                                   # the first caller, under its own culture
        CultureInfo.current_culture = before
    print(json.dumps(touch()))


if __name__ == "__main__":
    main()
