"""Run in a fresh interpreter: format the requested (culture, pattern, date) triples in the order given and print the texts.

Used by C13: the same triples formatted in another order in another process must give the same texts (culture data that is
cached process-wide - era names, month names, patterns - must not depend on which culture asked first)."""
import json
import sys


def main():
    from pyoda_time import LocalDate
    from pyoda_time._compatibility._culture_info import CultureInfo
    from pyoda_time.text import LocalDatePattern

    out = []
    for culture, pattern, y, m, d in json.load(sys.stdin):
        try:
            c = CultureInfo.read_only(CultureInfo(culture)) if culture else CultureInfo.invariant_culture
            out.append([ord(ch) for ch in LocalDatePattern.create(pattern, c).format(LocalDate(y, m, d))])
        except Exception as e:  # noqa: BLE001
            out.append("exc:" + type(e).__name__)
    json.dump(out, sys.stdout)


if __name__ == "__main__":
    main()
