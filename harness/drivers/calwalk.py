"""Calendar walker: drives the real calendar API over day numbers and years and serialises what it saw.

No calendar knowledge lives here: the walker only calls the API, compares values the API returned with
each other (round trips), and run-length-compresses consecutive days whose (year, month) stayed the same
and whose day / day-of-year / day-of-week each advanced by one.  TLC decides everything else.
"""
from __future__ import annotations

import datetime

_EPOCH_ORD = datetime.date(1970, 1, 1).toordinal()


def _exc(e: BaseException) -> str:
    return type(e).__name__


def cal_header(cal_id: str) -> dict:
    from pyoda_time import CalendarSystem

    cal = CalendarSystem.for_id(cal_id)
    eras_ok = True
    try:
        eras = list(cal.eras())
        if not eras:
            eras_ok = False
        covered = set()
        for er in eras:
            lo, hi = cal.get_min_year_of_era(er), cal.get_max_year_of_era(er)
            # the advertised year-of-era range of each era converts into the calendar's years, and nothing outside it does
            for yoe in (lo, hi):
                a = cal.get_absolute_year(yoe, er)
                if not (cal.min_year <= a <= cal.max_year):
                    eras_ok = False
                covered.add(a)
            for yoe in (lo - 1, hi + 1, lo - 1000, hi + 1000):
                try:
                    cal.get_absolute_year(yoe, er)
                    eras_ok = False          # a year of era outside the advertised range was mapped instead of rejected
                except (ValueError, OverflowError):
                    pass
        if not {cal.min_year, cal.max_year} <= covered:
            eras_ok = False                  # the eras together span the calendar's whole year range
    except Exception:
        eras_ok = False
    return {"op": "cal", "cal": cal_id, "min_year": cal.min_year, "max_year": cal.max_year,
            "min_day": cal._min_days, "eras_ok": eras_ok}


def year_events(args) -> list:
    cal_id, y0, y1 = args
    from pyoda_time import CalendarSystem, LocalDate

    cal = CalendarSystem.for_id(cal_id)
    out = []
    for y in range(y0, y1 + 1):
        months = cal.get_months_in_year(y)
        lens = [cal.get_days_in_month(y, m) for m in range(1, months + 1)]
        firsts = [LocalDate(y, m, 1, cal) for m in range(1, months + 1)]
        d = firsts[0]
        ev = {"op": "year", "y": y, "months": months, "diy": cal.get_days_in_year(y), "leap": cal.is_leap_year(y),
              "lens": lens, "mstarts": [f._days_since_epoch for f in firsts]}
        try:
            era = d.era
            yoe = d.year_of_era
            ev["era"] = era.name
            ev["yoe"] = yoe
            ev["abs"] = cal.get_absolute_year(yoe, era)
            if LocalDate(yoe, d.month, d.day, cal, era) != d:
                ev["abs"] = -(10**6)
        except Exception as e:  # noqa: BLE001
            ev["era"] = "EXC:" + _exc(e)
            ev["yoe"] = 0
            ev["abs"] = -(10**6)
        out.append(ev)
    return out


def walk_segment(args) -> list:
    """Walk days a..b of calendar cal_id; returns run events."""
    cal_id, a, b, other_id, stride = args
    from pyoda_time import CalendarSystem, Instant, LocalDate, Period

    cal = CalendarSystem.for_id(cal_id)
    other = CalendarSystem.for_id(other_id)
    is_iso = cal_id == "ISO"
    ctor = LocalDate._ctor
    runs = []
    cur = None
    prev = None
    anchor = None
    anchor_n = 0
    for n in range(a, b + 1):
        try:
            d = ctor(days_since_epoch=n, calendar=cal)
            y, m, dd = d.year, d.month, d.day
            doy = d.day_of_year
            dow = int(d.day_of_week)
        except Exception as e:  # noqa: BLE001
            runs.append({"op": "run", "y": 0, "m": 0, "d0": 0, "n0": n, "len": 1, "doy0": 0, "dow0": 0,
                         "flags": {"day_to_date_raised_" + _exc(e): False}})
            cur = None
            prev = None
            continue
        fl = {}
        try:
            back = LocalDate(y, m, dd, cal)
            fl["date_to_day_round_trip"] = back._days_since_epoch == n and back == d and hash(back) == hash(d)
        except Exception:  # noqa: BLE001
            fl["date_to_day_round_trip"] = False
        if prev is not None:
            fl["strictly_increasing"] = bool(prev < d and d > prev and not (d < prev) and prev != d and prev.compare_to(d) < 0)
            try:
                fl["plus_one_day"] = prev.plus_days(1) == d and d.plus_days(-1) == prev
            except Exception:  # noqa: BLE001
                fl["plus_one_day"] = False
        if anchor is None:
            anchor, anchor_n = d, n
        if (n - a) % stride == 0:
            try:
                fl["other_calendar_and_back"] = d.with_calendar(other).with_calendar(cal) == d
            except Exception:  # noqa: BLE001
                # the other calendar may not cover this day: not a round trip we can ask for
                pass
            try:
                fl["days_between_and_far_plus_days"] = (
                    Period.days_between(anchor, d) == n - anchor_n and anchor.plus_days(n - anchor_n) == d
                )
            except Exception:  # noqa: BLE001
                fl["days_between_and_far_plus_days"] = False
        if is_iso:
            if -719162 <= n <= 2932896:
                sd = datetime.date.fromordinal(n + _EPOCH_ORD)
                fl["stdlib_date_agrees"] = (
                    (sd.year, sd.month, sd.day) == (y, m, dd) and sd.isoweekday() == dow
                    and sd.timetuple().tm_yday == doy and d.to_date() == sd and LocalDate.from_date(sd) == d
                )
            if (n - a) % stride == 0:
                try:
                    fl["instant_route"] = Instant.from_unix_time_seconds(n * 86400).in_utc().date == d and ctor(days_since_epoch=n) == d
                except Exception:  # noqa: BLE001
                    fl["instant_route"] = False
        if (
            cur is not None
            and cur["y"] == y and cur["m"] == m
            and cur["d0"] + cur["len"] == dd
            and cur["doy0"] + cur["len"] == doy
            and (cur["dow0"] - 1 + cur["len"]) % 7 + 1 == dow
        ):
            cur["len"] += 1
            cf = cur["flags"]
            for k, v in fl.items():
                cf[k] = cf.get(k, True) and v
        else:
            cur = {"op": "run", "y": y, "m": m, "d0": dd, "n0": n, "len": 1, "doy0": doy, "dow0": dow, "flags": fl}
            runs.append(cur)
        prev = d
    return runs


def probes_for_year(args) -> list:
    cal_id, y = args
    from pyoda_time import CalendarSystem, LocalDate

    cal = CalendarSystem.for_id(cal_id)
    out = []

    def attempt(yy, m, d):
        try:
            LocalDate(yy, m, d, cal)
            r = "ok"
        except Exception as e:  # noqa: BLE001
            r = _exc(e)
        out.append({"op": "probe", "kind": "ymd", "y": yy, "m": m, "d": d, "out": r, "under": y})

    months = cal.get_months_in_year(y)
    for m in range(0, months + 2):
        dim = cal.get_days_in_month(y, m) if 1 <= m <= months else 30
        for d in (0, 1, dim, dim + 1, 21, 32):
            attempt(y, m, d)
    return out


def range_probes(cal_id: str) -> list:
    from pyoda_time import CalendarSystem, LocalDate

    cal = CalendarSystem.for_id(cal_id)
    out = []
    for n in (cal._min_days - 1, cal._min_days - 400, cal._max_days + 1, cal._max_days + 400):
        try:
            LocalDate._ctor(days_since_epoch=n, calendar=cal)
            r = "ok"
        except Exception as e:  # noqa: BLE001
            r = _exc(e)
        out.append({"op": "probe", "kind": "day", "n": n, "out": r})
        try:
            iso = LocalDate._ctor(days_since_epoch=n)
            iso.with_calendar(cal)
            r = "ok"
        except Exception as e:  # noqa: BLE001
            r = _exc(e)
        out.append({"op": "probe", "kind": "day", "n": n, "out": r, "route": "with_calendar"})
    for yy in (cal.min_year - 1, cal.max_year + 1):
        for m, d in ((1, 1), (7, 1)):
            try:
                LocalDate(yy, m, d, cal)
                r = "ok"
            except Exception as e:  # noqa: BLE001
                r = _exc(e)
            out.append({"op": "probe", "kind": "ymd", "y": yy, "m": m, "d": d, "out": r})
    return out
