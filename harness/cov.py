"""Development aid (not used by registered commands): line coverage of /repo under a check's drivers.

VERIF_COVERAGE=<dir> makes harness.main and the fork workers of parallel_map record which lines of pyoda_time ran
(coverage.py, sys.monitoring core so that it does not fight the line scheduler's sys.settrace).  tools/anchorcov.py
turns the data into "anchored lines no driver reaches" per property.
"""
from __future__ import annotations

import os

_cov = None


def start():
    global _cov
    d = os.environ.get("VERIF_COVERAGE")
    if not d or _cov is not None:
        return
    os.environ.setdefault("COVERAGE_CORE", "sysmon")
    import coverage

    from harness.core import REPO

    os.makedirs(d, exist_ok=True)
    _cov = coverage.Coverage(data_file=os.path.join(d, "cov"), data_suffix=True, include=[str(REPO / "pyoda_time" / "*")], config_file=False)
    _cov.start()


def save():
    if _cov is not None:
        try:
            _cov.stop()
            _cov.save()
        except Exception:  # noqa: BLE001
            pass


def worker_init():
    """Pool initializer: a forked worker inherits the running collector; make it write its own data file at exit."""
    if _cov is not None:
        import multiprocessing.util as mu

        mu.Finalize(None, save, exitpriority=100)
