"""Enforce a thread schedule on real threads at Python line granularity.

Each participating thread installs a trace function limited to the files under test; at every
`line` event in those files the thread parks until the controller grants it one step.  A thread
that blocks on a real lock never reaches its next line event: after `stall_s` the controller
marks it blocked and moves on (a later grant picks it up once it has parked again).

The schedule is a list of thread indices (from a TLC behaviour).  It is adversarial input, not an
oracle: whatever interleaving actually results, the recorded history (start/end stamps from one
atomic counter) is judged by TLC.
"""

from __future__ import annotations

import itertools
import sys
import threading
import time


class LineScheduler:
    def __init__(self, files: tuple[str, ...], stall_s: float = 0.02, hang_s: float = 2.0):
        self.files = files
        self.stall_s = stall_s
        self.hang_s = hang_s
        self.cv = threading.Condition()
        self.state: dict[int, str] = {}  # tid -> new|running|parked|done
        self.grant: dict[int, bool] = {}
        self.free_run = False
        self.counter = itertools.count(1)

    # -- in worker threads ---------------------------------------------------------------
    def _tracer_for(self, tid):
        files = self.files

        def local(frame, event, arg):
            if event == "line":
                self._park(tid)
            return local

        def glob(frame, event, arg):
            if event == "call" and frame.f_code.co_filename.endswith(files):
                return local
            return None

        return glob

    def _park(self, tid):
        with self.cv:
            if self.free_run:
                return
            self.state[tid] = "parked"
            self.cv.notify_all()
            while not self.grant.get(tid) and not self.free_run:
                self.cv.wait()
            self.grant[tid] = False
            self.state[tid] = "running"

    def _worker(self, tid, fn):
        sys.settrace(self._tracer_for(tid))
        try:
            with self.cv:
                self.state[tid] = "parked"
                self.cv.notify_all()
                while not self.grant.get(tid) and not self.free_run:
                    self.cv.wait()
                self.grant[tid] = False
                self.state[tid] = "running"
            fn(self)
        finally:
            sys.settrace(None)
            with self.cv:
                self.state[tid] = "done"
                self.cv.notify_all()

    # -- controller ----------------------------------------------------------------------------
    def _wait_settled(self, tid, timeout):
        """Wait until thread tid is parked or done (True) or the timeout passes (False = blocked)."""
        end = time.monotonic() + timeout
        with self.cv:
            while self.state.get(tid) not in ("parked", "done"):
                left = end - time.monotonic()
                if left <= 0:
                    return False
                self.cv.wait(left)
            return True

    def _step(self, tid):
        with self.cv:
            if self.state.get(tid) != "parked":
                return False
            self.grant[tid] = True
            self.state[tid] = "running"
            self.cv.notify_all()
        self._wait_settled(tid, self.stall_s)
        return True

    def run(self, fns, schedule):
        """fns: list of callables fn(sched) (thread bodies); schedule: list of thread indices."""
        n = len(fns)
        threads = []
        for tid, fn in enumerate(fns):
            self.state[tid] = "new"
            th = threading.Thread(target=self._worker, args=(tid, fn), daemon=True)
            threads.append(th)
            th.start()
        for tid in range(n):
            self._wait_settled(tid, 1.0)
        for tid in schedule:
            if 0 <= tid < n:
                self._step(tid)
        # drain: round-robin single steps until everyone is done or nobody can move
        idle_since = time.monotonic()
        while True:
            with self.cv:
                if all(self.state[t] == "done" for t in range(n)):
                    break
            progressed = False
            for tid in range(n):
                if self._step(tid):
                    progressed = True
            if progressed:
                idle_since = time.monotonic()
            elif time.monotonic() - idle_since > self.hang_s:
                break
            else:
                time.sleep(0.005)
        hung = [t for t in range(n) if self.state[t] != "done"]
        if hung:
            with self.cv:
                self.free_run = True  # let anything parked go; truly blocked threads stay blocked (daemon)
                self.cv.notify_all()
        else:
            for th in threads:
                th.join(1.0)
        return hung

    def stamp(self):
        return next(self.counter)
