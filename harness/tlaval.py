"""Parser for TLA+ values as TLC prints them (PrintT output, -simulate trace files).

tuples <<..>> -> list, sets {..} -> list, records [a |-> v] -> dict, functions (k :> v @@ ..) -> dict,
strings, integers, TRUE/FALSE, model values (as str).
"""
from __future__ import annotations

import re

_ID = re.compile(r"[A-Za-z_][A-Za-z0-9_]*")
_INT = re.compile(r"-?\d+")


class _P:
    def __init__(self, s: str):
        self.s = s
        self.i = 0

    def ws(self):
        s = self.s
        while self.i < len(s) and s[self.i] in " \n\t\r":
            self.i += 1

    def eat(self, tok: str) -> bool:
        self.ws()
        if self.s.startswith(tok, self.i):
            self.i += len(tok)
            return True
        return False

    def val(self):
        self.ws()
        s = self.s
        if self.eat("<<"):
            items = []
            if self.eat(">>"):
                return items
            while True:
                items.append(self.val())
                if self.eat(">>"):
                    return items
                if not self.eat(","):
                    raise ValueError(f"tuple at {self.i}: {s[self.i:self.i+30]!r}")
        if self.eat("{"):
            items = []
            if self.eat("}"):
                return items
            while True:
                items.append(self.val())
                if self.eat("}"):
                    return items
                if not self.eat(","):
                    raise ValueError("set")
        if self.eat("["):
            rec = {}
            while True:
                self.ws()
                m = _ID.match(s, self.i)
                if not m:
                    raise ValueError("record field")
                self.i = m.end()
                if not self.eat("|->"):
                    raise ValueError("record arrow")
                rec[m.group(0)] = self.val()
                if self.eat("]"):
                    return rec
                if not self.eat(","):
                    raise ValueError("record sep")
        if self.eat("("):
            fn = {}
            while True:
                k = self.val()
                if not self.eat(":>"):
                    raise ValueError("function :>")
                v = self.val()
                fn[k if not isinstance(k, list) else tuple(k)] = v
                if self.eat(")"):
                    return fn
                if not self.eat("@@"):
                    raise ValueError("function @@")
        if s[self.i] == '"':
            j = self.i + 1
            buf = []
            while s[j] != '"':
                if s[j] == "\\":
                    j += 1
                buf.append(s[j])
                j += 1
            self.i = j + 1
            return "".join(buf)
        m = _INT.match(s, self.i)
        if m:
            self.i = m.end()
            return int(m.group(0))
        m = _ID.match(s, self.i)
        if m:
            self.i = m.end()
            w = m.group(0)
            return {"TRUE": True, "FALSE": False}.get(w, w)
        raise ValueError(f"value at {self.i}: {s[self.i:self.i+30]!r}")


def parse(s: str):
    p = _P(s)
    v = p.val()
    return v


_STATE_HDR = re.compile(r"^\\\* <(\w+)(?:\(([^)]*)\))? line", re.M)


def parse_behaviour(text: str) -> list[dict]:
    """Parse a TLC -simulate trace file into [{'action': name, 'args': str, 'vars': {var: value}}]."""
    states = []
    blocks = re.split(r"^STATE_\d+ ==\s*$", text, flags=re.M)
    headers = [None]
    # the comment line naming the action precedes each STATE_n
    pre = blocks[0]
    hdrs = []
    for b in blocks[:-1]:
        m = None
        for m in _STATE_HDR.finditer(b):
            pass
        hdrs.append((m.group(1), m.group(2) or "") if m else ("Init", ""))
    for (act, args), b in zip(hdrs, blocks[1:]):
        body = b.split("\n\\* <")[0].split("\n====")[0]
        vs = {}
        parts = re.split(r"^/\\ ", body, flags=re.M)
        for part in parts:
            part = part.strip()
            if not part:
                continue
            m = re.match(r"(\w+) = (.*)$", part, flags=re.S)
            if m:
                try:
                    vs[m.group(1)] = parse(m.group(2).strip())
                except Exception:
                    vs[m.group(1)] = m.group(2).strip()
        states.append({"action": act, "args": args, "vars": vs})
    return states
