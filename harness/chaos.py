"""Development aid (tools/chaos.sh; never used by registered commands): make the implementation misbehave at random.

VERIF_CHAOS=<n> wraps a few leaf constructors of the package so that every n-th *internal* call (a call made from inside
pyoda_time, not by a driver) raises ValueError.  Every check must then end with a VIOLATION (exit 1): the drivers record the
exception as an event or it escapes as implementation_raised_while_being_driven, and the trace specifications reject the
incomplete events instead of failing to evaluate them (exit 2 would mean a specification that is not total).
"""
from __future__ import annotations

import os
import sys


def install():
    n = int(os.environ.get("VERIF_CHAOS", "0") or 0)
    if n <= 0:
        return
    import pyoda_time
    from pyoda_time._local_instant import _LocalInstant
    from pyoda_time.text._value_cursor import _ValueCursor
    from pyoda_time.time_zones import ZoneInterval

    root = os.path.dirname(pyoda_time.__file__)
    state = {"k": 0}

    def wrap(owner, name):
        raw = owner.__dict__[name]
        fn = raw.__func__ if isinstance(raw, (classmethod, staticmethod)) else raw

        def chaotic(*a, **kw):
            caller = sys._getframe(1).f_code.co_filename
            if caller.startswith(root):
                state["k"] += 1
                if state["k"] % n == 0:
                    raise ValueError("chaos: injected failure in " + name)
            return fn(*a, **kw)

        setattr(owner, name, classmethod(chaotic) if isinstance(raw, classmethod) else staticmethod(chaotic) if isinstance(raw, staticmethod) else chaotic)

    for owner, name in ((pyoda_time.Duration, "_ctor"), (pyoda_time.Instant, "_ctor"), (pyoda_time.LocalDate, "_ctor"),
                        (pyoda_time.LocalTime, "_ctor"), (pyoda_time.Offset, "from_seconds"), (_LocalInstant, "_ctor"),
                        (pyoda_time.LocalDateTime, "_ctor"), (pyoda_time.OffsetDateTime, "_ctor"), (ZoneInterval, "__init__"),
                        (_ValueCursor, "_parse_digits"), (pyoda_time.Period, "_ctor")):
        try:
            wrap(owner, name)
        except Exception:  # noqa: BLE001
            pass
