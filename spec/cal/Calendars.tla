------------------------------ MODULE Calendars ------------------------------
(* The arithmetic calendars of property C02, written from their published      *)
(* rules (Dershowitz & Reingold, "Calendrical Calculations"; ISO 8601; the     *)
(* classical Hebrew molad arithmetic; Birashk's 2820-year Persian cycle), NOT  *)
(* from the implementation.  Everything is a function on the shared day line:  *)
(* day 0 = 1970-01-01 (Gregorian).  All intermediates fit 32-bit integers.     *)
(*                                                                            *)
(* A calendar is given by                                                      *)
(*   YearStart(cal, y)      day number of the first day of year y               *)
(*   MonthsInYear(cal, y)   number of months                                     *)
(*   MonthLen(cal, y, p)    length of the p-th month *in calendar order*         *)
(*   PosOfMonth / MonthAtPos  month number <-> position in the year              *)
(* from which DayOf, day-of-year, year length, leap years follow.               *)
EXTENDS Integers, Sequences, FiniteSets, Arith

(* ------------------------------------------------------------------------- *)
(* Gregorian (proleptic), ISO 8601                                            *)
GregLeap(y) == (y % 4 = 0 /\ y % 100 # 0) \/ y % 400 = 0
\* days from 0001-01-01 to y-01-01 (floor division makes this right for y <= 0)
GregDaysBeforeYear(y) == 365 * (y - 1) + ((y - 1) \div 4) - ((y - 1) \div 100) + ((y - 1) \div 400)
\* 1970-01-01 is 719162 days after 0001-01-01
GregYearStart(y) == GregDaysBeforeYear(y) - GregDaysBeforeYear(1970)
GJMonthLen(leap, m) == CASE m \in {1, 3, 5, 7, 8, 10, 12} -> 31
                         [] m \in {4, 6, 9, 11} -> 30
                         [] m = 2 -> IF leap THEN 29 ELSE 28
GJDaysBeforeMonth(leap, m) ==
  LET f[k \in 0..12] == IF k = 0 THEN 0 ELSE f[k - 1] + GJMonthLen(leap, k) IN f[m - 1]
GregDay(y, m, d) == GregYearStart(y) + GJDaysBeforeMonth(GregLeap(y), m) + d - 1

(* Julian (proleptic).  Anchored by the Gregorian reform: the day after        *)
(* Thursday 4 October 1582 (Julian) was Friday 15 October 1582 (Gregorian).    *)
JulLeap(y) == y % 4 = 0
JulDaysBeforeYear(y) == 365 * (y - 1) + ((y - 1) \div 4)
JulRaw(y, m, d) == JulDaysBeforeYear(y) + GJDaysBeforeMonth(JulLeap(y), m) + d - 1
JulAnchor == GregDay(1582, 10, 15) - JulRaw(1582, 10, 5)
JulYearStart(y) == JulDaysBeforeYear(y) + JulAnchor
JulDay(y, m, d) == JulRaw(y, m, d) + JulAnchor

(* Coptic: 12 months of 30 days + 5 epagomenal days (6 when y mod 4 = 3).       *)
(* Epoch: 1 Thout AM 1 = 29 August 284 CE (Julian).                             *)
CopticEpoch == JulDay(284, 8, 29)
CopticLeap(y) == y % 4 = 3
CopticYearStart(y) == CopticEpoch + 365 * (y - 1) + (y \div 4)

(* Tabular Islamic: 30-year cycle with 11 leap years; months alternate 30/29,   *)
(* the 12th has 30 days in leap years.  Civil epoch Friday 16 July 622 (Julian), *)
(* astronomical epoch Thursday 15 July 622 (Julian).                            *)
IslLeapSet(pat) == CASE pat = "Base15" -> {2, 5, 7, 10, 13, 15, 18, 21, 24, 26, 29}
                     [] pat = "Base16" -> {2, 5, 7, 10, 13, 16, 18, 21, 24, 26, 29}
                     [] pat = "Indian" -> {2, 5, 8, 10, 13, 16, 19, 21, 24, 27, 29}
                     [] pat = "HabashAlHasib" -> {2, 5, 8, 11, 13, 16, 19, 21, 24, 27, 30}
IslYearInCycle(y) == ((y - 1) % 30) + 1
IslLeap(pat, y) == IslYearInCycle(y) \in IslLeapSet(pat)
IslEpoch(ep) == IF ep = "Civil" THEN JulDay(622, 7, 16) ELSE JulDay(622, 7, 15)
IslLeapsBefore(pat, y) ==        \* leap years among 1..y-1
  11 * ((y - 1) \div 30) + Cardinality({k \in IslLeapSet(pat) : k <= (y - 1) % 30})
IslYearStart(pat, ep, y) == IslEpoch(ep) + 354 * (y - 1) + IslLeapsBefore(pat, y)
IslMonthLen(pat, y, m) == IF m % 2 = 1 THEN 30 ELSE IF m = 12 /\ IslLeap(pat, y) THEN 30 ELSE 29

(* Hebrew: molad arithmetic.  A month is 29d 12h 793p (1h = 1080p); the molad   *)
(* of Tishri AM 1 (BaHaRaD) is day 2, 5h 204p, counted here as 12084 parts      *)
(* after the reference point; leap years are those with (7y + 1) mod 19 < 7.     *)
(* Dehiyyot: lo ADU rosh (Tishri 1 not on Sun/Wed/Fri, folded with molad zaken   *)
(* into the classical "(3(d+1)) mod 7 < 3" form), then GaTaRaD / BeTUTeKaPoT as  *)
(* year-length corrections (no year of 356 or 382 days).                         *)
(* Epoch: 1 Tishri AM 1 = Monday 7 October 3761 BCE (Julian; year -3760).        *)
HebLeap(y) == (7 * y + 1) % 19 < 7
HebMonthsElapsed(y) == (235 * y - 234) \div 19
HebElapsed(y) ==
  LET me    == HebMonthsElapsed(y)
      parts == 12084 + 13753 * me
      d     == 29 * me + (parts \div 25920)
  IN  IF (3 * (d + 1)) % 7 < 3 THEN d + 1 ELSE d
HebCorrection(y) ==
  LET ny0 == HebElapsed(y - 1)
      ny1 == HebElapsed(y)
      ny2 == HebElapsed(y + 1)
  IN  IF ny2 - ny1 = 356 THEN 2 ELSE IF ny1 - ny0 = 382 THEN 1 ELSE 0
HebEpoch == JulDay(-3760, 10, 7)
HebYearStart(y) == HebEpoch + HebElapsed(y) + HebCorrection(y)
HebYearLen(y) == HebYearStart(y + 1) - HebYearStart(y)
\* length of the p-th month counted from Tishri
HebLenByPos(y, p) ==
  LET len == HebYearLen(y)
      longH  == len \in {355, 385}       \* "complete" year: Heshvan has 30
      shortK == len \in {353, 383}       \* "deficient" year: Kislev has 29
  IN  IF HebLeap(y)
      THEN CASE p = 1 -> 30 [] p = 2 -> (IF longH THEN 30 ELSE 29) [] p = 3 -> (IF shortK THEN 29 ELSE 30)
             [] p = 4 -> 29 [] p = 5 -> 30 [] p = 6 -> 30 [] p = 7 -> 29 [] p = 8 -> 30 [] p = 9 -> 29
             [] p = 10 -> 30 [] p = 11 -> 29 [] p = 12 -> 30 [] p = 13 -> 29
      ELSE CASE p = 1 -> 30 [] p = 2 -> (IF longH THEN 30 ELSE 29) [] p = 3 -> (IF shortK THEN 29 ELSE 30)
             [] p = 4 -> 29 [] p = 5 -> 30 [] p = 6 -> 29 [] p = 7 -> 30 [] p = 8 -> 29 [] p = 9 -> 30
             [] p = 10 -> 29 [] p = 11 -> 30 [] p = 12 -> 29

(* Persian: months 1-6 have 31 days, 7-11 have 30, month 12 has 29 (30 in leap  *)
(* years).  Epoch 1 Farvardin AP 1.                                             *)
(*  - "simple": 33-year cycle, leap when y mod 33 in {1,5,9,13,17,22,26,30};     *)
(*     epoch 18 March 622 (Julian) as used by the BCL-compatible simple calendar. *)
(*  - "arithmetic": Birashk's 2820-year cycle anchored at AP 475; epoch           *)
(*     19 March 622 (Julian) (Calendrical Calculations).                          *)
PersSimpleLeap(y) == (y % 33) \in {1, 5, 9, 13, 17, 22, 26, 30}
PersSimpleLeapsBefore(y) ==      \* leap years among 1..y-1
  8 * ((y - 1) \div 33) + Cardinality({k \in {1, 5, 9, 13, 17, 22, 26, 30} : k <= (y - 1) % 33})
PersSimpleEpoch == JulDay(622, 3, 18)
PersSimpleYearStart(y) == PersSimpleEpoch + 365 * (y - 1) + PersSimpleLeapsBefore(y)

PersArithEpoch == JulDay(622, 3, 19)
PersArithYearStart(y) ==
  LET y0   == y - 474
      yr   == (y0 % 2820) + 474
  IN  PersArithEpoch + 1029983 * (y0 \div 2820) + 365 * (yr - 1) + ((31 * yr - 5) \div 128)
PersArithLeap(y) == PersArithYearStart(y + 1) - PersArithYearStart(y) = 366
PersMonthLen(leap, m) == IF m <= 6 THEN 31 ELSE IF m <= 11 THEN 30 ELSE IF leap THEN 30 ELSE 29

(* ------------------------------------------------------------------------- *)
(* Uniform interface keyed by the calendar id                                 *)
HijriIds == {"Hijri Civil-Base15", "Hijri Astronomical-Base15", "Hijri Civil-Base16", "Hijri Astronomical-Base16",
             "Hijri Civil-Indian", "Hijri Astronomical-Indian", "Hijri Civil-HabashAlHasib",
             "Hijri Astronomical-HabashAlHasib"}
ArithmeticIds == {"ISO", "Gregorian", "Julian", "Coptic", "Hebrew Civil", "Hebrew Scriptural",
                  "Persian Simple", "Persian Arithmetic"} \cup HijriIds

HijriPattern(cal) == CASE cal \in {"Hijri Civil-Base15", "Hijri Astronomical-Base15"} -> "Base15"
                       [] cal \in {"Hijri Civil-Base16", "Hijri Astronomical-Base16"} -> "Base16"
                       [] cal \in {"Hijri Civil-Indian", "Hijri Astronomical-Indian"} -> "Indian"
                       [] OTHER -> "HabashAlHasib"
HijriEpochKind(cal) == IF cal \in {"Hijri Civil-Base15", "Hijri Civil-Base16", "Hijri Civil-Indian",
                                    "Hijri Civil-HabashAlHasib"} THEN "Civil" ELSE "Astronomical"
IsHebrew(cal) == cal \in {"Hebrew Civil", "Hebrew Scriptural"}

YearStart(cal, y) ==
  CASE cal \in {"ISO", "Gregorian"} -> GregYearStart(y)
    [] cal = "Julian" -> JulYearStart(y)
    [] cal = "Coptic" -> CopticYearStart(y)
    [] cal \in HijriIds -> IslYearStart(HijriPattern(cal), HijriEpochKind(cal), y)
    [] IsHebrew(cal) -> HebYearStart(y)
    [] cal = "Persian Simple" -> PersSimpleYearStart(y)
    [] cal = "Persian Arithmetic" -> PersArithYearStart(y)

IsLeapYear(cal, y) ==
  CASE cal \in {"ISO", "Gregorian"} -> GregLeap(y)
    [] cal = "Julian" -> JulLeap(y)
    [] cal = "Coptic" -> CopticLeap(y)
    [] cal \in HijriIds -> IslLeap(HijriPattern(cal), y)
    [] IsHebrew(cal) -> HebLeap(y)
    [] cal = "Persian Simple" -> PersSimpleLeap(y)
    [] cal = "Persian Arithmetic" -> PersArithLeap(y)

MonthsInYear(cal, y) ==
  CASE cal = "Coptic" -> 13
    [] IsHebrew(cal) -> IF HebLeap(y) THEN 13 ELSE 12
    [] OTHER -> 12

\* position (1 = first month of the year) of month number m, and back
PosOfMonth(cal, y, m) ==
  IF cal = "Hebrew Scriptural"
  THEN IF m >= 7 THEN m - 6 ELSE m + MonthsInYear(cal, y) - 6
  ELSE m
MonthAtPos(cal, y, p) ==
  IF cal = "Hebrew Scriptural"
  THEN IF p <= MonthsInYear(cal, y) - 6 THEN p + 6 ELSE p - (MonthsInYear(cal, y) - 6)
  ELSE p

MonthLenAtPos(cal, y, p) ==
  CASE cal \in {"ISO", "Gregorian"} -> GJMonthLen(GregLeap(y), p)
    [] cal = "Julian" -> GJMonthLen(JulLeap(y), p)
    [] cal = "Coptic" -> IF p <= 12 THEN 30 ELSE IF CopticLeap(y) THEN 6 ELSE 5
    [] cal \in HijriIds -> IslMonthLen(HijriPattern(cal), y, p)
    [] IsHebrew(cal) -> HebLenByPos(y, p)
    [] cal = "Persian Simple" -> PersMonthLen(PersSimpleLeap(y), p)
    [] cal = "Persian Arithmetic" -> PersMonthLen(PersArithLeap(y), p)

DaysInMonth(cal, y, m) == MonthLenAtPos(cal, y, PosOfMonth(cal, y, m))
DaysBeforePos(cal, y, p) ==
  LET f[k \in 0..13] == IF k = 0 THEN 0 ELSE f[k - 1] + MonthLenAtPos(cal, y, k) IN f[p - 1]
DaysInYear(cal, y) == DaysBeforePos(cal, y, MonthsInYear(cal, y) + 1)

ValidYMD(cal, y, m, d) == /\ m \in 1..MonthsInYear(cal, y)
                          /\ d \in 1..DaysInMonth(cal, y, m)
DayOfYear(cal, y, m, d) == DaysBeforePos(cal, y, PosOfMonth(cal, y, m)) + d
DayOf(cal, y, m, d) == YearStart(cal, y) + DayOfYear(cal, y, m, d) - 1

\* ISO day of week 1 = Monday .. 7 = Sunday; 1970-01-01 was a Thursday
DayOfWeek(n) == ((n + 3) % 7) + 1

\* documented year ranges of the supported calendars
MinYear(cal) == CASE cal \in {"ISO", "Gregorian"} -> -9998 [] cal = "Julian" -> -9997 [] OTHER -> 1
MaxYear(cal) == CASE cal \in {"ISO", "Gregorian"} -> 9999 [] cal = "Julian" -> 9998
                  [] cal = "Coptic" -> 9715 [] cal \in HijriIds -> 9665 [] IsHebrew(cal) -> 9999
                  [] cal \in {"Persian Simple", "Persian Arithmetic"} -> 9377
\* (constant functions: TLC evaluates them once)
MinDayTab == [c \in ArithmeticIds |-> YearStart(c, MinYear(c))]
MaxDayTab == [c \in ArithmeticIds |-> YearStart(c, MaxYear(c)) + DaysInYear(c, MaxYear(c)) - 1]
MinDay(cal) == MinDayTab[cal]
MaxDay(cal) == MaxDayTab[cal]

\* eras: Gregorian/Julian have BCE/CE, every other calendar a single era
EraOf(cal, y) == IF cal \in {"ISO", "Gregorian", "Julian"} THEN (IF y > 0 THEN "CE" ELSE "BCE") ELSE "single"
YearOfEra(cal, y) == IF cal \in {"ISO", "Gregorian", "Julian"} /\ y <= 0 THEN 1 - y ELSE y
=============================================================================
