-------------------------- MODULE CalendarOdometer --------------------------
(* Month-level odometer over the arithmetic calendars of Calendars.tla.        *)
(* One initial state per (calendar, year); NextMonth advances by the length of *)
(* the current month.  TLC checks at every month start that the odometer (a     *)
(* running sum of month lengths) agrees with the closed forms, and at the end   *)
(* of each year that the next year starts exactly where this one ends.  This is *)
(* the internal consistency proof of the oracle used by C01/C02/C09/C16:        *)
(* DayOf is a bijection between valid (y, m, d) and [MinDay, MaxDay], strictly   *)
(* increasing in the calendar's own order.                                      *)
EXTENDS Calendars, T3

CONSTANTS CalSet, YearStep, YearPhase
VARIABLES cal, y, p, n

ovars == <<cal, y, p, n>>

Years(c) == {yy \in MinYear(c)..MaxYear(c) :
               yy % YearStep = YearPhase \/ yy - MinYear(c) < 40 \/ MaxYear(c) - yy < 40}

Init == /\ cal \in CalSet
        /\ y \in Years(cal)
        /\ p = 1
        /\ n = YearStart(cal, y)

NextMonth == /\ p < MonthsInYear(cal, y)
             /\ n' = n + MonthLenAtPos(cal, y, p)
             /\ p' = p + 1
             /\ UNCHANGED <<cal, y>>

Spec == Init /\ [][NextMonth]_ovars

m == MonthAtPos(cal, y, p)
len == MonthLenAtPos(cal, y, p)

\* running sum = closed form, month numbering is a bijection on 1..MonthsInYear
MonthStartAgrees == /\ n = DayOf(cal, y, m, 1)
                    /\ PosOfMonth(cal, y, m) = p
                    /\ m \in 1..MonthsInYear(cal, y)
                    /\ DaysInMonth(cal, y, m) = len
                    /\ DayOfYear(cal, y, m, 1) = n - YearStart(cal, y) + 1
\* every day of the month is a distinct, increasing day number inside the range
\* (DayOf is linear in d by definition, so the first and last day of the month suffice)
DaysOfMonthOrdered == /\ len >= 1
                      /\ DayOf(cal, y, m, len) = n + len - 1
                      /\ n >= MinDay(cal) /\ n + len - 1 <= MaxDay(cal)
\* the year ends where the next begins (so the map is onto the range, with no gaps or overlaps)
YearCloses == p = MonthsInYear(cal, y) =>
                /\ n + len = YearStart(cal, y + 1)
                /\ DaysInYear(cal, y) = YearStart(cal, y + 1) - YearStart(cal, y)
\* leap flag <=> the published long-year shapes
AllowedYearLengths ==
  LET L == DaysInYear(cal, y) IN
  CASE cal \in {"ISO", "Gregorian", "Julian", "Coptic", "Persian Simple", "Persian Arithmetic"} ->
         L = (IF IsLeapYear(cal, y) THEN 366 ELSE 365)
    [] cal \in HijriIds -> L = (IF IsLeapYear(cal, y) THEN 355 ELSE 354)
    [] IsHebrew(cal) -> IF IsLeapYear(cal, y) THEN L \in {383, 384, 385} ELSE L \in {353, 354, 355}
\* second formulations of the oracle itself
SecondFormulation ==
  /\ cal \in {"ISO", "Gregorian"} =>
        \* days-before-year by counting leap years in 400-year blocks (146097 days each)
        LET q == (y - 1) \div 400  r == (y - 1) % 400 IN
        GregDaysBeforeYear(y) = 146097 * q + 365 * r + (r \div 4) - (r \div 100)
  /\ IsHebrew(cal) =>
        \* Rosh Hashanah never falls on Sunday, Wednesday or Friday (lo ADU rosh)
        DayOfWeek(YearStart(cal, y)) \notin {7, 3, 5}
  /\ cal \in HijriIds => (y % 30 = 1 => YearStart(cal, y + 30) - YearStart(cal, y) = 10631)
  /\ cal = "Persian Arithmetic" => (y >= 475 /\ y + 2820 <= MaxYear(cal) =>
                                       YearStart(cal, y + 2820) - YearStart(cal, y) = 1029983)
  /\ cal = "Persian Simple" => (y + 33 <= MaxYear(cal) => YearStart(cal, y + 33) - YearStart(cal, y) = 12053)
\* the documented Instant range is the ISO calendar's range
RangeIsDocumented == (cal = "ISO") => (MinDay(cal) = InstantMinDay /\ MaxDay(cal) = InstantMaxDay)
=============================================================================
