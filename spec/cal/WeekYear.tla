------------------------------ MODULE WeekYear ------------------------------
(* Week-year rules (property C16), stated on the day line.                      *)
(* A rule is (minDays in first week, first day of week, irregular?).             *)
(* Regular rules (ISO 8601 is minDays = 4, Monday): week-year wy starts on the     *)
(* unique day s with weekday = first day of week and                               *)
(*       ys - (7 - minDays) <= s <= ys + minDays - 1,   ys = start of calendar year *)
(* i.e. week 1 is the first week with at least minDays days in the calendar year.    *)
EXTENDS Integers, Arith

Dow(n) == ((n + 3) % 7) + 1            \* ISO weekday of day n (1 = Monday .. 7 = Sunday)

\* start of the week (beginning on firstDow) that contains day n
WeekStart(n, firstDow) == n - ((Dow(n) - firstDow + 7) % 7)
RegularStart(ys, minDays, firstDow) ==
  LET w == WeekStart(ys, firstDow) IN
  IF 7 - (ys - w) >= minDays THEN w ELSE w + 7
\* s is the declarative week-year start
IsWeekYearStart(s, ys, minDays, firstDow) ==
  /\ Dow(s) = firstDow
  /\ s >= ys - (7 - minDays) /\ s <= ys + minDays - 1

\* weekday navigation
NextDow(n, dow) == n + ((dow - Dow(n) + 6) % 7) + 1            \* nearest strictly later day with that weekday
PrevDow(n, dow) == n - (((Dow(n) - dow + 6) % 7) + 1)
NextOrSame(n, dow) == IF Dow(n) = dow THEN n ELSE NextDow(n, dow)
PrevOrSame(n, dow) == IF Dow(n) = dow THEN n ELSE PrevDow(n, dow)
\* n-th (1..4) or, for 5, n-th-or-last occurrence of a weekday in the month [first, first + len - 1]
NthDowOfMonth(first, len, occ, dow) ==
  LET d1 == NextOrSame(first, dow)
      cand == d1 + (occ - 1) * 7
  IN  IF cand <= first + len - 1 THEN cand ELSE cand - 7
=============================================================================
