------------------------------ MODULE DateArith ------------------------------
(* Date arithmetic of property C09, on top of Calendars.tla.                       *)
(*  - days/weeks: plain addition on the day line                                    *)
(*  - months: every month of a calendar has an ordinal (months since the calendar's  *)
(*    month 1 of year 0 in chronological order); adding k months lands in the month   *)
(*    with ordinal + k, the day of month kept or reduced to that month's length       *)
(*  - years: year + k, month kept, day reduced to the month's length; Hebrew uses its  *)
(*    documented rule (Adar II -> Adar in a common year, Adar of a common year ->       *)
(*    Adar II in a leap year, an invalid 30th of Heshvan/Kislev/Adar rolls to the 1st   *)
(*    of the following month).                                                          *)
EXTENDS Integers, Calendars

RegularMonths(cal) == IF cal = "Coptic" THEN 13 ELSE 12
MonthOrdinal(cal, y, m) ==
  IF IsHebrew(cal) THEN HebMonthsElapsed(y) + PosOfMonth(cal, y, m) - 1
  ELSE y * RegularMonths(cal) + m - 1
\* the (year, position) with a given ordinal
HebYearOfOrdinal(o) ==
  LET g == (19 * o + 234) \div 235          \* estimate, then correct by at most one
  IN  IF HebMonthsElapsed(g + 1) <= o THEN g + 1 ELSE IF HebMonthsElapsed(g) > o THEN g - 1 ELSE g
YearPosOfOrdinal(cal, o) ==
  IF IsHebrew(cal) THEN LET y == HebYearOfOrdinal(o) IN <<y, o - HebMonthsElapsed(y) + 1>>
  ELSE <<o \div RegularMonths(cal), (o % RegularMonths(cal)) + 1>>

Min(a, b) == IF a <= b THEN a ELSE b
\* result of adding k months to (y, m, d): <<y2, m2, d2>>
PlusMonths(cal, y, m, d, k) ==
  LET yp == YearPosOfOrdinal(cal, MonthOrdinal(cal, y, m) + k)
      y2 == yp[1]
      m2 == MonthAtPos(cal, y2, yp[2])
  IN  <<y2, m2, Min(d, DaysInMonth(cal, y2, m2))>>
YearInRange(cal, y) == y >= MinYear(cal) /\ y <= MaxYear(cal)

\* Hebrew "scriptural" month number (Nisan = 1 .. Adar / Adar I = 12, Adar II = 13) of month m
HebScriptural(cal, y, m) == IF cal = "Hebrew Scriptural" THEN m
                            ELSE LET p == m IN        \* civil: position = month number
                                 IF p <= MonthsInYear(cal, y) - 6 THEN p + 6 ELSE p - (MonthsInYear(cal, y) - 6)
HebFromScriptural(cal, y, sm) == IF cal = "Hebrew Scriptural" THEN sm
                                 ELSE IF sm >= 7 THEN sm - 6 ELSE sm + MonthsInYear(cal, y) - 6
HebScripturalLen(y, sm) == DaysInMonth("Hebrew Scriptural", y, sm)
PlusYears(cal, y, m, d, k) ==
  LET y2 == y + k IN
  IF IsHebrew(cal)
  THEN LET sm0 == HebScriptural(cal, y, m)
           sm1 == IF sm0 = 13 /\ ~HebLeap(y2) THEN 12
                  ELSE IF sm0 = 12 /\ HebLeap(y2) /\ ~HebLeap(y) THEN 13 ELSE sm0
           roll == d = 30 /\ sm1 \in {8, 9, 12} /\ HebScripturalLen(y2, sm1) # 30
           sm2 == IF roll THEN (IF sm1 + 1 = 13 THEN 1 ELSE sm1 + 1) ELSE sm1
           d2 == IF roll THEN 1 ELSE Min(d, HebScripturalLen(y2, sm2))
       IN  <<y2, HebFromScriptural(cal, y2, sm2), d2>>
  ELSE <<y2, m, Min(d, DaysInMonth(cal, y2, m))>>
=============================================================================
