---- MODULE MC_LazyTables ----
EXTENDS LazyTables
====
