---------------------------- MODULE MC_ValueLaws ----------------------------
(* LexCmp is a total order consistent with key equality on all triples of small keys. *)
EXTENDS ValueLaws
VARIABLES a, b, c
Keys == {<<x, y>> : x \in 0..2, y \in -1..1} \cup {<<x>> : x \in 0..2}
Init == a \in Keys /\ b \in Keys /\ c \in Keys
Next == UNCHANGED <<a, b, c>>
Spec == Init /\ [][Next]_<<a, b, c>>
TotalOrder ==
  /\ LexCmp(a, a) = 0
  /\ LexCmp(a, b) = -LexCmp(b, a)
  /\ (LexCmp(a, b) = 0) = (a = b)
  /\ (LexCmp(a, b) <= 0 /\ LexCmp(b, c) <= 0 => LexCmp(a, c) <= 0)
=============================================================================
