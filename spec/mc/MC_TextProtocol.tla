---- MODULE MC_TextProtocol ----
EXTENDS TextProtocol
====
