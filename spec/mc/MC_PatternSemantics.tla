------------------------- MODULE MC_PatternSemantics -------------------------
(* A reference semantics for numeric time patterns (format: PatternFormat; parse here) *)
(* on which TLC checks the round-trip law for every pattern of up to 3 tokens and a    *)
(* grid of values: Representable => Parse(Format(v)) = v.  This is the law the real     *)
(* patterns are then held to.                                                            *)
EXTENDS PatternFormat, TLC
VARIABLES toks, v
Alphabet == {"HH", "H", "mm", "m", "ss", "fff", ":", "."}
Pats == UNION {[1..n -> Alphabet] : n \in 1..3}
Vals == {[h |-> hh, mi |-> mm, s |-> ss, n |-> nn] : hh \in {0, 7, 12, 23}, mm \in {0, 5, 59}, ss \in {0, 9, 30}, nn \in {0, 120000000, 123000000, 123456789}}
NoRepeat(t) == \A i, j \in 1..Len(t) : i # j /\ t[i] \in Numeric /\ t[j] \in Numeric =>
                 ~({t[i], t[j]} \subseteq {"H", "HH"} \/ {t[i], t[j]} \subseteq {"m", "mm"} \/ {t[i], t[j]} \subseteq {"s", "ss"} \/ t[i] = t[j])
Init == toks \in {t \in Pats : NoRepeat(t) /\ Delimited(t)} /\ v \in Vals
Next == UNCHANGED <<toks, v>>
Spec == Init /\ [][Next]_<<toks, v>>
\* format: the shared reference formatter (PatternFormat.tla), in the invariant culture; the text is a sequence of code points
Inv == [tsep |-> <<58>>, dsep |-> <<47>>, am |-> <<65, 77>>, pm |-> <<80, 77>>]
Text == FormatFields(toks, 1, v, Inv)
\* parse: each numeric token reads its digits greedily (up to its maximum width), separators must match
IsDig(x) == x >= 48 /\ x <= 57
Dv(x) == x - 48
RECURSIVE ParseFrom(_, _, _)
ParseFrom(i, pos, acc) ==
  IF i > Len(toks) THEN (IF pos = Len(Text) + 1 THEN acc ELSE [acc EXCEPT !.ok = FALSE])
  ELSE LET t == toks[i] IN
       IF t \in {":", "."}
       THEN IF pos <= Len(Text) /\ Text[pos] = (IF t = ":" THEN 58 ELSE 46) THEN ParseFrom(i + 1, pos + 1, acc) ELSE [acc EXCEPT !.ok = FALSE]
       ELSE LET maxw == IF t = "fff" THEN 3 ELSE 2
                minw == IF t \in {"HH", "mm", "ss"} THEN 2 ELSE IF t = "fff" THEN 3 ELSE 1
                w == IF pos + 1 <= Len(Text) /\ IsDig(Text[pos]) /\ IsDig(Text[pos + 1]) /\ maxw >= 2
                     THEN (IF maxw = 3 /\ pos + 2 <= Len(Text) /\ IsDig(Text[pos + 2]) THEN 3 ELSE 2)
                     ELSE IF pos <= Len(Text) /\ IsDig(Text[pos]) THEN 1 ELSE 0
                val == IF w = 3 THEN Dv(Text[pos]) * 100 + Dv(Text[pos + 1]) * 10 + Dv(Text[pos + 2])
                       ELSE IF w = 2 THEN Dv(Text[pos]) * 10 + Dv(Text[pos + 1]) ELSE IF w = 1 THEN Dv(Text[pos]) ELSE 0
            IN  IF w < minw THEN [acc EXCEPT !.ok = FALSE]
                ELSE ParseFrom(i + 1, pos + w,
                       CASE t \in {"HH", "H"} -> [acc EXCEPT !.h = val] [] t \in {"mm", "m"} -> [acc EXCEPT !.mi = val]
                         [] t = "ss" -> [acc EXCEPT !.s = val] [] t = "fff" -> [acc EXCEPT !.n = val * 1000000])
Parsed == ParseFrom(1, 1, [ok |-> TRUE, h |-> 0, mi |-> 0, s |-> 0, n |-> 0])
RoundTripLaw == TimeRepresentable(toks, v, TRUE) =>
                  (Parsed.ok /\ Parsed.h = v.h /\ Parsed.mi = v.mi /\ Parsed.s = v.s /\ Parsed.n = v.n)
=============================================================================
