----------------------------- MODULE MC_WeekYear -----------------------------
(* The closed form RegularStart is the declarative week-year start, for every rule *)
(* and every possible year start; navigation operators are minimal.                 *)
EXTENDS WeekYear
VARIABLES ys, md, fd
Init == ys \in -20..20 /\ md \in 1..7 /\ fd \in 1..7
Next == UNCHANGED <<ys, md, fd>>
Spec == Init /\ [][Next]_<<ys, md, fd>>
StartIsDeclarative ==
  /\ IsWeekYearStart(RegularStart(ys, md, fd), ys, md, fd)
  /\ \A s \in (ys - 8)..(ys + 8) : IsWeekYearStart(s, ys, md, fd) => s = RegularStart(ys, md, fd)
NavigationMinimal ==
  \A dow \in 1..7 :
    /\ Dow(NextDow(ys, dow)) = dow /\ NextDow(ys, dow) > ys /\ NextDow(ys, dow) <= ys + 7
    /\ Dow(PrevDow(ys, dow)) = dow /\ PrevDow(ys, dow) < ys /\ PrevDow(ys, dow) >= ys - 7
    /\ \A m \in (ys + 1)..(NextDow(ys, dow) - 1) : Dow(m) # dow
    /\ \A m \in (PrevDow(ys, dow) + 1)..(ys - 1) : Dow(m) # dow
    /\ \A len \in 28..31, occ \in 1..5 :
         LET r == NthDowOfMonth(ys, len, occ, dow) IN
         /\ Dow(r) = dow /\ r >= ys /\ r <= ys + len - 1
         /\ (occ <= 4 => r = NextOrSame(ys, dow) + 7 * (occ - 1))
         /\ (occ = 5 => r + 7 > ys + len - 1)
=============================================================================
