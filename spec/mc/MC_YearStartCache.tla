---- MODULE MC_YearStartCache ----
EXTENDS YearStartCache
====
