---------------------------- MODULE MC_OffsetValues ----------------------------
(* Laws of OffsetValues.tla on a grid of instants/offsets/durations that makes the   *)
(* local value cross day boundaries once and twice.                                   *)
EXTENDS OffsetValues, TLC
VARIABLES v, d, off2
Insts == {<<dd, s, n>> : dd \in {-1, 0, 1}, s \in {0, 1, 43200, 86399}, n \in {0, 999999999}}
Offs == {-64800, -43200, -1, 0, 1, 43200, 64800}
Durs == {<<dd, s, n>> : dd \in {-2, -1, 0, 1}, s \in {0, 86399}, n \in {0, 1, 999999999}}
Init == v \in {Mk(i, o, "ISO") : i \in Insts, o \in Offs} /\ d \in Durs /\ off2 \in Offs
Next == UNCHANGED <<v, d, off2>>
Spec == Init /\ [][Next]_<<v, d, off2>>
Laws ==
  /\ IsT3(Local(v))
  /\ Sub3(Local(v), OfSeconds(v.off)) = v.inst                       \* instant = local - offset
  /\ WithOffset(v, off2).inst = v.inst                                 \* changing the offset keeps the instant
  /\ Local(WithOffset(v, off2)) = Add3(Local(v), OfSeconds(off2 - v.off))
  /\ WithCalendar(v, "Julian").inst = v.inst /\ Local(WithCalendar(v, "Julian")) = Local(v)
  /\ Diff(Plus(v, d), v) = d /\ Plus(v, d).off = v.off /\ Plus(v, d).cal = v.cal   \* exact shift, parts retained
  /\ Minus(Plus(v, d), d) = v
  /\ Diff(WithOffset(Plus(v, d), off2), WithCalendar(v, "Coptic")) = d            \* difference ignores offsets and calendars
  /\ Local(WithLocalDay(v, 7))[1] = 7 /\ Local(WithLocalDay(v, 7))[2] = Local(v)[2] /\ Local(WithLocalDay(v, 7))[3] = Local(v)[3]
  /\ Local(WithLocalTime(v, 5, 6)) = <<Local(v)[1], 5, 6>> /\ WithLocalTime(v, 5, 6).off = v.off
=============================================================================
