---------------------------- MODULE MC_ZoneRules ----------------------------
(* Self-checks of the yearly-rule evaluation in ZoneRules.tla over all rule shapes *)
(* and a window of years: the chosen day has the requested weekday, lies on the      *)
(* requested side of the anchor day within 6 days, and typical standard/daylight     *)
(* rule pairs alternate strictly.                                                    *)
EXTENDS ZoneRules
CONSTANTS YearLo, YearHi
VARIABLES y, yo
Doms == {1, 8, 15, 22, 25, 28, 29, 30, -1, -2, -7}
Init == /\ y \in YearLo..YearHi
        /\ yo \in [mode : {0, 1, 2}, month : 1..12, dom : Doms, dow : 0..7, adv : BOOLEAN, addDay : BOOLEAN, ms : {0, 7200000}]
        /\ (yo.dom > 0 => yo.dom <= 28 \/ (yo.dom = 29 /\ yo.month = 2) \/ (yo.dom <= 30 /\ yo.month \notin {2}))
        /\ yo.mode = 1 /\ (yo.dow = 0 => ~yo.adv)
Next == UNCHANGED <<y, yo>>
Spec == Init /\ [][Next]_<<y, yo>>

Plain == [yo EXCEPT !.addDay = FALSE]
Anchor == RuleDayNumber([yo EXCEPT !.dow = 0, !.addDay = FALSE], y)
Chosen == RuleDayNumber(Plain, y)
RuleDayIsInMonthWindow ==
  /\ Anchor >= GregDay(y, yo.month, 1) /\ Anchor <= GregDay(y, yo.month, GJMonthLen(GregLeap(y), yo.month))
  /\ RuleDayNumber(yo, y) = Chosen + (IF yo.addDay THEN 1 ELSE 0)
WeekdayHonoured ==
  IF yo.dow = 0 THEN Chosen = Anchor
  ELSE /\ DayOfWeek(Chosen) = yo.dow
       /\ (yo.adv => Chosen >= Anchor /\ Chosen - Anchor <= 6)
       /\ (~yo.adv => Chosen <= Anchor /\ Anchor - Chosen <= 6)
\* EU-style pair: last Sunday of March 01:00 UTC / last Sunday of October 01:00 UTC, +1h
EU == [stdOffset |-> 3600000, savings |-> 3600000,
       dstYo |-> [mode |-> 0, month |-> 3, dom |-> -1, dow |-> 7, adv |-> FALSE, addDay |-> FALSE, ms |-> 3600000],
       stdYo |-> [mode |-> 0, month |-> 10, dom |-> -1, dow |-> 7, adv |-> FALSE, addDay |-> FALSE, ms |-> 3600000]]
AlternationOrdered ==
  /\ Lt3(Start(EU, "dst", y), Start(EU, "std", y)) /\ Lt3(Start(EU, "std", y), Start(EU, "dst", y + 1))
  /\ NextStart(EU, "std", Start(EU, "dst", y), y) = Start(EU, "std", y)
  /\ NextStart(EU, "dst", Start(EU, "std", y), y) = Start(EU, "dst", y + 1)
=============================================================================
