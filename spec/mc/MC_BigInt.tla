------------------------------ MODULE MC_BigInt ------------------------------
(* Self-check of BigInt.tla against TLC's native integers on a grid of values  *)
(* that exercises carries, borrows, sign changes and limb boundaries.          *)
EXTENDS BigInt, TLC
VARIABLES a, b
Vals == {0, 1, -1, 2, 9999, 10000, 10001, -9999, -10000, 99999999, 100000000, -100000000, 123456789,
         -123456789, 19999, 20000, 46340, -46340, 1073741823, -1073741823, 86400, 999999999}
Small == {1, 2, 3, 7, 10, 60, 100, 9999, 10000, 10001, 86400, 200000}
Init == a \in Vals /\ b \in Vals
Next == UNCHANGED <<a, b>>
Spec == Init /\ [][Next]_<<a, b>>
A == FromInt(a)
B == FromInt(b)
Fit(x) == x > -2147483647 /\ x < 2147483647
AddOK == (Abs(a) < 1073741824 /\ Abs(b) < 1073741824) => (Add(A, B) = FromInt(a + b) /\ Sub(A, B) = FromInt(a - b))
MulOK == (Abs(a) <= 46340 /\ Abs(b) <= 46340) => Mul(A, B) = FromInt(a * b)
CmpOK == Cmp(A, B) = (IF a < b THEN -1 ELSE IF a = b THEN 0 ELSE 1)
WfOK == WellFormed(A) /\ WellFormed(Add(A, B)) /\ WellFormed(Mul(A, B)) /\ WellFormed(Sub(A, B)) /\ ToInt(A) = a
DivOK == \A k \in Small :
           /\ FloorDivModSmall(A, k) = <<FromInt(a \div k), a % k>>
           /\ IsTruncQuot(A, FromInt(k), FromInt(TruncDiv(a, k)))
           /\ (a % k # 0 => ~IsTruncQuot(A, FromInt(k), FromInt(TruncDiv(a, k) + 1)))
           /\ (a % k # 0 => ~IsTruncQuot(A, FromInt(k), FromInt(TruncDiv(a, k) - 1)))
           /\ MulSmall(A, k) = Mul(A, FromInt(k))
\* big products checked by algebra: (x*y)*z = x*(y*z), distributivity
AlgOK == LET C == FromInt(99999999) IN
         /\ Mul(Mul(A, B), C) = Mul(A, Mul(B, C))
         /\ Mul(A, Add(B, C)) = Add(Mul(A, B), Mul(A, C))
         /\ Sub(Mul(Mul(A, B), C), Mul(Mul(A, B), C)) = Zero
=============================================================================
