----------------------------- MODULE MC_PyBridge -----------------------------
(* Truncation-direction model: Duration -> timedelta truncates toward zero and     *)
(* timedelta -> Duration -> timedelta is the identity, on a grid of small spans.    *)
EXTENDS PyBridge
VARIABLES d
Init == d \in {<<dd, s, n>> : dd \in {-2, -1, 0, 1}, s \in {0, 1, 86399}, n \in {0, 1, 999, 1000, 1001, 999999000, 999999999}}
Next == UNCHANGED d
Spec == Init /\ [][Next]_d
Laws == LET td == TdOfDuration(d)
            back == DurationOfTd(td)
        IN  /\ td[2] \in 0..86399 /\ td[3] \in 0..999999
            /\ TdOfDuration(back) = td                                   \* round trip on microsecond values
            /\ (d[1] >= 0 => Le3(back, d) /\ Lt3(d, Add3(back, <<0, 0, 1000>>)))    \* toward zero for positives
            /\ (d[1] < 0 => Le3(d, back) /\ Lt3(Sub3(back, <<0, 0, 1000>>), d))     \* toward zero for negatives
=============================================================================
