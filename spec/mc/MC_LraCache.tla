---- MODULE MC_LraCache ----
EXTENDS LraCache
====
