---------------------------- MODULE MC_DateArith ----------------------------
(* Laws of the month/year arithmetic of DateArith.tla on windows of real calendars: *)
(* ordinals are a bijection in chronological order, adding then subtracting months    *)
(* returns to the same month, results are valid dates.                                *)
EXTENDS DateArith
CONSTANTS Cal, YLo, YHi
VARIABLES y, m, k
Init == y \in YLo..YHi /\ m \in 1..13 /\ m <= MonthsInYear(Cal, y) /\ k \in -40..40
Next == UNCHANGED <<y, m, k>>
Spec == Init /\ [][Next]_<<y, m, k>>
d == DaysInMonth(Cal, y, m)
OrdinalsChronological ==
  /\ YearPosOfOrdinal(Cal, MonthOrdinal(Cal, y, m)) = <<y, PosOfMonth(Cal, y, m)>>
  /\ (PosOfMonth(Cal, y, m) < MonthsInYear(Cal, y) =>
        MonthOrdinal(Cal, y, MonthAtPos(Cal, y, PosOfMonth(Cal, y, m) + 1)) = MonthOrdinal(Cal, y, m) + 1)
  /\ (PosOfMonth(Cal, y, m) = MonthsInYear(Cal, y) =>
        MonthOrdinal(Cal, y + 1, MonthAtPos(Cal, y + 1, 1)) = MonthOrdinal(Cal, y, m) + 1)
PlusMonthsLaws ==
  LET r == PlusMonths(Cal, y, m, d, k)
      back == PlusMonths(Cal, r[1], r[2], 1, -k)
  IN  /\ ValidYMD(Cal, r[1], r[2], r[3])
      /\ MonthOrdinal(Cal, r[1], r[2]) = MonthOrdinal(Cal, y, m) + k
      /\ back[1] = y /\ back[2] = m
      \* monotone: later start month never lands earlier
      /\ (k >= 0 => DayOf(Cal, r[1], r[2], r[3]) >= DayOf(Cal, y, m, 1))
PlusYearsLaws ==
  LET r == PlusYears(Cal, y, m, d, k) IN
  /\ ValidYMD(Cal, r[1], r[2], r[3]) /\ r[1] = y + k
=============================================================================
