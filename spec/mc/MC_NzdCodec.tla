----------------------------- MODULE MC_NzdCodec -----------------------------
(* Exhaustive round-trip / canonical-form checks of the codec specification on   *)
(* residue-complete sub-domains.  One initial state per value.                   *)
EXTENDS NzdCodec, TLC
CONSTANTS Kind, Lo, Hi, Step
VARIABLES v
Init == \E k \in (Lo \div Step)..(Hi \div Step), d \in -2..2 : v = k * Step + d /\ v >= Lo /\ v <= Hi
Next == UNCHANGED v
Spec == Init /\ [][Next]_v
\* the split-first-group form of the signed count is the plain zig-zag varint wherever the latter is computable
ASSUME SignedAgree

RoundTrip(enc, dec) == dec.ok /\ dec.v = v /\ dec.p = Len(enc) + 1
\* trailing bytes do not disturb decoding, and decoding from an offset works
WithJunk(enc) == <<255>> \o enc \o <<0, 255>>

CountOK == Kind = "count" =>
   LET e == EncCount(v) IN
   /\ RoundTrip(e, DecCount(e, 1))
   /\ DecCount(WithJunk(e), 2) = Ok(v, Len(e) + 2)
   /\ \A i \in 1..Len(e) : e[i] \in Byte /\ ((i < Len(e)) = (e[i] >= 128))
   /\ Len(e) = (IF v < 128 THEN 1 ELSE IF v < 16384 THEN 2 ELSE IF v < 2097152 THEN 3 ELSE IF v < 268435456 THEN 4 ELSE 5)
SignedOK == Kind = "signed" =>
   LET e == EncSigned(v) IN RoundTrip(e, DecSigned(e, 1)) /\ UnZigZag(ZigZag(v)) = v /\ ZigZag(v) >= 0
MillisOK == Kind = "millis" =>
   LET e == EncMillis(v)
       m == v + MsPerDay
   IN  /\ RoundTrip(e, DecMillis(e, 1))
       /\ DecMillis(WithJunk(e), 2) = Ok(v, Len(e) + 2)
       /\ \A i \in 1..Len(e) : e[i] \in Byte
       \* canonical = the shortest documented form that can hold the value
       /\ Len(e) = (IF m % 1800000 = 0 THEN 1 ELSE IF m % 60000 = 0 THEN 2 ELSE IF m % 1000 = 0 THEN 3 ELSE 4)
\* transitions: v is a number of minutes relative to 1800-01-01; previous = v - gap for several gaps
TransOK == Kind = "trans" =>
   \A gapMin \in {0, 30, 60, 7680 - 60, 7680, 7680 + 60, 300000 * 60, 2097151 * 60, 2097152 * 60} :
   \A nanos \in {0, 100} :
     LET val == Add3(Add3(Epoch1800, <<v \div 1440, (v % 1440) * 60, 0>>), <<0, 0, nanos>>)
         prev == Sub3(val, <<gapMin \div 1440, (gapMin % 1440) * 60, 0>>)
         e == EncTransition(prev, val)
         d == DecTransition(e, 1, prev)
         hours == gapMin \div 60
     IN  /\ d.ok /\ d.v = val /\ d.p = Len(e) + 1
         /\ (gapMin % 60 = 0 /\ hours >= 128 /\ hours < 2097152) => e = EncCount(hours)
         /\ (nanos # 0 /\ ~(gapMin % 60 = 0 /\ hours >= 128 /\ hours < 2097152)) => (Len(e) = 9 /\ e[1] = 2)
         /\ (nanos = 0 /\ ~(gapMin % 60 = 0 /\ hours >= 128 /\ hours < 2097152)) =>
               (IF v > 2097152 THEN e = EncCount(v) ELSE (Len(e) = 9 /\ e[1] = 2))
         /\ EncTransition(NoPrev, MinTag) = <<0>> /\ EncTransition(prev, MaxTag) = <<1>>
         /\ DecTransition(<<0>>, 1, NoPrev).v = MinTag /\ DecTransition(<<1>>, 1, prev).v = MaxTag
=============================================================================
