---------------------------- MODULE MC_Calendars ----------------------------
EXTENDS CalendarOdometer
AllCals == ArithmeticIds
=============================================================================
