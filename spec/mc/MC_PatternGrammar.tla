--------------------------- MODULE MC_PatternGrammar ---------------------------
(* The field-level grammar (PatternGrammar.tla) over every text of up to MaxLen       *)
(* characters of a small alphabet, for each type it covers:                            *)
(*   total:    every text gets a known outcome;                                         *)
(*   refines:  whatever the quoting layer (PatternScanFn) rejects, the grammar rejects;  *)
(*   literals: appending a quoted literal to a pattern keeps it a pattern.               *)
EXTENDS PatternGrammar, PatternScanFn, TLC
CONSTANTS MaxLen, Alphabet
VARIABLES type, text
Alpha16 == {39, 34, 92, 37, 72, 70, 46, 121, 100, 99, 103, 120, 58, 90, 43, 68}     \* ' " \ % H F . y d c g x : Z + D
Alpha11 == {39, 92, 37, 72, 70, 46, 121, 99, 103, 90, 43}                              \* (for longer texts: TLC builds the set of texts at once)
Texts == UNION {[1..n -> Alphabet] : n \in 2..MaxLen}
Init == type \in GrammarTypes /\ text \in Texts
Next == UNCHANGED <<type, text>>
Spec == Init /\ [][Next]_<<type, text>>
Outcomes == {"Ok", "Error_missing_end_quote", "Error_escape_at_end", "Error_percent_at_end", "Error_percent_doubled", "Error_unquoted_literal",
             "Error_repeat_count_exceeded", "Error_invalid_repeat_count", "Error_repeated_field", "Error_era_without_year_of_era", "Error_calendar_and_era",
             "Error_hour12_not_supported", "Error_z_prefix_not_at_start", "Error_multiple_total_fields", "Error_empty_z_prefixed_pattern"}
Total == Grammar(type, text) \in Outcomes
RefinesQuotingLayer == Scan(text) # "Ok" => Grammar(type, text) # "Ok"
QuotedLiteralKeepsPattern == Grammar(type, text) = "Ok" => Grammar(type, text \o <<39, 120, 39>>) = "Ok"
=============================================================================
