----------------------------- MODULE MC_Iso8601 -----------------------------
(* Small-domain sanity of the generators: fixed widths, no trailing zeros, and the   *)
(* text determines the value (a reader that undoes the generator recovers it).        *)
EXTENDS Iso8601
VARIABLES s, n
Init == s \in {0, 1, 59, 60, 3599, 3600, 43200, 86399} /\ n \in {0, 1, 10, 100, 1000, 120000000, 999999999, 500000000}
Next == UNCHANGED <<s, n>>
Spec == Init /\ [][Next]_<<s, n>>
Val(t, i, w) == LET f[k \in 0..w] == IF k = 0 THEN 0 ELSE f[k - 1] * 10 + (t[i + k - 1] - 48) IN f[w]
TimeLaws ==
  LET t == IsoTime(s, n) tl == IsoTimeLong(s, n) IN
  /\ Len(tl) = 18 /\ tl[9] = Dot
  /\ Val(t, 1, 2) * 3600 + Val(t, 4, 2) * 60 + Val(t, 7, 2) = s
  /\ (n = 0 => Len(t) = 8)
  /\ (n # 0 => t[Len(t)] # Zero /\ Len(t) > 9 /\ Len(t) <= 18)
  /\ Val(tl, 10, 9) = n
OffsetLaws ==
  \A sec \in {0, 3600, -3600, 19800, 3661, -1, 64800, -64800} :
    LET o == IsoOffset(sec, FALSE) IN o[1] \in {Plus, Dash} /\ Len(o) \in {3, 6, 9} /\ IsoOffset(0, TRUE) = <<LetterZ>>
=============================================================================
