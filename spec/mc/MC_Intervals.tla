---------------------------- MODULE MC_Intervals ----------------------------
(* The interval operations of Intervals.tla are the set operations: checked on all *)
(* pairs of day intervals inside 0..N.                                             *)
EXTENDS Intervals, FiniteSets
CONSTANT N
VARIABLES a, b
Ivs == {<<s, e>> \in (0..N) \X (0..N) : s <= e}
Init == a \in Ivs /\ b \in Ivs
Next == UNCHANGED <<a, b>>
Spec == Init /\ [][Next]_<<a, b>>
Set(i) == i[1]..i[2]
SetLaws ==
  LET i == DInter(a[1], a[2], b[1], b[2])
      u == DUnion(a[1], a[2], b[1], b[2])
  IN  /\ DLen(a[1], a[2]) = Cardinality(Set(a))
      /\ DContains(a[1], a[2], b[1], b[2]) = (Set(b) \subseteq Set(a))
      /\ i[1] = (Set(a) \cap Set(b) # {})
      /\ (i[1] => Set(<<i[2], i[3]>>) = Set(a) \cap Set(b))
      /\ u[1] = (\E s, e \in 0..N : s <= e /\ s..e = Set(a) \cup Set(b))
      /\ (u[1] => Set(<<u[2], u[3]>>) = Set(a) \cup Set(b))
      /\ \A d \in 0..N : DHas(a[1], a[2], d) = (d \in Set(a))
=============================================================================
