---- MODULE MC_PatternScan ----
EXTENDS PatternScan
MCAlphabet == {"'", "\"", "\\", "%", "H", ":"}
====
