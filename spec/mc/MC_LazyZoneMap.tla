---- MODULE MC_LazyZoneMap ----
EXTENDS LazyZoneMap
====
