---- MODULE MC_FixedZoneCache ----
EXTENDS FixedZoneCache
====
