--------------------------- MODULE APA_ElapsedImpl ---------------------------
(* Apalache wrapper for the floor-day normal form of Duration/Instant with the REAL    *)
(* constant (86 400 000 000 000 ns per day): for ALL normalised operands, the carry /    *)
(* borrow / negate / from-units steps of the implementation produce a normalised pair     *)
(* whose value is the mathematical result.  One-step inductive: the operands are           *)
(* arbitrary normalised pairs, so nothing depends on reachability.                          *)
EXTENDS Integers

VARIABLES
  \* @type: Int;
  d1,
  \* @type: Int;
  n1,
  \* @type: Int;
  d2,
  \* @type: Int;
  n2,
  \* @type: Int;
  k

NPD == 86400000000000
Val(d, n) == d * NPD + n
TruncDiv(a, b) == IF a >= 0 THEN a \div b ELSE -((-a) \div b)

Init == /\ d1 \in Int /\ d2 \in Int /\ k \in Int
        /\ n1 \in 0..(NPD - 1) /\ n2 \in 0..(NPD - 1)
Next == UNCHANGED <<d1, n1, d2, n2, k>>

\* __add__
AddN == IF n1 + n2 >= NPD THEN n1 + n2 - NPD ELSE n1 + n2
AddD == d1 + d2 + (IF n1 + n2 >= NPD THEN 1 ELSE 0)
\* __sub__
SubN == IF n1 - n2 < 0 THEN n1 - n2 + NPD ELSE n1 - n2
SubD == d1 - d2 - (IF n1 - n2 < 0 THEN 1 ELSE 0)
\* __neg__
NegN == IF n1 = 0 THEN 0 ELSE NPD - n1
NegD == IF n1 = 0 THEN -d1 ELSE -d1 - 1
\* from_nanoseconds(k): divmod for k >= 0, truncating division of k + 1 minus one for k < 0
FromD == IF k >= 0 THEN k \div NPD ELSE TruncDiv(k + 1, NPD) - 1
FromN == k - FromD * NPD
\* truncating accessors
Days == IF d1 >= 0 \/ n1 = 0 THEN d1 ELSE d1 + 1
SignedNod == IF d1 >= 0 THEN n1 ELSE IF n1 = 0 THEN 0 ELSE n1 - NPD

NormalFormLaws ==
  /\ AddN >= 0 /\ AddN < NPD /\ Val(AddD, AddN) = Val(d1, n1) + Val(d2, n2)
  /\ SubN >= 0 /\ SubN < NPD /\ Val(SubD, SubN) = Val(d1, n1) - Val(d2, n2)
  /\ NegN >= 0 /\ NegN < NPD /\ Val(NegD, NegN) = -Val(d1, n1)
  /\ FromN >= 0 /\ FromN < NPD /\ Val(FromD, FromN) = k
  /\ Days = TruncDiv(Val(d1, n1), NPD) /\ SignedNod = Val(d1, n1) - NPD * TruncDiv(Val(d1, n1), NPD)
=============================================================================
