------------------------- MODULE APA_LocalTimeArithNeg -------------------------
(* NEGATIVE (non-vacuity) variant: the wrap test is > instead of >=, Apalache must refute it. the two-branch time-of-day addition algorithm equals the modular  *)
(* definition for ALL integers k and all times of day, with the REAL constants          *)
(* (nanoseconds per day; also checked for ticks, milliseconds, seconds, minutes, hours   *)
(* by choosing UPD).  One-step inductive check: Init => Inv at length 0.                 *)
EXTENDS Integers

CONSTANT
  \* @type: Int;
  UPD

VARIABLES
  \* @type: Int;
  t,
  \* @type: Int;
  k

TruncDiv(a, b) == IF a >= 0 THEN a \div b ELSE -((-a) \div b)
TruncMod(a, b) == a - b * TruncDiv(a, b)

ConstInit == UPD \in {86400000000000, 864000000000, 86400000, 86400, 1440, 24}
Init == t \in 0..(UPD - 1) /\ k \in Int
Next == UNCHANGED <<t, k>>

MathTime == (t + k) % UPD
MathDays == (t + k) \div UPD

AlgoTime ==
  IF k = 0 THEN t
  ELSE IF k >= 0
  THEN LET v == IF k >= UPD THEN TruncMod(k, UPD) ELSE k
           n == t + v
       IN  IF n > UPD THEN n - UPD ELSE n
  ELSE LET v == IF k <= -UPD THEN TruncMod(k, UPD) ELSE k
           n == t + v
       IN  IF n < 0 THEN n + UPD ELSE n
AlgoDays ==
  IF k = 0 THEN 0
  ELSE IF k >= 0
  THEN LET days0 == IF k >= UPD THEN TruncDiv(k, UPD) ELSE 0
           v == IF k >= UPD THEN TruncMod(k, UPD) ELSE k
       IN  IF t + v >= UPD THEN days0 + 1 ELSE days0
  ELSE LET days0 == IF k <= -UPD THEN TruncDiv(k, UPD) ELSE 0
           v == IF k <= -UPD THEN TruncMod(k, UPD) ELSE k
       IN  IF t + v < 0 THEN days0 - 1 ELSE days0
AlgorithmIsModular == AlgoTime = MathTime /\ AlgoDays = MathDays /\ AlgoTime >= 0 /\ AlgoTime < UPD
=============================================================================
