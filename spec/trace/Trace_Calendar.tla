--------------------------- MODULE Trace_Calendar ---------------------------
(* Validates calendar walks recorded from the real package.                    *)
(*                                                                            *)
(* Mode = "self"      (C01): the calendar must be a self-consistent odometer:  *)
(*    the month lengths it reports (year events) define, by running sums from   *)
(*    the first day of its first year, where every month starts; every walked   *)
(*    day must sit exactly there, in order, inside the advertised range.        *)
(* Mode = "published" (C02): the same events must agree with Calendars.tla,     *)
(*    the independent transcription of the published rules.                     *)
(*                                                                            *)
(* Events (one per state):                                                     *)
(*   cal    start of a calendar: id, min/max year, eras                          *)
(*   year   y, months, diy, leap, lens[m], mstarts[m], era, yoe, abs             *)
(*   run    maximal stretch of consecutive days n0.. that the implementation      *)
(*          mapped to (y, m, d0..), with day-of-year/day-of-week of the first     *)
(*          day and the flags of the round trips the driver performed per day     *)
(*   probe  an attempt to build a date/day that may be outside the valid tables   *)
(*   end    end of a calendar: last day seen by the API (max day)                 *)
EXTENDS Integers, Sequences, FiniteSets, TLC, Json, IOUtils, Calendars

CONSTANT Mode
VARIABLES l, cal, cy, ys, lens, mst, nextStart, rng

tvars == <<l, cal, cy, ys, lens, mst, nextStart, rng>>
Events == JsonDeserialize(IOEnv.TRACE_FILE)
Has(e, f) == f \in DOMAIN e
Rej(clause) == PrintT(<<"REJECT", clause, l>>)
Check(cond, clause) == IF cond THEN TRUE ELSE Rej(clause)
\* reference clause (more precise than the property): reported, never a verdict
RefCheck(cond, clause) == IF cond THEN TRUE ELSE PrintT(<<"DIVERGE", clause, l>>)
Published == Mode = "published"
\* C02 claims the Persian arithmetic calendar from AP 475 (the anchor of the 2820-year cycle) only;
\* earlier years (and 474, whose length depends on where 475 starts) are reference clauses
Claimed(c, y) == ~(c = "Persian Arithmetic" /\ y < 475)
PCheck(c, y, cond, clause) == IF Claimed(c, y) THEN Check(cond, clause) ELSE RefCheck(cond, clause)

SumSeq(s) == LET f[k \in 0..Len(s)] == IF k = 0 THEN 0 ELSE f[k - 1] + s[k] IN f[Len(s)]

\* --- "self" mode: positions from the reported month starts -----------------
SelfPos(ms, m) == 1 + Cardinality({k \in 1..Len(ms) : ms[k] < ms[m]})
\* expected start of month m given year start s and lengths L, in the order given by starts ms
SelfMonthStart(s, L, ms, m) ==
  s + SumSeq([k \in 1..Len(L) |-> IF ms[k] < ms[m] THEN L[k] ELSE 0])

Init == /\ l = 1 /\ cal = "" /\ cy = 0 /\ ys = 0 /\ lens = <<>> /\ mst = <<>> /\ nextStart = 0
        /\ rng = [miny |-> 0, maxy |-> 0, mind |-> 0]

StepCal(e) ==
  /\ cal' = e.cal /\ cy' = e.min_year - 1 /\ ys' = 0 /\ lens' = <<>> /\ mst' = <<>>
  /\ nextStart' = e.min_day
  /\ rng' = [miny |-> e.min_year, maxy |-> e.max_year, mind |-> e.min_day]
  /\ IF Published
     THEN /\ Check(e.min_year = MinYear(e.cal) /\ e.max_year = MaxYear(e.cal), "published_year_range")
          /\ Check(e.min_day = MinDay(e.cal), "published_min_day")
     ELSE TRUE
  /\ (IF Published THEN TRUE ELSE Check(e.eras_ok, "lists_its_eras"))

StepYear(e) ==
  LET y == e.y
      L == e.lens
      ms == e.mstarts
      first == IF Len(ms) = 0 THEN nextStart ELSE CHOOSE v \in {ms[k] : k \in 1..Len(ms)} : \A k \in 1..Len(ms) : v <= ms[k]
      \* self mode: the year starts at the earliest reported month start (re-synchronised from the log if
      \* that is not where the previous year ended, so that one bad year does not fail every later year)
      s == IF Published THEN YearStart(cal, y) ELSE first
  IN
  /\ cy' = y /\ ys' = s /\ lens' = L /\ mst' = ms /\ cal' = cal /\ rng' = rng
  /\ nextStart' = s + SumSeq(L)
  /\ Check(y = cy + 1, "years_consecutive")
  /\ Check(Len(L) = e.months /\ Len(ms) = e.months, "months_in_year_matches_tables")
  /\ Check(e.diy = SumSeq(L), "days_in_year_is_sum_of_months")
  /\ IF Published
     THEN /\ PCheck(cal, y, e.months = MonthsInYear(cal, y), "published_months_in_year")
          /\ PCheck(cal, y, \A m \in 1..Len(L) : m <= MonthsInYear(cal, y) => L[m] = DaysInMonth(cal, y, m), "published_month_lengths")
          /\ PCheck(cal, y, e.leap = IsLeapYear(cal, y), "published_leap_year")
          /\ PCheck(cal, y, e.diy = DaysInYear(cal, y), "published_year_length")
          /\ PCheck(cal, y, \A m \in 1..Len(ms) : m <= MonthsInYear(cal, y) => ms[m] = DayOf(cal, y, m, 1), "published_month_starts")
     ELSE \* year lengths equal the distance between successive year starts; months tile the year
          /\ Check(first = nextStart, "year_length_is_distance_between_year_starts")
          /\ Check(\A m \in 1..Len(ms) : ms[m] = SelfMonthStart(s, L, ms, m), "month_starts_tile_the_year")
          /\ Check(\A m \in 1..Len(L) : L[m] >= 1, "month_lengths_positive")
  /\ Check(e.abs = y, "era_and_year_of_era_convert_back")
  /\ IF Published THEN Check(e.era = EraOf(cal, y) \/ EraOf(cal, y) = "single", "published_era")
                        /\ Check(e.yoe = YearOfEra(cal, y), "published_year_of_era")
     ELSE TRUE

StepRun(e) ==
  LET m == e.m
      okm == m \in 1..Len(lens)
      first == IF Published THEN (IF ValidYMD(cal, e.y, m, 1) THEN DayOf(cal, e.y, m, 1) ELSE -999999999)
               ELSE (IF okm THEN e.n0 - e.d0 + 1 ELSE -999999999)
  IN
  /\ UNCHANGED <<cal, cy, ys, lens, mst, nextStart, rng>>
  /\ Check(e.y = cy, "run_in_current_year")
  /\ Check(okm /\ e.d0 >= 1 /\ e.d0 + e.len - 1 <= lens[m], "day_and_month_within_reported_lengths")
  /\ IF Published
     THEN PCheck(cal, e.y, e.n0 = first + e.d0 - 1, "published_day_number")
     ELSE Check(okm /\ m <= Len(mst) /\ e.n0 - e.d0 + 1 = mst[m], "day_number_follows_month_start")
  /\ PCheck(cal, e.y, e.doy0 = e.n0 - ys + 1, "day_of_year_counts_from_year_start")
  /\ Check(e.dow0 = DayOfWeek(e.n0), "iso_day_of_week")
  /\ Check(e.n0 >= rng.mind, "inside_advertised_range")
  /\ Check(\A f \in DOMAIN e.flags : e.flags[f], "round_trip_or_order_flag")

StepProbe(e) ==
  /\ UNCHANGED <<cal, cy, ys, lens, mst, nextStart, rng>>
  /\ IF e.kind = "ymd"
     THEN LET valid == /\ e.y = cy
                       /\ e.m \in 1..Len(lens)
                       /\ e.d >= 1 /\ e.d <= lens[e.m]
          IN  IF e.y = cy
              THEN Check((e.out = "ok") = valid, "invalid_fields_rejected_valid_accepted")
              ELSE Check(e.out # "ok", "year_outside_range_rejected")
     ELSE \* kind = "day": a day number just outside [min day, max day]
          Check(e.out # "ok", "day_outside_range_rejected")
  /\ RefCheck(e.out \in {"ok", "ValueError", "OverflowError"}, "rejection_is_value_or_overflow_error")

StepEnd(e) ==
  /\ UNCHANGED <<cal, cy, ys, lens, mst, nextStart, rng>>
  /\ Check(cy = rng.maxy, "all_years_listed")
  /\ Check(e.max_day = nextStart - 1, "max_day_is_last_day_of_last_year")
  /\ IF Published THEN Check(e.max_day = MaxDay(cal), "published_max_day") ELSE TRUE

Next == /\ l <= Len(Events)
        /\ l' = l + 1
        /\ LET e == Events[l] IN
             CASE e.op = "cal" -> StepCal(e)
               [] e.op = "year" -> StepYear(e)
               [] e.op = "run" -> StepRun(e)
               [] e.op = "probe" -> StepProbe(e)
               [] e.op = "end" -> StepEnd(e)

Spec == Init /\ [][Next]_tvars
=============================================================================
