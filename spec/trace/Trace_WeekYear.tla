---------------------------- MODULE Trace_WeekYear ----------------------------
(* Per-day observations of a week-year rule on a walked window of consecutive days, *)
(* and weekday navigation / n-th weekday of month.                                   *)
EXTENDS Integers, Sequences, TLC, Json, IOUtils, WeekYear, Calendars
VARIABLES l, prev
Events == JsonDeserialize(IOEnv.TRACE_FILE)
Has(e, f) == f \in DOMAIN e
Rej(clause) == PrintT(<<"REJECT", clause, l>>)
Check(cond, clause) == IF cond THEN TRUE ELSE Rej(clause)
RefCheck(cond, clause) == IF cond THEN TRUE ELSE PrintT(<<"DIVERGE", clause, l>>)
NoPrev == [n |-> -999999999, wy |-> 0, w |-> 0, key |-> ""]

WkChecks(e, contiguous) ==
  /\ Check(e.dow = Dow(e.n), "day_of_week_of_the_day")
  /\ Check(e.rt, "week_year_week_and_day_convert_back_to_the_date")
  /\ Check(e.w >= 1 /\ e.w <= e.weeks, "week_number_within_weeks_in_week_year")
  \* weeks advance by one every seven days from the rule's first day of week
  /\ IF contiguous
     THEN IF e.wy = prev.wy
          THEN Check(e.w = (IF Dow(e.n) = e.first_dow THEN prev.w + 1 ELSE prev.w), "weeks_advance_every_seven_days_from_first_day_of_week")
          ELSE \* a new week-year begins: with week 1 (regular rules: on the rule's first day of week)
               /\ Check(e.wy = prev.wy + 1 /\ e.w = 1, "new_week_year_begins_with_week_one")
               /\ Check(e.irregular \/ Dow(e.n) = e.first_dow, "regular_week_years_begin_on_first_day_of_week")
     ELSE TRUE
  \* regular rules: the declarative definition, from the calendar year starts reported for wy and wy + 1
  /\ IF ~Has(e, "ys_next") THEN TRUE
     ELSE IF ~e.irregular
     THEN LET s0 == RegularStart(e.ys_wy, e.min_days, e.first_dow)
              s1 == RegularStart(e.ys_next, e.min_days, e.first_dow)
          IN  /\ Check(s0 <= e.n /\ e.n < s1, "date_lies_in_its_week_year")
              /\ Check(e.w = ((e.n - s0) \div 7) + 1, "week_number_counts_from_week_year_start")
              /\ Check(e.weeks = (s1 - s0) \div 7, "weeks_in_week_year")
     ELSE RefCheck(e.wy = e.y \/ e.wy = e.y - 1, "irregular_week_year_is_calendar_year_or_previous")
  /\ IF Has(e, "ys_next") /\ e.cal \in ArithmeticIds /\ ~(e.cal = "Persian Arithmetic" /\ e.wy < 476) /\ e.wy >= MinYear(e.cal) /\ e.wy + 1 <= MaxYear(e.cal)
     THEN Check(e.ys_wy = YearStart(e.cal, e.wy) /\ e.ys_next = YearStart(e.cal, e.wy + 1), "machinery_year_starts_reported")
     ELSE TRUE
  /\ (Has(e, "iso_std") => Check(e.iso_std, "iso_rule_agrees_with_stdlib_isocalendar"))

StepWk(e) ==
  LET contiguous == prev.n + 1 = e.n /\ prev.key = e.key IN
  /\ prev' = [n |-> e.n, wy |-> e.wy, w |-> e.w, key |-> e.key]
  /\ IF Has(e, "exc") THEN Rej("week_year_accessors_do_not_raise") ELSE WkChecks(e, contiguous)

\* a navigation result inside the calendar's range must be returned; outside it the call must raise
NavOk(e, got, raised, want) == IF want >= e.min_day /\ want <= e.max_day THEN ~raised /\ got = want ELSE raised
StepNav(e) ==
  /\ prev' = NoPrev
  /\ Check(NavOk(e, e.next, e.next_raised, NextDow(e.n, e.dow)) /\ NavOk(e, e.previous, e.previous_raised, PrevDow(e.n, e.dow)),
           "next_previous_nearest_strictly_later_earlier")
  /\ Check(NavOk(e, e.next_or_same, e.next_or_same_raised, NextOrSame(e.n, e.dow))
           /\ NavOk(e, e.previous_or_same, e.previous_or_same_raised, PrevOrSame(e.n, e.dow)), "or_same_forms")
StepNth(e) ==
  /\ prev' = NoPrev
  /\ LET first == GregDay(e.y, e.m, 1) len == GJMonthLen(GregLeap(e.y), e.m) IN
     IF Has(e, "exc") THEN Rej("nth_weekday_of_month_raised")
     ELSE Check(e.res = NthDowOfMonth(first, len, e.occ, e.dow), "nth_weekday_of_month")

\* (week-year, week, weekday) -> date for regular rules: the week must exist in that week-year and the day must be a day of the calendar
StepMake(e) ==
  /\ prev' = NoPrev
  /\ LET s0 == RegularStart(e.ys_wy, e.min_days, e.first_dow)
         s1 == RegularStart(e.ys_next, e.min_days, e.first_dow)
         day == s0 + (e.w - 1) * 7 + ((e.dow - e.first_dow + 7) % 7)
     IN  IF e.w >= 1 /\ e.w <= (s1 - s0) \div 7 /\ day >= e.min_day /\ day <= e.max_day
         THEN /\ Check(~Has(e, "exc"), "existing_week_and_day_must_not_raise")
              /\ (Has(e, "res") => Check(e.res = day /\ e.res_cal = e.cal, "week_year_week_and_day_give_that_date"))
         ELSE Check(Has(e, "exc"), "week_or_day_that_does_not_exist_must_raise")

Init == l = 1 /\ prev = NoPrev
Next == /\ l <= Len(Events) /\ l' = l + 1
        /\ LET e == Events[l] IN CASE e.op = "wk" -> StepWk(e) [] e.op = "nav" -> StepNav(e) [] e.op = "nth" -> StepNth(e) [] e.op = "wk_make" -> StepMake(e)
Spec == Init /\ [][Next]_<<l, prev>>
=============================================================================
