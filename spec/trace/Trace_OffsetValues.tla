-------------------------- MODULE Trace_OffsetValues --------------------------
EXTENDS Integers, Sequences, TLC, Json, IOUtils, OffsetValues, ZoneTimeline, Calendars
VARIABLES l
Events == JsonDeserialize(IOEnv.TRACE_FILE)
Has(e, f) == f \in DOMAIN e
Rej(clause) == PrintT(<<"REJECT", clause, l>>)
Check(cond, clause) == IF cond THEN TRUE ELSE Rej(clause)

\* an observed value: instant, local, offset, calendar as reported by the object itself
Obs(o) == [inst |-> o.inst, loc |-> o.loc, off |-> o.off, cal |-> o.cal]
Consistent(o) == o.loc = Add3(o.inst, OfSeconds(o.off)) /\ o.inst = Sub3(o.loc, OfSeconds(o.off))
Same(o, v) == o.inst = v.inst /\ o.off = v.off /\ o.cal = v.cal /\ o.loc = Local(v)
Val(o) == Mk(o.inst, o.off, o.cal)

\* result r (an observation or an exception) must be the spec value x when representable
Result(e, x, what) ==
  IF Representable(x, e.min_day, e.max_day)
  THEN /\ Check(~Has(e, "exc"), what \o "_must_not_raise")
       /\ (Has(e, "res") => Check(Consistent(e.res), "local_equals_instant_plus_offset"))
       /\ (Has(e, "res") => Check(Same(e.res, x), what))
  ELSE Check(Has(e, "exc"), what \o "_out_of_range_must_raise")

Step(e) ==
  CASE e.op = "make" -> Result(e, Mk(e.inst, e.off, e.cal), "construction_local_is_instant_plus_offset")
    [] e.op = "from_local" -> Result(e, FromLocal(e.loc, e.off, e.cal), "instant_is_local_minus_offset")
    [] e.op = "with_offset" -> Check(Consistent(e.v), "local_equals_instant_plus_offset") /\ Result(e, WithOffset(Val(e.v), e.off2), "changing_offset_keeps_instant")
    [] e.op = "with_calendar" -> Result(e, WithCalendar(Val(e.v), e.cal2), "changing_calendar_keeps_instant_and_local")
    [] e.op = "plus" -> Result(e, Plus(Val(e.v), e.d), "plus_duration_moves_instant_exactly_keeping_offset_and_calendar")
    [] e.op = "minus" -> Result(e, Minus(Val(e.v), e.d), "minus_duration_moves_instant_exactly_keeping_offset_and_calendar")
    [] e.op = "diff" -> Check(~Has(e, "exc") /\ e.res = Diff(Val(e.a), Val(e.b)), "difference_is_elapsed_time_between_instants")
    [] e.op = "with_date" -> Result(e, WithLocalDay(Val(e.v), e.day), "date_adjuster_keeps_time_offset_calendar")
    [] e.op = "with_time" -> Result(e, WithLocalTime(Val(e.v), e.t[1], e.t[2]), "time_adjuster_keeps_date_offset_calendar")
    [] e.op = "parts" ->
         \* OffsetDate / OffsetTime projections and their recombination
         LET loc == Local(Val(e.v)) IN
         /\ Check(e.od_day = loc[1] /\ e.od_off = e.v.off /\ e.od_cal = e.v.cal, "to_offset_date_keeps_date_offset_calendar")
         /\ Check(e.ot_t = <<loc[2], loc[3]>> /\ e.ot_off = e.v.off, "to_offset_time_keeps_time_offset")
         /\ Check(Same(e.recombined_at, Val(e.v)) /\ Same(e.recombined_on, Val(e.v)), "offset_date_at_time_and_offset_time_on_date_recombine")
         /\ Check(Same(e.fixed_zone, Val(e.v)), "in_fixed_zone_keeps_everything")
         /\ Check(e.fixed_zone_offset = e.v.off /\ Same(e.fixed_zone_plus_zero, Val(e.v)), "fixed_zone_has_the_offset_of_the_value")
    [] e.op = "zoned" ->
         \* instant rendered in a zone: the offset is the wall offset of the zone interval containing the instant
         LET iv == [start |-> e.iv.start, end |-> e.iv.end, name |-> "", wall |-> e.iv.wall, std |-> 0, sav |-> 0] IN
         /\ Check(Contains(iv, e.inst), "zone_interval_used_for_the_offset_contains_the_instant")
         /\ Check(~Has(e, "exc"), "in_zone_must_not_raise")
         /\ (Has(e, "res") => Check(Consistent(e.res) /\ Same(e.res, Mk(e.inst, e.iv.wall, e.cal)) /\ e.res_zone = e.zone,
                                    "zoned_offset_is_rederived_from_zone_and_zone_calendar_retained"))
    [] e.op = "zoned_ctor" ->
         \* building a zoned value from (local, zone, offset): accepted exactly when the zone's offset at local - offset is that offset
         LET iv == [start |-> e.iv.start, end |-> e.iv.end, name |-> "", wall |-> e.iv.wall, std |-> 0, sav |-> 0] IN
         /\ Check(Contains(iv, e.cand) /\ e.cand = Sub3(e.loc, OfSeconds(e.off)), "zone_interval_used_for_the_offset_contains_the_instant")
         /\ IF e.iv.wall = e.off
            THEN /\ Check(~Has(e, "exc"), "zoned_from_local_and_the_zone_offset_must_not_raise")
                 /\ (Has(e, "res") => Check(Consistent(e.res) /\ Same(e.res, Mk(e.cand, e.off, e.cal)) /\ e.res_zone = e.zone,
                                            "zoned_from_local_keeps_local_offset_calendar_zone"))
            ELSE Check(Has(e, "exc"), "zoned_from_local_with_an_offset_the_zone_does_not_have_must_raise")
    [] e.op = "zoned_local" ->
         \* a zoned value resolved from a local date-time (strict resolution may refuse: skipped or ambiguous; lenient never does)
         /\ Check(e.how >= 2 \/ ~Has(e, "exc"), "lenient_resolution_must_not_raise")
         /\ (Has(e, "res") =>
               LET iv == [start |-> e.iv.start, end |-> e.iv.end, name |-> "", wall |-> e.iv.wall, std |-> 0, sav |-> 0] IN
               /\ Check(Contains(iv, e.res.inst), "zone_interval_used_for_the_offset_contains_the_instant")
               /\ Check(Consistent(e.res) /\ e.res.off = e.iv.wall /\ e.res.cal = e.cal /\ e.res_zone = e.zone,
                        "zoned_offset_is_the_zone_offset_at_its_instant")
               /\ Check(Same(e.plus_zero, Val(e.res)), "adding_nothing_changes_nothing"))
    [] e.op = "ymd" ->
         \* the calendar fields of a value made from (instant, offset, calendar): they name the local day instant + offset in that
         \* calendar, by the calendar's arithmetic (Calendars.tla) - whatever years were converted before
         /\ Check(~Has(e, "exc"), "construction_local_is_instant_plus_offset_must_not_raise")
         /\ (Has(e, "y") /\ e.cal \in ArithmeticIds /\ ~(e.cal = "Persian Arithmetic" /\ e.y < 476) /\ e.y >= MinYear(e.cal) /\ e.y <= MaxYear(e.cal) =>
               Check(ValidYMD(e.cal, e.y, e.m, e.d) /\ DayOf(e.cal, e.y, e.m, e.d) = Add3(e.inst, OfSeconds(e.off))[1]
                     /\ e.back_inst = e.inst, "calendar_fields_name_the_local_day_in_that_calendar"))
    [] e.op = "accessors" ->
         /\ Check(~Has(e, "exc"), "accessors_must_not_raise")
         /\ Check(e.acc = e.loc, "properties_read_the_local_date_time")
         /\ (Has(e, "tod") => LET sod == e.v.loc[2] IN
               Check(e.tod = <<sod \div 3600, (sod % 3600) \div 60, sod % 60>>, "properties_read_the_local_date_time"))
    [] e.op = "zoned_plus" ->
         LET iv == [start |-> e.iv.start, end |-> e.iv.end, name |-> "", wall |-> e.iv.wall, std |-> 0, sav |-> 0]
             ni == Add3(e.v.inst, e.d)
         IN  IF ~InstantInRange(ni) THEN Check(Has(e, "exc"), "zoned_plus_out_of_range_must_raise")
             ELSE /\ Check(Contains(iv, ni), "zone_interval_used_for_the_offset_contains_the_instant")
                  /\ Check(~Has(e, "exc"), "zoned_plus_must_not_raise")
                  /\ (Has(e, "res") => Check(Consistent(e.res) /\ Same(e.res, Mk(ni, e.iv.wall, e.v.cal)) /\ e.res_zone = e.zone,
                                             "zoned_plus_moves_instant_exactly_and_rederives_offset"))

Init == l = 1
Next == l <= Len(Events) /\ l' = l + 1 /\ Step(Events[l])
Spec == Init /\ [][Next]_l
=============================================================================
