------------------------------- MODULE Trace_Text -------------------------------
(* C07 laws on recorded format/parse calls.  An event is one (pattern, culture, value):  *)
(*   text = format(value), again = format(value) once more, the parse of text, and the    *)
(*   re-format of the parsed value.  Fields are records of integers / strings.            *)
EXTENDS Integers, Sequences, TLC, Json, IOUtils, PatternFormat
VARIABLES l
Events == JsonDeserialize(IOEnv.TRACE_FILE)
Has(e, f) == f \in DOMAIN e
Rej(clause) == PrintT(<<"REJECT", clause, l>>)
Check(cond, clause) == IF cond THEN TRUE ELSE Rej(clause)
RefCheck(cond, clause) == IF cond THEN TRUE ELSE PrintT(<<"DIVERGE", clause, l>>)

\* the text the reference formatter (PatternFormat.tla) gives: for generated patterns whose tokens it knows, in the event's culture
\* (separators and designators are the culture's); a reference only - the property promises the laws below, not a particular text
\* (':' stands for the culture's time separator in patterns of types with a time, '/' for its date separator in patterns of types with a
\*  date; elsewhere they are the characters themselves)
Cult(e) == [tsep |-> IF e.type \in {"LocalTime", "LocalDateTime", "Instant", "Offset", "Duration"} THEN e.time_sep ELSE <<58>>,
            dsep |-> IF e.type \in {"LocalDate", "LocalDateTime", "Instant", "AnnualDate"} THEN e.date_sep ELSE <<47>>,
            am |-> e.am, pm |-> e.pm,
            hasDay |-> HasTok(e.tokens, {"d", "dd"}), names |-> IF Has(e, "names") THEN e.names ELSE <<>>]
Predictable(e) ==
  /\ Has(e, "exact_tokens") /\ e.exact_tokens /\ Has(e, "text") /\ Has(e, "am") /\ ~Has(e, "spliced")
  /\ CASE e.type = "Offset" -> Understood(e.tokens, OffsetFmtVocab)
        [] e.type = "Duration" -> Understood(e.tokens, DurationFmtVocab) /\ e.parts.days < 2000000000
        [] e.type \in {"LocalTime", "LocalDate", "LocalDateTime", "AnnualDate", "Instant"} ->
             Understood(e.tokens, FieldVocab \cup (IF Has(e, "names") THEN NameVocab ELSE {}))
        [] OTHER -> FALSE
RefText(e) ==
  CASE e.type = "Offset" -> FormatOffset(e.tokens, 1, e.value.sec, Cult(e))
    [] e.type = "Instant" -> FormatFields(e.tokens, 1, e.parts, Cult(e))
    [] e.type = "Duration" -> FormatDuration(e.tokens, 1, e.parts, Cult(e))
    [] OTHER -> FormatFields(e.tokens, 1, IF Has(e, "dow") THEN [x \in DOMAIN e.value \cup {"dow"} |-> IF x = "dow" THEN e.dow ELSE e.value[x]] ELSE e.value,
                             Cult(e))

\* the culture renders ':' or '/' as text beginning with '.' or ',' and that separator follows an optional fraction: not delimited after all
\* (in offset and duration patterns the negative-only sign "-" prints nothing for non-negative values: it separates nothing)
SepAmbiguous(e) ==
  LET toks == IF e.type \in {"Offset", "Duration"} THEN SelectSeq(e.tokens, LAMBDA t : t # "-") ELSE e.tokens IN
  \E i \in 1..(Len(toks) - 1) :
     /\ toks[i] \in OptFrac
     /\ \/ toks[i + 1] = ":" /\ Len(e.time_sep) > 0 /\ e.time_sep[1] \in {46, 44}
        \/ toks[i + 1] = "/" /\ Len(e.date_sep) > 0 /\ e.date_sep[1] \in {46, 44}

\* does the law "parse(format(v)) = v" apply to this event?
Applies(e) ==
  CASE e.roundtrip_builtin -> TRUE                       \* built-in round-trip / ISO patterns: every value
    [] e.type = "LocalTime" -> Understood(e.tokens, TimeVocab) /\ DelimitedFor(e.type, e.tokens) /\ TimeRepresentableT(e.tokens, e.value, e.ampm_ok, IF Has(e, "ttemplate") THEN e.ttemplate ELSE Midnight)
    [] e.type = "Offset" -> Understood(e.tokens, OffsetVocab) /\ DelimitedFor(e.type, e.tokens) /\ OffsetRepresentable(e.tokens, e.value)
    [] e.type = "LocalDate" -> Understood(e.tokens, DateVocab) /\ DelimitedFor(e.type, e.tokens) /\ DateRepresentable(e.tokens, e.value, e.template, e.text_ok)
    [] e.type = "AnnualDate" -> Understood(e.tokens, DateVocab) /\ DelimitedFor(e.type, e.tokens) /\ AnnualRepresentable(e.tokens, e.value, e.template, e.text_ok)
    [] e.type = "LocalDateTime" ->
         /\ Understood(e.tokens, DateVocab \cup TimeVocab) /\ DelimitedFor(e.type, e.tokens)
         /\ DateRepresentable(e.tokens, e.value, e.template, e.text_ok)
         /\ TimeRepresentableT(e.tokens, e.value, e.ampm_ok, IF Has(e, "ttemplate") THEN e.ttemplate ELSE Midnight)
    [] e.type = "Duration" -> Understood(e.tokens, DurationVocab) /\ DelimitedFor("Offset", e.tokens) /\ DurationRepresentable(e.tokens, e.parts)
    [] e.type = "Instant" ->
         /\ Understood(e.tokens, (DateVocab \ {"c", "g", "gg"}) \cup TimeVocab) /\ Delimited(e.tokens)
         /\ DateRepresentable(e.tokens, e.parts, e.template, e.text_ok) /\ TimeRepresentable(e.tokens, e.parts, e.ampm_ok)
    [] OTHER -> FALSE

Step(e) ==
  /\ Check(~Has(e, "exc"), "format_and_parse_do_not_raise")
  /\ (Has(e, "again") => Check(e.again = e.text, "formatting_is_deterministic"))
  /\ (Predictable(e) => RefCheck(e.text = RefText(e), "text_is_what_the_reference_formatter_gives"))
  \* (every pattern type rejects the empty string by design, so a pattern of optional fields only makes no
  \*  promise for the values it renders as nothing)
  \* (a spliced text - fields of two values - comes from no value: the first law says nothing about it, the second does)
  /\ IF Has(e, "parsed_ok") /\ Len(e.text) > 0 /\ ~SepAmbiguous(e) /\ ~Has(e, "spliced") /\ Applies(e)
     THEN /\ Check(e.parsed_ok, "representable_value_parses_back")
          /\ (e.parsed_ok => Check(e.parsed = e.value, "parsing_the_formatted_text_returns_the_original_value"))
     ELSE TRUE
  \* (with a template whose fraction of a second is not zero, a text without the optional fraction reads back the template's, which
  \*  re-formatting then writes: such patterns make no re-format promise)
  /\ IF Has(e, "parsed_ok") /\ e.parsed_ok /\ Has(e, "reformat") /\ ~SepAmbiguous(e)
        /\ ~(Has(e, "ttemplate") /\ e.ttemplate.n # 0 /\ \E i \in 1..Len(e.tokens) : SepOptAt(e.tokens, i))
        /\ (e.roundtrip_builtin \/ (DelimitedFor(IF e.type = "Duration" THEN "Offset" ELSE e.type, e.tokens)
                                     /\ (e.type = "Duration" => DurationNonRedundant(e.tokens))
                                     \* text fields only where the culture's texts can be told apart when parsing
                                     /\ (HasTok(e.tokens, {"t", "tt"}) => e.ampm_ok)
                                     /\ (HasTok(e.tokens, {"MMM", "MMMM", "ddd", "dddd", "g", "gg"}) => e.text_ok)))
     THEN Check(e.reformat = e.text, "reformatting_a_parsed_text_reproduces_it")
     ELSE TRUE
\* the same (pattern, culture, value) formatted in another interpreter after a different history
StepDet(e) == Check(e.elsewhere = e.text, "formatting_is_a_function_of_pattern_culture_value_only")
Init == l = 1
Next == l <= Len(Events) /\ l' = l + 1 /\ (IF Events[l].op = "det" THEN StepDet(Events[l]) ELSE Step(Events[l]))
Spec == Init /\ [][Next]_l
=============================================================================
