---------------------------- MODULE Trace_ClockLin ----------------------------
(* Linearizability of concurrent FakeClock histories recorded from real threads.*)
(* A history is a set of completed calls with start/end stamps drawn from one   *)
(* atomic counter.  TLC searches for an order of the calls that (i) respects    *)
(* real-time precedence (a call that ended before another started comes first)  *)
(* and (ii) makes every logged result the result of Clock.tla's atomic model.   *)
(* Each history is an initial state; <<"LIN", h>> is printed when one is fully  *)
(* explained.  A history that is never printed is not linearizable (or contains *)
(* a call that never completed).                                                *)
EXTENDS Integers, Sequences, FiniteSets, TLC, Json, IOUtils, T3

VARIABLES h, done, now, auto
C == INSTANCE Clock WITH Plus <- Add3, InRange <- InstantInRange, NoRes <- <<>>

Hists == JsonDeserialize(IOEnv.TRACE_FILE)
Has(e, f) == f \in DOMAIN e
Ops(k) == Hists[k].ops
Idx(k) == 1..Len(Ops(k))

Init == /\ h \in 1..Len(Hists)
        /\ done = {}
        /\ now = Hists[h].now /\ auto = Hists[h].auto

Arg(e) == CASE e.op = "advance" -> e.d
            [] e.op = "advance_unit" -> AmountToT3(e.unit, e.amt)
            [] e.op = "reset" -> e.i
            [] e.op = "set_auto" -> e.d
            [] OTHER -> <<>>
ModelOp(e) == IF e.op = "advance_unit" THEN "advance" ELSE e.op

Matches(e) ==
  LET o == C!Outcome(ModelOp(e), Arg(e)) IN
  IF o.ok THEN ~Has(e, "exc") /\ (C!HasResult(e.op) => e.res = o.res)
          ELSE Has(e, "exc") /\ e.exc \in {"OverflowError", "ValueError"}

Linearize(i) ==
  LET e == Ops(h)[i] IN
  /\ i \notin done
  /\ \A j \in Idx(h) \ (done \cup {i}) : ~(Ops(h)[j].end < e.start)
  /\ Matches(e)
  /\ C!Do(ModelOp(e), Arg(e))
  /\ done' = done \cup {i}
  /\ h' = h

Finish == /\ h > 0 /\ done = Idx(h)
          /\ PrintT(<<"LIN", h>>)
          /\ \* distinct reads: with a constant non-zero auto-advance and only reads,
             \* no two calls returned the same instant
             (Hists[h].reads_only /\ Hists[h].auto # Zero3) =>
                 (IF \A i, j \in Idx(h) : i # j => Ops(h)[i].res # Ops(h)[j].res
                  THEN TRUE ELSE PrintT(<<"REJECT", "distinct_reads", h>>))
          /\ h' = 0 /\ done' = {} /\ now' = Zero3 /\ auto' = Zero3

Next == (h > 0 /\ \E i \in Idx(h) : Linearize(i)) \/ Finish
Spec == Init /\ [][Next]_<<h, done, now, auto>>
=============================================================================
