------------------------------ MODULE Trace_Zone ------------------------------
(* Validates walks over real time zones (C04) and local-time mappings (C05).     *)
(* Events:                                                                      *)
(*   zone   id, min_off, max_off                                                 *)
(*   seg    from: the instant the walk (re)starts at                              *)
(*   iv     one interval returned by get_zone_interval(current), with the probe   *)
(*          flags the driver measured inside it                                   *)
(*   endz   end of the zone's trace                                               *)
(*   map    a local date-time, the window of intervals around it, and what        *)
(*          map_local / the resolvers answered                                    *)
EXTENDS Integers, Sequences, FiniteSets, TLC, Json, IOUtils, ZoneTimeline

VARIABLES l, zid, prev, hasPrev, segFrom, offs
zvars == <<l, zid, prev, hasPrev, segFrom, offs>>
Events == JsonDeserialize(IOEnv.TRACE_FILE)
Has(e, f) == f \in DOMAIN e
Rej(clause) == PrintT(<<"REJECT", clause, l>>)
Check(cond, clause) == IF cond THEN TRUE ELSE Rej(clause)

Iv(e) == [start |-> e.start, end |-> e.end, name |-> e.name, wall |-> e.wall, std |-> e.std, sav |-> e.sav]
NoIv == [start |-> TMin, end |-> TMin, name |-> "", wall |-> 0, std |-> 0, sav |-> 0]

Init == l = 1 /\ zid = "" /\ prev = NoIv /\ hasPrev = FALSE /\ segFrom = TMin /\ offs = <<0, 0>>

StepZone(e) == /\ zid' = e.id /\ prev' = NoIv /\ hasPrev' = FALSE /\ segFrom' = TMin
               /\ offs' = <<e.min_off, e.max_off>>
               /\ Check(e.min_off <= e.max_off, "min_offset_not_above_max_offset")
StepSeg(e) == /\ segFrom' = e.from /\ hasPrev' = FALSE /\ prev' = NoIv /\ UNCHANGED <<zid, offs>>

StepIv(e) ==
  LET iv == Iv(e) IN
  /\ prev' = iv /\ hasPrev' = TRUE /\ UNCHANGED <<zid, segFrom, offs>>
  /\ Check(WellFormedInterval(iv), "interval_nonempty_and_wall_is_standard_plus_savings")
  /\ Check(iv.wall >= offs[1] /\ iv.wall <= offs[2], "wall_offset_within_advertised_min_max")
  /\ (Has(e, "props") =>
        /\ Check(~Has(e.props, "exc"), "interval_properties_must_not_raise")
        /\ (Has(e.props, "duration") => Check(e.props.duration = Sub3(iv.end, iv.start), "interval_duration_is_end_minus_start"))
        /\ (Has(e.props, "local_start") => Check(e.props.local_start = Add3(iv.start, OfSeconds(iv.wall)), "interval_local_bounds_are_instants_plus_wall_offset"))
        /\ (Has(e.props, "local_end") => Check(e.props.local_end = Add3(iv.end, OfSeconds(iv.wall)), "interval_local_bounds_are_instants_plus_wall_offset")))
  /\ (Has(e, "fixed") => Check(iv.wall = e.fixed /\ iv.sav = 0 /\ iv.start = TMin /\ iv.end = TMax, "fixed_offset_zone_has_the_requested_offset"))
  /\ IF hasPrev
     THEN /\ Check(iv.start = prev.end, "intervals_abut_without_gap_or_overlap")
          /\ Check(~SameRules(prev, iv), "adjacent_intervals_differ")
     ELSE \* first interval of a walk segment: it contains the instant asked for;
          \* a walk from the start of time begins with an interval open at the start
          /\ Check(Le3(iv.start, segFrom) /\ Lt3(segFrom, iv.end), "interval_contains_the_instant_asked_for")
          /\ Check(e.from_min => iv.start = TMin, "first_interval_starts_at_the_beginning_of_time")
  /\ Check(e.has_start = (iv.start # TMin) /\ e.has_end = (iv.end # TMax), "has_start_has_end")
  /\ Check(\A f \in DOMAIN e.flags : e.flags[f], "probe_inside_interval_answers_that_interval_and_wall_offset")

\* the zone asked again after the walk, in another order: same partition, whatever was asked before
StepRequery(e) ==
  /\ UNCHANGED <<zid, prev, hasPrev, segFrom, offs>>
  /\ Check(Le3(e.start, e.at) /\ Lt3(e.at, e.end), "returned_interval_contains_the_instant_asked_for")
  /\ Check(e.same_as_walk /\ e.offset_agrees, "same_interval_whatever_was_asked_before")
\* get_zone_intervals(window): consecutive intervals, the first containing the window's start, the last reaching its end
StepIvs(e) ==
  /\ UNCHANGED <<zid, prev, hasPrev, segFrom, offs>>
  /\ Check(~Has(e, "exc"), "zone_intervals_of_a_window_must_not_raise")
  /\ (Has(e, "n") =>
        /\ Check(e.n >= 1 /\ Le3(e.starts[1], e.from) /\ Lt3(e.from, e.ends[1]), "first_listed_interval_contains_the_window_start")
        /\ Check(\A k \in 1..(e.n - 1) : e.ends[k] = e.starts[k + 1], "listed_intervals_abut")
        /\ Check(Le3(e.to, e.ends[e.n]) /\ Lt3(e.starts[e.n], e.to), "last_listed_interval_reaches_the_window_end_and_no_further")
        /\ Check(e.same, "listed_intervals_are_the_walked_ones"))
StepIvExc(e) == UNCHANGED <<zid, prev, hasPrev, segFrom, offs>> /\ Rej("every_instant_lies_in_exactly_one_interval")
StepEndz(e) == /\ UNCHANGED <<zid, prev, hasPrev, segFrom, offs>>
               /\ Check(hasPrev /\ prev.end = TMax, "last_interval_extends_to_the_end_of_time")

(* ---- C05: local mapping ---------------------------------------------------- *)
\* outcomes that are errors are encoded T3-shaped so that TLC can compare them with instants
SkippedT == <<0, 0, -2>>
AmbiguousT == <<0, 0, -3>>
Win(e) == [k \in 1..Len(e.win) |-> Iv(e.win[k])] \o <<>>
\* indices of window intervals into which the local value maps, in time order
Matches(w, loc) == {k \in 1..Len(w) : MapsInto(w[k], loc)}

StepMap(e) ==
  LET w == Win(e)
      loc == e.local
      ms == Matches(w, loc)
      n == Cardinality(ms)
      lo == IF n > 0 THEN CHOOSE k \in ms : \A j \in ms : k <= j ELSE 0
      hi == IF n > 0 THEN CHOOSE k \in ms : \A j \in ms : k >= j ELSE 0
      \* for a gap: the last interval whose local end is <= loc, and the next one
      before == IF n = 0 THEN CHOOSE k \in 1..(Len(w) - 1) :
                       /\ ~Lt3(loc, LocalOf(w[k], w[k].end))
                       /\ Lt3(loc, LocalOf(w[k + 1], w[k + 1].start))
                ELSE 0
  IN
  /\ UNCHANGED <<zid, prev, hasPrev, segFrom, offs>>
  /\ Check(\A k \in 1..(Len(w) - 1) : w[k].end = w[k + 1].start, "window_contiguous")
  \* the window reaches far enough on both sides that nothing outside it can match (offsets are within 18 h)
  /\ Check(/\ (w[1].start = TMin \/ Le3(Add3(w[1].start, OfSeconds(64800)), loc))
           /\ (w[Len(w)].end = TMax \/ Lt3(loc, Sub3(w[Len(w)].end, OfSeconds(64800)))), "machinery_window_covers_local_time")
  /\ Check(n <= 2, "at_most_two_instants_share_a_local_time")
  /\ Check(e.count = n, "count_equals_number_of_matching_instants")
  /\ IF n > 0
     THEN /\ Check(e.early = lo /\ e.late = hi, "early_late_intervals_are_the_matching_ones_earlier_first")
          /\ Check(e.first = PreImage(w[lo], loc) /\ e.last = PreImage(w[hi], loc), "results_are_exactly_the_preimages")
     ELSE /\ Check(e.early = before /\ e.late = before + 1, "gap_is_bracketed_by_adjacent_intervals")
          /\ Check(e.first = SkippedT /\ e.last = SkippedT, "skipped_time_has_no_instants")
  /\ Check(e.single = (IF n = 1 THEN PreImage(w[lo], loc) ELSE IF n = 0 THEN SkippedT ELSE AmbiguousT),
           "single_and_strict_resolver")
  /\ Check(e.strict = e.single, "strict_resolver_is_single")
  /\ Check(e.lenient = (IF n > 0 THEN PreImage(w[lo], loc) ELSE PreImage(w[before], loc)),
           "lenient_resolver_earlier_or_shifted_forward_by_gap")
  /\ Check(e.back_ok, "instant_rendered_in_zone_maps_back_to_itself")
  /\ (Has(e, "kept_same") => Check(e.kept_same, "a_mapping_kept_while_others_are_made_still_reports_the_same"))
  \* the stock resolvers combined: what each promises for two matches, and for a gap
  /\ (Has(e, "resolved") =>
        LET want == IF n = 1 THEN PreImage(w[lo], loc)
                    ELSE IF n = 2 THEN (CASE e.amb = 0 -> PreImage(w[lo], loc) [] e.amb = 1 -> PreImage(w[hi], loc) [] OTHER -> AmbiguousT)
                    ELSE (CASE e.skp = 0 -> Sub3(w[before].end, <<0, 0, 1>>)
                            [] e.skp = 1 -> w[before + 1].start
                            [] e.skp = 2 -> PreImage(w[before], loc)
                            [] OTHER -> SkippedT)
        IN  Check(e.resolved = want /\ e.resolved_meta, "stock_resolvers_do_what_they_promise"))
  /\ (Has(e, "strict2") => Check(e.strict2 = e.single /\ e.lenient2 = e.lenient, "local_date_time_routes_agree_with_the_zone_routes"))

\* start of day: the earliest instant whose local date (in the zone) is the given day
StepSod(e) ==
  LET w == Win(e)
      mid == <<e.day, 0, 0>>
      \* earliest instant of interval k whose local day is e.day (if any)
      cand(k) == LET pre == PreImage(w[k], mid) IN IF Lt3(pre, w[k].start) THEN w[k].start ELSE pre
      ok(k) == Lt3(cand(k), w[k].end) /\ LocalOf(w[k], cand(k))[1] = e.day
      ks == {k \in 1..Len(w) : ok(k)}
  IN
  /\ UNCHANGED <<zid, prev, hasPrev, segFrom, offs>>
  /\ Check(/\ (w[1].start = TMin \/ Le3(Add3(w[1].start, OfSeconds(64800)), mid))
           /\ (w[Len(w)].end = TMax \/ Lt3(Add3(mid, <<1, 0, 0>>), Sub3(w[Len(w)].end, OfSeconds(64800)))), "machinery_window_covers_local_time")
  /\ IF ks = {}
     THEN Check(e.res = SkippedT, "start_of_day_of_a_skipped_day_raises")
     ELSE LET k0 == CHOOSE k \in ks : \A j \in ks : k <= j IN
          /\ Check(e.res = cand(k0), "start_of_day_is_earliest_instant_carrying_that_date")
          /\ Check(e.res_cal = e.cal /\ e.res_day = e.day, "start_of_day_keeps_date_and_calendar")

Next == /\ l <= Len(Events) /\ l' = l + 1
        /\ LET e == Events[l] IN
           CASE e.op = "zone" -> StepZone(e) [] e.op = "seg" -> StepSeg(e) [] e.op = "iv" -> StepIv(e)
             [] e.op = "endz" -> StepEndz(e) [] e.op = "requery" -> StepRequery(e) [] e.op = "iv_exc" -> StepIvExc(e) [] e.op = "ivs" -> StepIvs(e) [] e.op = "map" -> StepMap(e) [] e.op = "sod" -> StepSod(e)
Spec == Init /\ [][Next]_zvars
=============================================================================
