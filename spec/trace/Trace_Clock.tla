----------------------------- MODULE Trace_Clock -----------------------------
(* Validates sequential traces recorded from the real FakeClock (and from      *)
(* ZonedClock / SystemClock wrappers) against Clock.tla over T3 numerals.      *)
(* One state per event; a mismatch prints <<"REJECT", clause, index>>, the     *)
(* state is re-synchronised from the logged value and validation carries on.   *)
EXTENDS Integers, Sequences, TLC, Json, IOUtils, T3

VARIABLES l, now, auto
C == INSTANCE Clock WITH Plus <- Add3, InRange <- InstantInRange, NoRes <- <<>>

Events == JsonDeserialize(IOEnv.TRACE_FILE)
Has(e, f) == f \in DOMAIN e
Rej(clause) == PrintT(<<"REJECT", clause, l>>)
\* NB: inside an action TLC explores both sides of a disjunction, so checks are IF-THEN-ELSE
Check(cond, clause) == IF cond THEN TRUE ELSE Rej(clause)
RaisedRange(e) == Has(e, "exc") /\ e.exc \in {"OverflowError", "ValueError"}

\* argument of an event as a T3;  advance_unit carries (unit, digits) or huge=TRUE
ArgOk(e) ==
  CASE e.op = "advance_unit" ->
         IF Has(e, "huge") THEN FALSE
         ELSE AmountWellFormed(e.unit, e.amt) /\ DurationInRange(AmountToT3(e.unit, e.amt))
    [] OTHER -> TRUE
Arg(e) ==
  CASE e.op = "advance" -> e.d
    [] e.op = "advance_unit" -> AmountToT3(e.unit, e.amt)
    [] e.op = "reset" -> e.i
    [] e.op = "set_auto" -> e.d
    [] OTHER -> <<>>
ModelOp(e) == IF e.op = "advance_unit" THEN "advance" ELSE e.op

Init == l = 1 /\ now = Zero3 /\ auto = Zero3

StepInit(e) == now' = e.now /\ auto' = e.auto

StepOp(e) ==
  IF ~ArgOk(e)
  THEN \* the amount itself is not a representable Duration: the call must raise, clock unchanged
       /\ Check(RaisedRange(e), "amount_out_of_range_must_raise")
       /\ UNCHANGED <<now, auto>>
  ELSE LET o == C!Outcome(ModelOp(e), Arg(e)) IN
       IF o.ok
       THEN /\ IF ~Has(e, "exc") THEN TRUE
               ELSE Rej(IF e.exc = "HANG" THEN "operation_completes" ELSE "unexpected_exception")
            /\ IF C!HasResult(e.op) /\ Has(e, "res") /\ e.res # o.res
               THEN /\ Rej("result_equals_model")
                    /\ IF e.op = "read" THEN now' = Add3(e.res, auto) /\ auto' = auto
                                        ELSE now' = o.now /\ auto' = e.res
               ELSE now' = o.now /\ auto' = o.auto
       ELSE /\ Check(RaisedRange(e), "out_of_range_must_raise")
            /\ now' = o.now /\ auto' = o.auto

\* SystemClock: the value read lies between two readings of the operating-system clock
StepSys(e) == /\ Check(Le3(e.before, e.res) /\ Le3(e.res, e.after), "system_clock_brackets_os_time")
              /\ UNCHANGED <<now, auto>>

\* ZonedClock over the fake clock with a fixed offset (seconds) and a calendar id:
\* same instant as the wrapped clock (a read of it), local = instant + offset, parts retained
StepZoned(e) ==
  LET o == C!Outcome("read", <<>>)
      loc == Add3(o.res, OfSeconds(e.offset))
  IN
  \* (a zoned read that came back although the model's read leaves the range: rejected, and nothing more can be said about it)
  IF ~o.ok THEN Rej("out_of_range_must_raise") /\ UNCHANGED <<now, auto>> ELSE
  /\ Check(o.ok, "zoned_clock_read_raises")
  \* (for a real zone the driver logs the zone interval it took the offset from: it must be the one containing the instant read)
  \*  - when the clock's own current value is the model's; when it is not, that is the finding, and the interval says nothing)
  /\ (Has(e, "peek") => Check(e.peek = o.res, "clock_value_is_the_model_value"))
  /\ (Has(e, "iv") /\ (Has(e, "peek") => e.peek = o.res) =>
        Check(Le3(e.iv.start, o.res) /\ Lt3(o.res, e.iv.end) /\ e.iv.wall = e.offset, "machinery_reference_interval_contains_the_instant_read"))
  /\ Check(e.has_instant => e.instant = o.res, "zoned_clock_instant_is_wrapped_clock_instant")
  /\ Check(e.has_day => e.local[1] = loc[1], "zoned_clock_local_date_is_instant_plus_offset")
  /\ Check(e.has_time => (e.local[2] = loc[2] /\ e.local[3] = loc[3]), "zoned_clock_local_time_is_instant_plus_offset")
  /\ Check(e.got_offset = e.offset /\ e.got_cal = e.cal /\ e.got_zone = e.zone, "zoned_clock_keeps_zone_and_calendar")
  \* each getter consults the wrapped clock exactly once (the model is stepped by one read)
  /\ now' = o.now /\ auto' = o.auto

Next == /\ l <= Len(Events)
        /\ l' = l + 1
        /\ LET e == Events[l] IN
             CASE e.op = "init" -> StepInit(e)
               [] e.op = "sys" -> StepSys(e)
               [] e.op = "zoned" -> StepZoned(e)
               [] OTHER -> StepOp(e)

Spec == Init /\ [][Next]_<<l, now, auto>>
=============================================================================
