--------------------------- MODULE Trace_DateArith ---------------------------
EXTENDS Integers, Sequences, TLC, Json, IOUtils, DateArith, T3, BigInt
VARIABLES l
Events == JsonDeserialize(IOEnv.TRACE_FILE)
Has(e, f) == f \in DOMAIN e
Rej(clause) == PrintT(<<"REJECT", clause, l>>)
Check(cond, clause) == IF cond THEN TRUE ELSE Rej(clause)
RefCheck(cond, clause) == IF cond THEN TRUE ELSE PrintT(<<"DIVERGE", clause, l>>)
Big(x) == [s |-> x.s, d |-> x.d]
Known(cal) == cal \in ArithmeticIds
Regular12(cal) == cal \in {"Um Al Qura", "Persian Algorithmic"}

\* generic month arithmetic for calendars with a constant number M of months per year
RegPlusMonths(M, y, m, k) == LET o == y * M + m - 1 + k IN <<o \div M, (o % M) + 1>>

StepPlusDays(e) ==
  LET tgt == Add(FromInt(e.n), MulSmall(Big(e.k), IF e.unit = "weeks" THEN 7 ELSE 1)) IN
  IF Fits31(tgt) /\ ToInt(tgt) >= e.min_day /\ ToInt(tgt) <= e.max_day
  THEN /\ Check(~Has(e, "exc"), "plus_days_in_range_must_not_raise")
       /\ (Has(e, "res") => Check(e.res = ToInt(tgt) /\ e.res_cal = e.cal, "plus_days_moves_exactly_n_days"))
       \* the result is a date of the calendar: the one its own day number names (not, say, a 30th of a 29-day month that happens
       \* to count as the next day)
       /\ (Has(e, "res_valid") => Check(e.res_valid, "plus_days_yields_a_valid_date"))
  ELSE Check(Has(e, "exc"), "plus_days_out_of_range_must_raise")

StepPlusMonths(e) ==
  IF Known(e.cal) /\ ~(e.cal = "Persian Arithmetic" /\ e.y < 476)
  THEN LET yp == YearPosOfOrdinal(e.cal, MonthOrdinal(e.cal, e.y, e.m) + e.k) IN
       IF ~YearInRange(e.cal, yp[1]) THEN Check(Has(e, "exc"), "plus_months_out_of_range_must_raise")
       ELSE LET r == PlusMonths(e.cal, e.y, e.m, e.d, e.k) IN
            /\ Check(~Has(e, "exc"), "plus_months_in_range_must_not_raise")
            /\ (Has(e, "res") => Check(e.res[1] = r[1] /\ e.res[2] = r[2], "plus_months_lands_in_month_that_many_months_away"))
            /\ (Has(e, "res") => Check(e.res[3] = r[3], "plus_months_keeps_or_clamps_day_of_month"))
  ELSE \* table calendars: constant months per year; day clamp against the length the calendar reports
       LET M == IF e.cal = "Badi" THEN 19 ELSE 12
           ym == RegPlusMonths(M, e.y, e.m, e.k)
       IN  IF e.cal = "Badi" /\ e.m = 18 /\ e.d > 19 THEN RefCheck(Has(e, "res") => (e.res[1] = ym[1] /\ e.res[2] = ym[2]), "badi_intercalary_days_month_arithmetic")
           ELSE IF ym[1] < e.min_year \/ ym[1] > e.max_year THEN Check(Has(e, "exc"), "plus_months_out_of_range_must_raise")
           ELSE /\ Check(~Has(e, "exc"), "plus_months_in_range_must_not_raise")
                \* (Badi: the intercalary days are days 20.. of month 18 but lie between months 18 and 19; where a date
                \*  inside them lands is the calendar's own choice - a reference clause)
                /\ (Has(e, "res") => IF e.cal = "Badi" /\ e.m = 18 /\ e.d > 19
                                     THEN RefCheck(e.res[1] = ym[1] /\ e.res[2] = ym[2], "badi_intercalary_days_month_arithmetic")
                                     ELSE Check(e.res[1] = ym[1] /\ e.res[2] = ym[2], "plus_months_lands_in_month_that_many_months_away"))
                /\ (Has(e, "res") => Check(e.res[3] >= 1 /\ e.res[3] <= e.res_dim, "plus_months_yields_valid_date"))
                /\ (Has(e, "res") /\ e.cal # "Badi" => Check(e.res[3] = Min(e.d, e.res_dim), "plus_months_keeps_or_clamps_day_of_month"))

StepPlusYears(e) ==
  LET y2 == e.y + e.k IN
  IF y2 < e.min_year \/ y2 > e.max_year THEN Check(Has(e, "exc"), "plus_years_out_of_range_must_raise")
  ELSE /\ Check(~Has(e, "exc"), "plus_years_in_range_must_not_raise")
       /\ (Has(e, "res") => Check(e.res[1] = y2, "plus_years_lands_in_year_that_many_years_away"))
       /\ (Has(e, "res") => Check(e.res[3] >= 1 /\ e.res[3] <= e.res_dim, "plus_years_yields_valid_date"))
       /\ IF Known(e.cal) /\ ~(e.cal = "Persian Arithmetic" /\ (e.y < 476 \/ y2 < 476))
          THEN (Has(e, "res") => Check(e.res = PlusYears(e.cal, e.y, e.m, e.d, e.k), "plus_years_keeps_month_and_adjusts_day_by_documented_rule"))
          ELSE (Has(e, "res") /\ e.cal # "Badi" => Check(e.res[2] = e.m /\ e.res[3] = Min(e.d, e.res_dim), "plus_years_keeps_month_and_adjusts_day_by_documented_rule"))

\* Period.between laws.  Points are T3 (dates: <<day, 0, 0>>; times: <<0, s, n>>; year-months: <<month ordinal, 0, 0>>).
\* Badi dates inside the intercalary days (month 18, day 20+): the calendar's month arithmetic for them is its own
\* (undocumented) choice, so the between-laws are reference clauses when an operand lies there
LCheck(e, cond, clause) == IF Has(e, "badi_intercalary") /\ e.badi_intercalary THEN RefCheck(cond, clause) ELSE Check(cond, clause)
StepBetween(e) ==
  LET fwd == Le3(e.start, e.end)
      lo == IF fwd THEN e.start ELSE e.end
      hi == IF fwd THEN e.end ELSE e.start
      sgn == IF e.start = e.end THEN 0 ELSE IF fwd THEN 1 ELSE -1
  IN
  /\ LCheck(e, ~Has(e, "exc"), "between_must_not_raise")
  /\ (Has(e, "sp") => LCheck(e, Le3(lo, e.sp) /\ Le3(e.sp, hi), "start_plus_period_lies_between_start_and_end"))
  /\ (Has(e, "sp") /\ e.has_finest => LCheck(e, e.sp = e.end, "start_plus_period_equals_end_when_finest_unit_requested"))
  /\ (Has(e, "signs") => LCheck(e, \A i \in 1..Len(e.signs) : e.signs[i] = 0 \/ e.signs[i] = sgn, "all_components_have_one_sign"))
  /\ (Has(e, "signs") => LCheck(e, \A i \in 1..Len(e.signs) : e.signs[i] # 0 => e.requested[i], "only_requested_units_are_used"))
  \* single unit: one more unit in the direction of travel would pass the end (or leave the range)
  /\ (Has(e, "over") => LCheck(e, e.over_raised \/ (IF fwd THEN Lt3(e.end, e.over) ELSE Lt3(e.over, e.end)) \/ sgn = 0, "single_unit_amount_is_maximal"))

\* fixed-length total of a period, in nanoseconds
TotalNs(c) ==
  LET days == Add(MulSmall(Big(c.weeks), 7), Big(c.days))
      secs == Add(Add(Add(MulSmall(days, 86400), MulSmall(Big(c.hours), 3600)), MulSmall(Big(c.minutes), 60)), Big(c.seconds))
      B9(x) == MulSmall(MulSmall(x, 100000), 10000)
  IN  Add(Add(Add(B9(secs), MulSmall(MulSmall(Big(c.milliseconds), 1000), 1000)), MulSmall(Big(c.ticks), 100)), Big(c.nanoseconds))
StepNormalize(e) ==
  /\ Check(~Has(e, "exc"), "normalize_must_not_raise")
  /\ (Has(e, "after") => Check(TotalNs(e.after) = TotalNs(e.before), "normalize_preserves_fixed_length_total"))
  /\ (Has(e, "after") => Check(Big(e.after.years) = Big(e.before.years) /\ Big(e.after.months) = Big(e.before.months), "normalize_leaves_years_and_months"))
StepToDuration(e) ==
  IF e.has_ym THEN Check(Has(e, "exc"), "to_duration_with_months_or_years_raises")
  ELSE LET tot == TotalNs(e.before)
           \* duration as nanoseconds: (d * 86400 + s) * 10^9 + n
           dur == Add(MulSmall(MulSmall(Add(MulSmall(FromInt(e.res[1]), 86400), FromInt(e.res[2])), 100000), 10000), FromInt(e.res[3]))
       IN  Check(~Has(e, "exc") /\ dur = tot, "to_duration_preserves_fixed_length_total")

\* LocalDate +/- Period: the (effective) years, months, weeks, days are applied in that order
StepDatePeriod(e) ==
  IF Known(e.cal) /\ ~(e.cal = "Persian Arithmetic" /\ (e.y < 476 \/ e.y + e.years < 476))
  THEN LET afterYears == IF e.years # 0 THEN PlusYears(e.cal, e.y, e.m, e.d, e.years) ELSE <<e.y, e.m, e.d>>
           ypos == YearPosOfOrdinal(e.cal, MonthOrdinal(e.cal, afterYears[1], afterYears[2]) + e.months)
           yrOk == YearInRange(e.cal, e.y + e.years) /\ YearInRange(e.cal, ypos[1])
           afterMonths == IF e.months # 0 /\ yrOk THEN PlusMonths(e.cal, afterYears[1], afterYears[2], afterYears[3], e.months) ELSE afterYears
           day0 == IF yrOk THEN DayOf(e.cal, afterMonths[1], afterMonths[2], afterMonths[3]) ELSE 0
           mid == day0 + e.weeks * 7
           tgt == mid + e.days
       IN  IF ~yrOk \/ mid < e.min_day \/ mid > e.max_day \/ tgt < e.min_day \/ tgt > e.max_day
           THEN TRUE     \* leaving the range at any step: covered by the single-unit clauses
           ELSE /\ Check(~Has(e, "exc"), "date_plus_period_in_range_must_not_raise")
                /\ (Has(e, "res") => Check(e.res = tgt /\ e.res_cal = e.cal, "date_plus_period_applies_years_months_weeks_days_in_order"))
  ELSE TRUE

\* the Period value: componentwise sum and difference, builder round trips, equality by components
StepPeriodAlgebra(e) ==
  /\ Check(~Has(e, "exc"), "period_algebra_must_not_raise")
  /\ Check(e.built = e.p, "period_builder_builds_the_components_it_was_given")
  /\ (Has(e, "sum") => Check(e.sum = [i \in 1..10 |-> e.p[i] + e.q[i]], "period_sum_is_componentwise"))
  /\ (Has(e, "diff") => Check(e.diff = [i \in 1..10 |-> e.p[i] - e.q[i]], "period_difference_is_componentwise"))
  /\ (Has(e, "rebuilt") => Check(e.rebuilt = e.p /\ e.from_period = e.p, "period_to_builder_and_back_is_identity"))
  /\ (Has(e, "changed") => Check(e.index_read /\ e.changed = [e.p EXCEPT ![e.changed_index] = @ + 1], "period_builder_index_addresses_one_unit"))
  /\ (Has(e, "eq_copy") => Check(e.eq_copy /\ e.ne_changed, "period_equality_is_componentwise"))
  /\ (Has(e, "has_date") => Check(e.has_date = (\E i \in 1..4 : e.p[i] # 0) /\ e.has_time = (\E i \in 5..10 : e.p[i] # 0), "period_component_kinds"))

\* the same arithmetic after another year was asked about first (caches emptied before both runs): same answers
StepHist(e) == Check(~Has(e, "exc") /\ e.res = e.pure, "date_arithmetic_independent_of_what_was_asked_before")

Init == l = 1
Next == /\ l <= Len(Events) /\ l' = l + 1
        /\ LET e == Events[l] IN
           CASE e.op = "plus_days" -> StepPlusDays(e) [] e.op = "plus_months" -> StepPlusMonths(e)
             [] e.op = "plus_years" -> StepPlusYears(e) [] e.op = "between" -> StepBetween(e)
             [] e.op = "normalize" -> StepNormalize(e) [] e.op = "to_duration" -> StepToDuration(e)
             [] e.op = "date_period" -> StepDatePeriod(e) [] e.op = "period_algebra" -> StepPeriodAlgebra(e)
             [] e.op = "ym_plus" -> StepPlusMonths(e) [] e.op = "hist" -> StepHist(e)
Spec == Init /\ [][Next]_l
=============================================================================
