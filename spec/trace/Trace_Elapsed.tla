---------------------------- MODULE Trace_Elapsed ----------------------------
(* Validates calls recorded from the real Duration / Instant / Offset against   *)
(* Elapsed.tla.  Every event is an independent call (name, arguments, result or  *)
(* exception class); one state per event.                                        *)
EXTENDS Integers, Sequences, TLC, Json, IOUtils, Elapsed, Calendars

VARIABLES l
Events == JsonDeserialize(IOEnv.TRACE_FILE)
Has(e, f) == f \in DOMAIN e
Rej(clause) == PrintT(<<"REJECT", clause, l>>)
Check(cond, clause) == IF cond THEN TRUE ELSE Rej(clause)
RefCheck(cond, clause) == IF cond THEN TRUE ELSE PrintT(<<"DIVERGE", clause, l>>)
MinTag == <<-2000000000, 0, 0>>
MaxTag == <<2000000000, 0, 0>>
Raised(e) == Has(e, "exc") /\ e.exc \in {"ValueError", "OverflowError"}

\* JSON limbs {"s":..,"d":[..]} are already BigInt records
Big(x) == [s |-> x.s, d |-> x.d]

\* result must be `v` when `inrange`, otherwise the call must raise ValueError/OverflowError
Outcome(e, inrange, v, what) ==
  IF inrange
  THEN /\ Check(~Has(e, "exc"), what \o "_in_range_must_not_raise")
       /\ (Has(e, "res") => Check(e.res = v, what \o "_exact"))
  ELSE Check(Raised(e), what \o "_out_of_range_must_raise")

AmtOk(e) == ~Has(e, "huge") /\ AmountWellFormed(e.unit, e.amt)
Amt3(e) == AmountToT3(e.unit, e.amt)

StepDuration(e) ==
  CASE e.op = "d_from" ->
         IF Has(e, "huge") THEN Check(Raised(e), "duration_from_units_out_of_range_must_raise")
         ELSE Outcome(e, DurationInRange(Amt3(e)), Amt3(e), "duration_from_units")
    [] e.op = "d_add" -> Outcome(e, DurationInRange(Add3(e.a, e.b)), Add3(e.a, e.b), "duration_add")
    [] e.op = "d_sub" -> Outcome(e, DurationInRange(Sub3(e.a, e.b)), Sub3(e.a, e.b), "duration_subtract")
    [] e.op = "d_neg" -> Outcome(e, DurationInRange(Neg3(e.a)), Neg3(e.a), "duration_negate")
    [] e.op = "d_mul" ->
         LET p == Mul(NsOf(e.a), Big(e.k)) IN
         IF DayFits(p) THEN Outcome(e, DurationInRange(OfNs(p)), OfNs(p), "duration_multiply")
         ELSE Check(Raised(e), "duration_multiply_out_of_range_must_raise")
    [] e.op = "d_div" ->
         IF e.k.s = 0 THEN RefCheck(Has(e, "exc"), "division_by_zero_raises")
         ELSE \* |quotient| <= |a|, so it leaves the range only for (minimum duration) / -1
              /\ IF Has(e, "exc")
                 THEN Check(Raised(e) /\ Big(e.k) = FromInt(-1) /\ ~DurationInRange(Neg3(e.a)), "duration_divide_must_not_raise")
                 ELSE TRUE
              /\ (Has(e, "res") => Check(IsTruncQuot(NsOf(e.a), Big(e.k), NsOf(e.res)), "duration_divide_truncates_exactly"))
    [] e.op = "d_cmp" ->
         LET c == Cmp3(e.a, e.b) IN
         /\ Check(e.lt = (c < 0) /\ e.le = (c <= 0) /\ e.gt = (c > 0) /\ e.ge = (c >= 0), "duration_ordering")
         /\ Check(e.eq = (c = 0) /\ e.ne = (c # 0), "duration_equality")
         /\ Check(Sign(e.cmp) = c, "duration_compare_to")
         /\ Check(e.max = (IF c >= 0 THEN e.a ELSE e.b) /\ e.min = (IF c <= 0 THEN e.a ELSE e.b), "duration_min_max")
    [] e.op = "d_parts" ->
         LET c == Components(e.a) IN
         /\ Check(e.a[2] \in 0..(SPD - 1) /\ e.a[3] \in 0..(NPS - 1), "day_nanosecond_split_normalised")
         /\ Check(e.days = c.days, "duration_days_truncated")
         /\ Check(e.hours = c.hours /\ e.minutes = c.minutes /\ e.seconds = c.seconds, "duration_hms_components")
         /\ Check(e.milliseconds = c.milliseconds /\ e.microseconds = c.microseconds
                  /\ e.subsecond_ticks = c.subsecond_ticks /\ e.subsecond_nanoseconds = c.subsecond_nanoseconds,
                  "duration_subsecond_components")
         /\ Check(e.nod = c.nod, "duration_nanosecond_of_day")
         /\ Check(Big(e.to_ns) = NsOf(e.a), "duration_to_nanoseconds")
         /\ Check(Big(e.bcl_ticks) = TruncUnits(e.a, 100), "duration_bcl_ticks_truncated")
    [] e.op = "d_total" ->
         \* float accessor: |float - exact| <= 2^-50 * (magnitude of the larger intermediate), by cross
         \* multiplication.  The value is days*24h + nanosecond-of-day computed in floating point, so the error
         \* is relative to (|floor days| + 1) days, not to the (possibly tiny) result.
         \*   float = num/den,  exact = ns / U   =>   |num*U - ns*den| * 2^50 <= (|d| + 1) * NPD * den
         LET ns == NsOf(e.a)
             U  == Big(e.unit_ns)
             lhs == AbsB(Sub(Mul(Big(e.num), U), Mul(ns, Big(e.den))))
             two50 == Mul(FromInt(1073741824), FromInt(1048576))
             scale == NsOf(<<Abs(e.a[1]) + 1, 0, 0>>)
         IN  Check(Le(Mul(lhs, two50), Mul(scale, Big(e.den))), "duration_total_within_float_error")

StepInstant(e) ==
  CASE e.op = "i_from_unix" ->
         IF Has(e, "huge") THEN Check(Raised(e), "instant_from_unix_out_of_range_must_raise")
         ELSE Outcome(e, InstantInRange(Amt3(e)), Amt3(e), "instant_from_unix")
    [] e.op = "i_to_unix" -> Check(Big(e.res) = FloorUnits(e.a, e.unit_ns), "instant_to_unix_floors")
    [] e.op = "i_plus" -> Outcome(e, InstantInRange(Add3(e.a, e.d)), Add3(e.a, e.d), "instant_plus_duration")
    [] e.op = "i_minus" -> Outcome(e, InstantInRange(Sub3(e.a, e.d)), Sub3(e.a, e.d), "instant_minus_duration")
    [] e.op = "i_diff" -> Outcome(e, TRUE, Sub3(e.a, e.b), "instant_difference")
    [] e.op = "i_cmp" ->
         LET c == Cmp3(e.a, e.b) IN
         /\ Check(e.lt = (c < 0) /\ e.le = (c <= 0) /\ e.gt = (c > 0) /\ e.ge = (c >= 0), "instant_ordering")
         /\ Check(e.eq = (c = 0) /\ e.ne = (c # 0), "instant_equality")
         /\ Check(Sign(e.cmp) = c, "instant_compare_to")
         /\ Check(e.max = (IF c >= 0 THEN e.a ELSE e.b) /\ e.min = (IF c <= 0 THEN e.a ELSE e.b), "instant_min_max")
    \* offsets applied to instants / local instants (the local time line has the same day range as the instant line):
    \* the plain route raises outside the range, the "safe" route answers with the before-minimum / after-maximum marker
    [] e.op = "consts" ->
         /\ Check(e.i_max = <<InstantMaxDay, 86399, 999999999>> /\ e.i_min = <<InstantMinDay, 0, 0>> /\ e.epoch = Zero3, "instant_range_constants")
         /\ Check(e.d_max = <<DurMaxDay, 86399, 999999999>> /\ e.d_min = <<DurMinDay, 0, 0>>, "duration_range_constants")
         /\ Check(e.d_zero = Zero3 /\ e.d_eps = <<0, 0, 1>> /\ e.d_day = <<1, 0, 0>> /\ e.d_week = <<7, 0, 0>>, "duration_unit_constants")
         /\ Check(e.o_max = OffsetMax /\ e.o_min = OffsetMin /\ e.o_zero = 0, "offset_range_constants")
    [] e.op = "i_local" ->
         LET sum == Add3(e.a, OfSeconds(e.o)) IN
         /\ IF InstantInRange(sum)
            THEN /\ Check(~Has(e, "exc") /\ Has(e, "res") /\ e.res = sum, "instant_plus_offset_exact")
                 /\ Check(Has(e, "back") /\ e.back = e.a, "local_instant_minus_offset_returns_the_instant")
            ELSE Check(Raised(e), "instant_plus_offset_out_of_range_must_raise")
         /\ Check(Has(e, "safe") /\ e.safe = (IF InstantInRange(sum) THEN sum ELSE IF sum[1] < InstantMinDay THEN MinTag ELSE MaxTag),
                  "safe_instant_plus_offset_exact_or_marker")
    [] e.op = "l_minus" ->
         LET diff == Sub3(e.a, OfSeconds(e.o)) IN
         /\ Outcome(e, InstantInRange(diff), diff, "local_instant_minus_offset")
         /\ Check(Has(e, "safe") /\ e.safe = (IF InstantInRange(diff) THEN diff ELSE IF diff[1] < InstantMinDay THEN MinTag ELSE MaxTag),
                  "safe_local_instant_minus_offset_exact_or_marker")
    [] e.op = "i_from_utc" ->
         LET valid == /\ e.y >= -9998 /\ e.y <= 9999 /\ e.mo \in 1..12
                      /\ e.d \in 1..GJMonthLen(GregLeap(e.y), IF e.mo \in 1..12 THEN e.mo ELSE 1)
                      /\ e.h \in 0..23 /\ e.mi \in 0..59 /\ e.s \in 0..59
         IN  IF valid THEN Outcome(e, TRUE, <<GregDay(e.y, e.mo, e.d), e.h * 3600 + e.mi * 60 + e.s, 0>>, "instant_from_utc")
             ELSE Check(Has(e, "exc"), "instant_from_utc_invalid_fields_must_raise")

StepOffset(e) ==
  CASE e.op = "o_from" ->
         \* k units; the offset is k's seconds truncated toward zero; range check on k itself (+-18h)
         IF Has(e, "huge") THEN Check(Raised(e), "offset_out_of_range_must_raise")
         ELSE LET t == Amt3(e)
                  a == Abs3(t)
                  secs == (IF t[1] < 0 THEN -1 ELSE 1) * (a[1] * SPD + a[2])
                  inr == /\ a[1] = 0
                         /\ (a[2] < 64800 \/ (a[2] = 64800 /\ a[3] = 0))
              IN  Outcome(e, inr, secs, "offset_from_units")
    [] e.op = "o_from_td" ->     \* a standard-library timedelta <<days, seconds, microseconds>> (normalised: seconds, microseconds >= 0)
         LET secs == e.td[1] * 86400 + e.td[2]
             micro == e.td[3]
             inRange == secs >= -64800 /\ (secs < 64800 \/ (secs = 64800 /\ micro = 0))
             trunc == IF secs >= 0 \/ micro = 0 THEN secs ELSE secs + 1
         IN  /\ Outcome(e, inRange, trunc, "offset_from_timedelta")
             /\ Check(~Has(e, "dur_exc") /\ Has(e, "dur") /\ e.dur = <<e.td[1], e.td[2], micro * 1000>>, "duration_from_timedelta_exact")
    [] e.op = "o_hm" -> Outcome(e, OffsetInRange(e.h * 3600 + e.m * 60), e.h * 3600 + e.m * 60, "offset_from_hours_and_minutes")
    [] e.op = "o_add" -> Outcome(e, OffsetInRange(e.a + e.b), e.a + e.b, "offset_add")
    [] e.op = "o_sub" -> Outcome(e, OffsetInRange(e.a - e.b), e.a - e.b, "offset_subtract")
    [] e.op = "o_neg" -> Outcome(e, TRUE, -e.a, "offset_negate")
    [] e.op = "o_parts" ->
         /\ Check(e.seconds = e.a /\ e.milliseconds = e.a * 1000, "offset_seconds_milliseconds")
         /\ Check(Big(e.ticks) = MulSmall(MulSmall(FromInt(e.a), 10000), 1000), "offset_ticks")
         /\ Check(Big(e.nanoseconds) = MulSmall(MulSmall(FromInt(e.a), 100000), 10000), "offset_nanoseconds")
    [] e.op = "o_cmp" ->
         /\ Check(e.lt = (e.a < e.b) /\ e.le = (e.a <= e.b) /\ e.gt = (e.a > e.b) /\ e.ge = (e.a >= e.b), "offset_ordering")
         /\ Check(e.eq = (e.a = e.b), "offset_equality")
         /\ Check(Sign(e.cmp) = Sign(e.a - e.b), "offset_compare_to")
         /\ Check(e.max = Max2(e.a, e.b) /\ e.min = Min2(e.a, e.b), "offset_min_max")

Init == l = 1
Next == /\ l <= Len(Events)
        /\ l' = l + 1
        /\ LET e == Events[l] IN
             CASE e.op \in {"d_from", "d_add", "d_sub", "d_neg", "d_mul", "d_div", "d_cmp", "d_parts", "d_total"} -> StepDuration(e)
               [] e.op \in {"i_from_unix", "i_to_unix", "i_plus", "i_minus", "i_diff", "i_cmp", "i_from_utc", "i_local", "l_minus", "consts"} -> StepInstant(e)
               [] OTHER -> StepOffset(e)
Spec == Init /\ [][Next]_l
=============================================================================
