----------------------------- MODULE Trace_Codec -----------------------------
(* Validates the real zone-data writer and reader against NzdCodec.tla:         *)
(*   canonical:  the bytes the writer produced are exactly Enc(value)            *)
(*   lossless:   the reader returned an equal value and consumed exactly those    *)
(*               bytes (junk was appended after them by the driver)               *)
(* and, as the codec specification's own sanity, Dec(Enc(value)) = value.         *)
EXTENDS Integers, Sequences, TLC, Json, IOUtils, NzdCodec

VARIABLES l
Events == JsonDeserialize(IOEnv.TRACE_FILE)
Has(e, f) == f \in DOMAIN e
Rej(clause) == PrintT(<<"REJECT", clause, l>>)
Check(cond, clause) == IF cond THEN TRUE ELSE Rej(clause)

\* JSON arrays of numbers arrive as tuples; a yearly rule arrives as a record with the spec's field names
Yo(y) == [mode |-> y.mode, dow |-> y.dow, adv |-> y.adv, addDay |-> y.addDay, month |-> y.month, dom |-> y.dom, ms |-> y.ms]
Alt(t) == [stdOffset |-> t.stdOffset, stdName |-> t.stdName, stdYo |-> Yo(t.stdYo), dstName |-> t.dstName,
           dstYo |-> Yo(t.dstYo), savings |-> t.savings]
Per(ps) == [k \in 1..Len(ps) |-> [start |-> ps[k].start, name |-> ps[k].name, wall |-> ps[k].wall, savings |-> ps[k].savings]] \o <<>>
Zone(z) == [periods |-> Per(z.periods), tailStart |-> z.tailStart, hasTail |-> z.hasTail,
            tail |-> IF z.hasTail THEN Alt(z.tail) ELSE NoTail]

Common(e, enc, dec, backOk, what) ==
  /\ Check(e.bytes = enc, what \o "_writer_emits_documented_encoding")
  /\ Check(dec.ok /\ dec.p = Len(enc) + 1, what \o "_spec_decoder_consumes_exactly")
  /\ Check(~Has(e, "rexc"), what \o "_reader_raised")
  /\ (Has(e, "consumed") => Check(e.consumed = Len(e.bytes), what \o "_reader_consumes_exactly_the_bytes_written"))
  /\ (Has(e, "more") => Check(e.more, what \o "_lookahead_reports_the_bytes_that_follow"))
  /\ Check(backOk, what \o "_read_back_equal")

Step(e) ==
  CASE e.op = "count" -> Common(e, EncCount(e.v), DecCount(EncCount(e.v), 1), Has(e, "back") /\ e.back = e.v, "count")
    [] e.op = "signed" -> Common(e, EncSigned(e.v), DecSigned(EncSigned(e.v), 1), Has(e, "back") /\ e.back = e.v, "signed_count")
    [] e.op = "millis" -> Common(e, EncMillis(e.v), DecMillis(EncMillis(e.v), 1), Has(e, "back") /\ e.back = e.v, "milliseconds")
    [] e.op = "offset" -> Common(e, EncMillis(e.v * 1000), DecMillis(EncMillis(e.v * 1000), 1), Has(e, "back") /\ e.back = e.v, "offset")
    [] e.op = "trans" ->
         LET enc == EncTransition(e.prev, e.v) IN
         Common(e, enc, DecTransition(enc, 1, e.prev), Has(e, "back") /\ e.back = e.v, "transition")
    [] e.op = "string" ->
         IF e.pooled
         THEN Common(e, EncStringPooled(e.index), DecStringPooled(EncStringPooled(e.index), 1, e.index + 1), Has(e, "back") /\ e.back = e.cps, "pooled_string")
         ELSE Common(e, EncStringRaw(e.cps), DecStringRaw(EncStringRaw(e.cps), 1), Has(e, "back") /\ e.back = e.cps, "string")
    [] e.op = "yo" ->
         LET enc == EncYearOffset(Yo(e.v)) d == DecYearOffset(enc, 1) IN
         /\ Common(e, enc, d, Has(e, "back") /\ Yo(e.back) = Yo(e.v) /\ e.eq, "yearly_rule")
         /\ Check(d.v = Yo(e.v), "yearly_rule_spec_round_trip")
    [] e.op = "altmap" ->
         LET enc == EncAltMap(Alt(e.v)) d == DecAltMap(enc, 1, e.pool) IN
         /\ Common(e, enc, d, Has(e, "back") /\ Alt(e.back) = Alt(e.v) /\ e.eq, "alternating_map")
         /\ Check(d.v = Alt(e.v), "alternating_map_spec_round_trip")
    [] e.op = "recurrence" ->
         LET r == [name |-> e.v.name, savings |-> e.v.savings, yo |-> Yo(e.v.yo), from |-> e.v.from, to |-> e.v.to] IN
         /\ Check(e.bytes = EncRecurrence(r), "recurrence_writer_emits_documented_encoding")
         /\ Check(~Has(e, "rexc") /\ Has(e, "back") /\ e.eq /\ e.back.name = r.name /\ e.back.savings = r.savings
                  /\ Yo(e.back.yo) = r.yo /\ e.back.to = r.to /\ (r.from # 0 => e.back.from = r.from), "recurrence_read_back_equal")   \* (-1: from the start of time)
         /\ (Has(e, "consumed") => Check(e.consumed = Len(e.bytes), "recurrence_reader_consumes_exactly_the_bytes_written"))
    [] e.op = "zone" ->
         LET z == Zone(e.v) enc == EncZone(z) d == DecZone(enc, 1, e.pool) IN
         /\ Common(e, enc, d, Has(e, "back") /\ Zone(e.back) = z, "precalculated_zone")
         /\ Check(d.v = z, "precalculated_zone_spec_round_trip")
    [] e.op = "dict" ->
         \* count, then key/value strings in order
         LET RECURSIVE Pairs(_)
             Pairs(k) == IF k > Len(e.keys) THEN <<>> ELSE EncStringRaw(e.keys[k]) \o EncStringRaw(e.vals[k]) \o Pairs(k + 1)
         IN  /\ Check(e.bytes = EncCount(Len(e.keys)) \o Pairs(1), "dictionary_writer_emits_documented_encoding")
             /\ Check(~Has(e, "rexc") /\ Has(e, "back_equal") /\ e.back_equal /\ Has(e, "consumed") /\ e.consumed = Len(e.bytes), "dictionary_read_back_equal")
    [] e.op = "fixed_zone" ->
         \* a fixed zone of a reference-compiled database: offset, then - when bytes remain - the interval name as a pool index
         \* (the reader decides "bytes remain" with its one-byte lookahead, which must not swallow the byte it looked at)
         LET r1 == DecMillis(e.bytes, 1)
             named == r1.ok /\ r1.p <= Len(e.bytes)
             r2 == IF named THEN DecStringPooled(e.bytes, r1.p, e.pool) ELSE Fail
         IN  /\ Check(~Has(e, "exc"), "fixed_zone_reader_raised")
             /\ Check(r1.ok /\ (named => r2.ok /\ r2.p = Len(e.bytes) + 1), "reference_bytes_are_the_documented_encoding")
             /\ (Has(e, "offset") /\ r1.ok => Check(e.offset * 1000 = r1.v, "fixed_zone_offset_read_back_equal"))
             /\ (Has(e, "name") /\ named /\ r2.ok =>
                    Check(e.index_at[r1.p] = r2.v /\ e.name = e.pool_at[r1.p], "fixed_zone_name_is_the_pool_entry_the_bytes_index"))
             /\ (Has(e, "name") /\ r1.ok /\ ~named => Check(e.name = e.cps_id, "fixed_zone_without_name_is_named_after_its_id"))
             /\ (Has(e, "consumed") => Check(e.consumed = Len(e.bytes), "fixed_zone_reader_consumes_exactly_the_bytes_written"))
    [] e.op = "reencode" ->
         \* a zone decoded from a reference-compiled database re-encodes to the bytes it came from
         /\ Check(~Has(e, "exc"), "reencode_raised")
         /\ Check(e.equal, "reencoding_reproduces_reference_bytes")
         /\ (Has(e, "bytes") =>
               LET d == DecZone(e.bytes, 2, e.pool) IN
               Check(e.bytes[1] = 2 => (d.ok /\ d.p = Len(e.bytes) + 1 /\ <<2>> \o EncZone(d.v) = e.bytes),
                     "reference_bytes_are_the_documented_encoding"))

Init == l = 1
Next == l <= Len(Events) /\ l' = l + 1 /\ Step(Events[l])
Spec == Init /\ [][Next]_l
=============================================================================
