----------------------------- MODULE Trace_Caches -----------------------------
(* C13: every query answers the pure function of its arguments, whatever was asked   *)
(* before and whatever other threads do.  Events are completed queries against shared  *)
(* objects (sequential adversarial histories and thread histories); `pure` is the        *)
(* answer of a fresh, cache-free evaluation logged next to the shared object's answer.   *)
EXTENDS Integers, Sequences, TLC, Json, IOUtils, Calendars
VARIABLES l
Events == JsonDeserialize(IOEnv.TRACE_FILE)
Has(e, f) == f \in DOMAIN e
Rej(clause) == PrintT(<<"REJECT", clause, l>>)
Check(cond, clause) == IF cond THEN TRUE ELSE Rej(clause)
Step(e) ==
  CASE e.op = "ys" ->      \* start of year through the shared calculator (after an adversarial history)
         /\ Check(e.res = e.pure, "calendar_answer_independent_of_history")
         /\ IF ~(Has(e, "self_only") /\ e.self_only) /\ e.cal \in ArithmeticIds /\ ~(e.cal = "Persian Arithmetic" /\ e.y < 476) /\ e.y >= MinYear(e.cal) /\ e.y <= MaxYear(e.cal)
            THEN Check(e.res = (IF Has(e, "year_start") /\ e.year_start THEN YearStart(e.cal, e.y) ELSE DayOf(e.cal, e.y, e.m, e.d)),
                       "calendar_answer_is_the_pure_function")
            ELSE TRUE
    [] e.op = "zc" -> Check(e.cached = e.direct, "caching_zone_returns_what_the_underlying_zone_returns")
    [] e.op = "ident" -> Check(e.same, "repeated_lookups_return_the_same_object")
    [] e.op = "fmt" -> Check(~Has(e, "exc") /\ e.text = e.pure, "pattern_and_format_info_lookup_independent_of_history")
    [] e.op = "fz" ->      \* DateTimeZone.for_offset after somebody else filled the fixed-zone cache (FixedZoneCache.tla)
         /\ Check(~Has(e, "exc"), "fixed_zone_lookup_completes")
         /\ Check(e.id = e.pure, "fixed_zone_id_independent_of_who_asked_first")
         \* (reference only: C13 promises purity, not the form of the id)
         /\ (IF e.resolves THEN TRUE ELSE PrintT(<<"DIVERGE", "fixed_zone_id_resolves_back_to_an_equal_zone", l>>))
    [] e.op = "thr" ->     \* a thread history: all answers equal the pure function, identity stable
         /\ Check(e.all_pure, "answers_independent_of_concurrent_use")
         /\ Check(e.identity_stable, "concurrent_lookups_return_the_same_object")
         /\ Check(~e.hung, "concurrent_lookups_complete")
Init == l = 1
Next == l <= Len(Events) /\ l' = l + 1 /\ Step(Events[l])
Spec == Init /\ [][Next]_l
=============================================================================
