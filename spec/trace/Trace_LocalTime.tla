--------------------------- MODULE Trace_LocalTime ---------------------------
(* C10: LocalTime / LocalDateTime arithmetic against the nanosecond time line.      *)
(* A time of day is <<second of day, nanosecond of second>>; a local date-time is    *)
(* the T3 numeral <<day, second, nanosecond>> on the local time line of its calendar. *)
(* An amount k of a unit arrives as digits: q (BigInt, whole days), then r, f as in    *)
(* T3!AmountToT3, so that k units = q days + (r, f).                                    *)
EXTENDS Integers, Sequences, TLC, Json, IOUtils, T3, BigInt, DateArith

VARIABLES l
Events == JsonDeserialize(IOEnv.TRACE_FILE)
Has(e, f) == f \in DOMAIN e
Rej(clause) == PrintT(<<"REJECT", clause, l>>)
Check(cond, clause) == IF cond THEN TRUE ELSE Rej(clause)
Big(x) == [s |-> x.s, d |-> x.d]

\* the sub-day part of the amount as a T3 with day 0
SubDay(e) == AmountToT3(e.unit, <<0>> \o Tail(e.amt))
DaysFit(e) == Fits31(Big(e.q)) /\ Abs(ToInt(Big(e.q))) < 1000000000

StepTime(e) ==
  CASE e.op = "lt_parts" ->
         LET s == e.t[1] n == e.t[2] IN
         /\ Check(s \in 0..(SPD - 1) /\ n \in 0..(NPS - 1), "time_of_day_within_24h")
         /\ Check(e.hour = s \div 3600 /\ e.minute = (s % 3600) \div 60 /\ e.second = s % 60, "hour_minute_second_decompose")
         /\ Check(e.millisecond = n \div 1000000 /\ e.tick_of_second = n \div 100 /\ e.nanosecond_of_second = n, "subsecond_accessors_decompose")
         /\ Check(e.clock_hour_of_half_day = (IF (s \div 3600) % 12 = 0 THEN 12 ELSE (s \div 3600) % 12), "clock_hour_of_half_day")
         /\ Check(Big(e.tick_of_day) = Add(MulSmall(MulSmall(FromInt(s), 10000), 1000), FromInt(n \div 100)), "tick_of_day")
         /\ Check(Big(e.nanosecond_of_day) = Add(MulSmall(MulSmall(FromInt(s), 100000), 10000), FromInt(n)), "nanosecond_of_day")
         /\ (Has(e, "microsecond") => Check(e.microsecond = n \div 1000, "subsecond_accessors_decompose"))
    [] e.op = "lt_from" ->
         \* a time built from fields: every field inside its range gives exactly that time of day, anything else raises
         LET valid == e.h \in 0..23 /\ e.mi \in 0..59 /\ e.s \in 0..59 /\ e.ok IN
         IF valid THEN /\ Check(~Has(e, "exc"), "time_from_valid_fields_must_not_raise")
                       /\ (Has(e, "res") => Check(e.res = <<e.h * 3600 + e.mi * 60 + e.s, e.sub>>, "time_from_fields_exact"))
         ELSE Check(Has(e, "exc"), "time_from_fields_out_of_range_must_raise")
    [] e.op = "lt_since" ->
         IF e.inside THEN /\ Check(~Has(e, "exc"), "time_since_midnight_in_range_must_not_raise")
                          /\ LET r == SubDay(e) IN (Has(e, "res") => Check(e.res = <<r[2], r[3]>>, "time_since_midnight_exact"))
         ELSE Check(Has(e, "exc"), "time_since_midnight_out_of_range_must_raise")
    [] e.op = "lt_plus" ->
         \* wraps modulo 24 hours: only the sub-day part of the amount matters
         LET r == Add3(<<0, e.t[1], e.t[2]>>, SubDay(e)) IN
         /\ Check(~Has(e, "exc"), "time_plus_never_raises")
         /\ (Has(e, "res") => Check(e.res = <<r[2], r[3]>>, "time_plus_wraps_modulo_24h"))
    [] e.op = "ldt_plus" ->
         LET sub == Add3(<<0, e.t[1], e.t[2]>>, SubDay(e))        \* carry into day digit is sub[1] in {0, 1}
         IN  IF ~DaysFit(e) THEN Check(Has(e, "exc"), "date_time_plus_out_of_range_must_raise")
             ELSE LET day == e.day + ToInt(Big(e.q)) + sub[1] IN
                  IF day < e.min_day \/ day > e.max_day
                  THEN Check(Has(e, "exc"), "date_time_plus_out_of_range_must_raise")
                  ELSE /\ Check(~Has(e, "exc"), "date_time_plus_in_range_must_not_raise")
                       /\ (Has(e, "res") => Check(e.res = <<day, sub[2], sub[3]>>, "date_time_plus_adds_on_local_time_line"))
                       /\ (Has(e, "res") => Check(e.res_cal = e.cal, "date_time_plus_keeps_calendar"))
    [] e.op = "ldt_period" ->
         \* a period is applied date units first (years, months, weeks, days - in that order), then the time units with carry
         LET afterYears == IF e.arith /\ e.years # 0 THEN PlusYears(e.cal, e.ymd[1], e.ymd[2], e.ymd[3], e.years) ELSE e.ymd
             afterMonths == IF e.arith /\ e.months # 0 THEN PlusMonths(e.cal, afterYears[1], afterYears[2], afterYears[3], e.months) ELSE afterYears
             day0 == IF e.arith /\ (e.years # 0 \/ e.months # 0) THEN DayOf(e.cal, afterMonths[1], afterMonths[2], afterMonths[3]) ELSE e.day
             dsum == e.weeks * 7 + e.days
             t0 == <<day0 + dsum, e.t[1], e.t[2]>>
             tot == Add3(Add3(Add3(Add3(Add3(t0, AmountToT3("hours", e.h)), AmountToT3("minutes", e.mi)), AmountToT3("seconds", e.s)),
                       AmountToT3("milliseconds", e.ms)), Add3(AmountToT3("ticks", e.tk), AmountToT3("nanoseconds", e.ns)))
             yrOk == ~e.arith \/ (YearInRange(e.cal, afterYears[1]) /\ YearInRange(e.cal, afterMonths[1]))
         IN  IF ~yrOk \/ tot[1] < e.min_day \/ tot[1] > e.max_day \/ day0 + dsum < e.min_day \/ day0 + dsum > e.max_day
             THEN TRUE
             ELSE /\ Check(~Has(e, "exc"), "date_time_plus_period_in_range_must_not_raise")
                  /\ (Has(e, "res") => Check(e.res = tot, "date_time_plus_period_date_units_then_time_units"))
    [] e.op = "adjust" ->
         LET s == e.t[1] IN
         Check(e.res = (CASE e.kind = "second" -> <<s, 0>> [] e.kind = "minute" -> <<s - (s % 60), 0>> [] e.kind = "hour" -> <<s - (s % 3600), 0>>),
               "time_adjuster_truncates")

Init == l = 1
Next == l <= Len(Events) /\ l' = l + 1 /\ StepTime(Events[l])
Spec == Init /\ [][Next]_l
=============================================================================
