--------------------------- MODULE Trace_ValueLaws ---------------------------
EXTENDS Integers, Sequences, TLC, Json, IOUtils, ValueLaws
VARIABLES l
Events == JsonDeserialize(IOEnv.TRACE_FILE)
Has(e, f) == f \in DOMAIN e
Rej(clause) == PrintT(<<"REJECT", clause, l>>)
Check(cond, clause) == IF cond THEN TRUE ELSE Rej(clause)
I == 1..3

StepTriple(e) ==
  /\ Check(\A i \in I : e.eq[i][i] /\ ~e.ne[i][i], "equality_reflexive")
  /\ Check(\A i, j \in I : e.eq[i][j] = e.eq[j][i], "equality_symmetric")
  /\ Check(\A i, j, k \in I : e.eq[i][j] /\ e.eq[j][k] => e.eq[i][k], "equality_transitive")
  /\ Check(\A i, j \in I : e.eq[i][j] = (e.keys[i] = e.keys[j]), "equal_exactly_when_documented_components_equal")
  /\ Check(\A i, j \in I : e.ne[i][j] = ~e.eq[i][j], "not_equal_is_negation_of_equal")
  /\ (e.hashable => Check(\A i, j \in I : e.eq[i][j] => e.hash[i] = e.hash[j], "equal_values_hash_equally"))
  /\ (e.hashable => Check(e.set_size = e.distinct_keys, "set_membership_follows_equality"))
  /\ IF e.ordered
     THEN \A i, j \in I :
            IF e.grp[i] # e.grp[j]
            THEN Check(e.cmp[i][j] = 9, "ordering_values_of_different_calendars_raises")
            ELSE LET c == LexCmp(e.ord[i], e.ord[j]) IN
                 /\ Check(e.cmp[i][j] # 9, "ordering_same_calendar_must_not_raise")
                 /\ Check(e.lt[i][j] = (c < 0) /\ e.le[i][j] = (c <= 0) /\ e.gt[i][j] = (c > 0) /\ e.ge[i][j] = (c >= 0),
                          "ordering_operators_agree_with_one_total_order")
                 /\ Check(e.cmp[i][j] = c, "compare_to_agrees_with_the_order")
                 /\ (e.has_minmax => Check(e.maxi[i][j] = (IF c >= 0 THEN i ELSE j) \/ (c = 0), "max_agrees_with_the_order"))
                 /\ (e.has_minmax => Check(e.mini[i][j] = (IF c <= 0 THEN i ELSE j) \/ (c = 0), "min_agrees_with_the_order"))
     ELSE TRUE
  /\ Check(e.unrelated_eq_false /\ e.unrelated_order_refused, "comparison_with_unrelated_types_refused")

StepImmut(e) ==
  /\ Check(e.unchanged, "operations_leave_operands_observably_unchanged")
  /\ Check(e.setattr_rejected, "attributes_cannot_be_assigned")

Init == l = 1
Next == /\ l <= Len(Events) /\ l' = l + 1
        /\ LET e == Events[l] IN IF e.op = "triple" THEN StepTriple(e) ELSE StepImmut(e)
Spec == Init /\ [][Next]_l
=============================================================================
