---------------------------- MODULE Trace_PyBridge ----------------------------
EXTENDS Integers, Sequences, TLC, Json, IOUtils, PyBridge
VARIABLES l
Events == JsonDeserialize(IOEnv.TRACE_FILE)
Has(e, f) == f \in DOMAIN e
Rej(clause) == PrintT(<<"REJECT", clause, l>>)
Check(cond, clause) == IF cond THEN TRUE ELSE Rej(clause)

Step(e) ==
  CASE e.op = "date_rt" ->       \* stdlib date -> LocalDate -> stdlib date
         /\ Check(~Has(e, "exc"), "stdlib_date_converts")
         /\ (Has(e, "day") => Check(e.day = DayOfDate(e.d) /\ e.cal = "ISO", "from_date_is_the_same_gregorian_day"))
         /\ (Has(e, "back") => Check(e.back = e.d, "date_round_trip"))
    [] e.op = "to_date" ->        \* LocalDate of any calendar -> stdlib date
         IF e.day >= StdMinDay /\ e.day <= StdMaxDay
         THEN Check(~Has(e, "exc") /\ Has(e, "res") /\ IsDateOf(e.res, e.day), "to_date_is_the_same_physical_day")
         ELSE Check(Has(e, "exc"), "to_date_outside_stdlib_range_must_raise")
    [] e.op = "fields_to_date" ->   \* a date given by its fields in its own calendar -> stdlib date / naive / aware datetime: the physical day is the
                                     \* one the calendar's arithmetic (Calendars.tla) gives for those fields
         IF e.cal \in ArithmeticIds /\ ~(e.cal = "Persian Arithmetic" /\ e.y < 476) /\ e.y >= MinYear(e.cal) /\ e.y <= MaxYear(e.cal)
         THEN \E n \in {DayOf(e.cal, e.y, e.m, e.d)} :
              IF n >= StdMinDay /\ n <= StdMaxDay
              THEN /\ Check(~Has(e, "exc") /\ Has(e, "res") /\ IsDateOf(e.res, n), "to_date_is_the_same_physical_day")
                   /\ (Has(e, "naive") => Check(IsDateTimeOf(e.naive, <<n, e.t3[1], e.t3[2]>>), "to_naive_datetime_same_day_time_truncated"))
                   /\ (Has(e, "aware") => Check(IsDateTimeOf(e.aware, <<n, e.t3[1], e.t3[2]>>) /\ e.aware_off = e.off, "to_aware_datetime_same_local_time_and_offset"))
              ELSE Check(Has(e, "exc"), "to_date_outside_stdlib_range_must_raise")
         ELSE TRUE
    [] e.op = "time_rt" ->
         /\ Check(~Has(e, "exc") /\ Has(e, "t3") /\ e.t3 = <<SecOfTime(e.t), e.t[4] * 1000>>, "from_time_exact")
         /\ Check(Has(e, "back") /\ e.back = e.t, "time_round_trip")
    [] e.op = "to_time" -> Check(e.res = TimeOf(e.t3[1], e.t3[2]), "to_time_truncates_to_microsecond")
    [] e.op = "dt_rt" ->
         /\ Check(~Has(e, "exc") /\ Has(e, "p") /\ e.p = T3OfDateTime(e.x), "from_naive_datetime_exact")
         /\ Check(Has(e, "back") /\ e.back = e.x, "naive_datetime_round_trip")
    [] e.op = "to_naive" ->
         IF e.p[1] >= StdMinDay /\ e.p[1] <= StdMaxDay
         THEN Check(~Has(e, "exc") /\ Has(e, "res") /\ IsDateTimeOf(e.res, e.p), "to_naive_datetime_same_day_time_truncated")
         ELSE Check(Has(e, "exc"), "to_naive_datetime_outside_stdlib_range_must_raise")
    [] e.op = "aware_rt" ->      \* aware datetime (local fields x, utc offset seconds) -> Instant / OffsetDateTime -> back
         LET inst == Sub3(T3OfDateTime(e.x), OfSeconds(e.off)) IN
         \* (an aware datetime within 18 h of datetime.max/min can denote an instant outside the Instant range:
         \*  such a conversion cannot succeed and is not claimed)
         /\ Check(InstantInRange(inst) => ~Has(e, "exc"), "aware_datetime_converts")
         /\ (Has(e, "inst") => Check(e.inst = inst, "instant_from_aware_datetime_exact"))
         /\ (Has(e, "odt_inst") => Check(e.odt_inst = inst /\ e.odt_off = e.off, "offset_date_time_from_aware_datetime_exact"))
         /\ (Has(e, "back_x") => Check(e.back_x = e.x /\ e.back_off = e.off, "aware_datetime_round_trip"))
         /\ (Has(e, "back_utc") => Check(IsDateTimeOf(e.back_utc, inst), "to_datetime_utc_round_trip"))
    [] e.op = "aware_odt" ->     \* aware datetime -> OffsetDateTime -> back, for every aware datetime (local fields and offset are kept as they are)
         /\ Check(~Has(e, "exc"), "aware_datetime_converts_to_offset_date_time")
         /\ (Has(e, "loc") => Check(e.loc = T3OfDateTime(e.x) /\ e.odt_off = e.off /\ e.cal = "ISO", "offset_date_time_from_aware_datetime_exact"))
         /\ (Has(e, "back_x") => Check(e.back_x = e.x /\ e.back_off = e.off, "aware_datetime_round_trip"))
    [] e.op = "to_aware" ->       \* OffsetDateTime (instant, offset, any calendar) -> aware datetime
         LET loc == Add3(e.inst, OfSeconds(e.off)) IN
         IF loc[1] >= StdMinDay /\ loc[1] <= StdMaxDay
         THEN Check(~Has(e, "exc") /\ Has(e, "res") /\ IsDateTimeOf(e.res, loc) /\ e.res_off = e.off, "to_aware_datetime_same_local_time_and_offset")
         ELSE Check(Has(e, "exc"), "to_aware_datetime_outside_stdlib_range_must_raise")
    [] e.op = "to_utc" ->          \* Instant -> aware UTC datetime
         IF e.inst[1] >= StdMinDay /\ e.inst[1] <= StdMaxDay
         THEN Check(~Has(e, "exc") /\ Has(e, "res") /\ IsDateTimeOf(e.res, e.inst), "to_datetime_utc_same_instant_truncated")
         ELSE Check(Has(e, "exc"), "to_datetime_utc_outside_stdlib_range_must_raise")
    [] e.op = "td_rt" ->
         /\ Check(~Has(e, "exc") /\ Has(e, "d") /\ e.d = DurationOfTd(e.td), "from_timedelta_exact")
         /\ Check(Has(e, "back") /\ e.back = e.td, "timedelta_round_trip")
    [] e.op = "to_td" -> Check(~Has(e, "exc") /\ Has(e, "res") /\ e.res = TdOfDuration(e.d), "to_timedelta_truncates_toward_zero")
    [] e.op = "td_off" ->     \* timedelta <<days, seconds, microseconds>> (normalised as the stdlib does) -> Offset
         LET secs == e.td[1] * 86400 + e.td[2]          \* floor seconds; the value is secs + micro / 10^6
             micro == e.td[3]
             inRange == secs >= -64800 /\ (secs < 64800 \/ (secs = 64800 /\ micro = 0))
             trunc == IF secs >= 0 \/ micro = 0 THEN secs ELSE secs + 1
         IN  IF inRange THEN Check(~Has(e, "exc") /\ Has(e, "res") /\ e.res = trunc, "offset_from_timedelta_truncates_toward_zero")
             ELSE Check(Has(e, "exc"), "offset_from_timedelta_outside_18h_must_raise")
    [] e.op = "off_td" -> Check(~Has(e, "exc") /\ Has(e, "back") /\ e.td = <<e.s \div 86400, e.s % 86400, 0>> /\ e.back = e.s, "offset_timedelta_round_trip")

Init == l = 1
Next == l <= Len(Events) /\ l' = l + 1 /\ Step(Events[l])
Spec == Init /\ [][Next]_l
=============================================================================
