------------------------------- MODULE Trace_Iso -------------------------------
EXTENDS Integers, Sequences, TLC, Json, IOUtils, Iso8601
VARIABLES l
Events == JsonDeserialize(IOEnv.TRACE_FILE)
Has(e, f) == f \in DOMAIN e
Rej(clause) == PrintT(<<"REJECT", clause, l>>)
Check(cond, clause) == IF cond THEN TRUE ELSE Rej(clause)
Common(e, expected) ==
  /\ Check(~Has(e, "exc"), "iso_pattern_formats_and_parses_without_error")
  /\ (Has(e, "text") => Check(e.text = expected, "text_is_iso_8601_extended_format_with_fixed_widths"))
  /\ (Has(e, "std_read") => Check(e.std_read = e.std_expect, "independent_iso_reader_reads_back_the_same_value"))
  /\ (Has(e, "pyoda_read_std") => Check(e.pyoda_read_std = e.value, "iso_text_written_by_the_standard_library_parses_to_the_value"))
  /\ (Has(e, "pyoda_read_own") => Check(e.pyoda_read_own = e.value, "own_iso_text_parses_back"))
Step(e) ==
  CASE e.op = "date" -> Common(e, IsoDate(e.value[1], e.value[2], e.value[3]))
    [] e.op = "time" -> Common(e, IsoTime(e.value[1], e.value[2]))
    [] e.op = "time_long" -> Common(e, IsoTimeLong(e.value[1], e.value[2]))
    [] e.op = "datetime" -> Common(e, IsoDateTime(e.value[1], e.value[2], e.value[3], e.value[4], e.value[5]))
    [] e.op = "instant" -> Common(e, IsoInstant(e.value[1], e.value[2], e.value[3], e.value[4], e.value[5]))
    \* the reduced-precision / variable-precision built-ins (value = <<second of day, nanosecond>> or <<y, m, d, second, nanosecond>>)
    [] e.op = "time_form" -> Common(e, IsoTimeForm(e.form, e.value[1], e.value[2]))
    [] e.op = "datetime_form" -> Common(e, IsoDate(e.value[1], e.value[2], e.value[3]) \o <<LetterT>> \o IsoTimeForm(e.form, e.value[4], e.value[5]))
    [] e.op = "instant_form" -> Common(e, IsoDate(e.value[1], e.value[2], e.value[3]) \o <<LetterT>> \o IsoTimeForm(e.form, e.value[4], e.value[5]) \o <<LetterZ>>)
    [] e.op = "offset" -> Common(e, IsoOffset(e.value[1], e.z))
Init == l = 1
Next == l <= Len(Events) /\ l' = l + 1 /\ Step(Events[l])
Spec == Init /\ [][Next]_l
=============================================================================
