-------------------------- MODULE Trace_TzdbLoader --------------------------
(* One event per faulted stream: the outcomes of load, id listing and zone fetches. *)
(* Each is replayed through the TzdbLoader automaton.                               *)
EXTENDS Integers, Sequences, TLC, Json, IOUtils
VARIABLES l
Events == JsonDeserialize(IOEnv.TRACE_FILE)
Rej(clause, k) == PrintT(<<"REJECT", clause, l, k>>)
Outcomes == {"ok", "InvalidPyodaDataError"}
Step(e) ==
  /\ IF e.load \in Outcomes THEN TRUE
     ELSE IF e.load = "HANG" THEN Rej("load_never_hangs", 0)
     ELSE IF e.load = "MemoryError" THEN Rej("load_never_exhausts_memory", 0)
     ELSE Rej("load_works_or_raises_the_documented_error", 0)
  /\ IF e.load = "ok"
     THEN /\ (IF e.ids = "ok" THEN TRUE ELSE Rej("listing_ids_after_a_successful_load_works", 0))
          /\ \A k \in 1..Len(e.zones) :
               IF e.zones[k] \in Outcomes THEN TRUE
               ELSE IF e.zones[k] = "HANG" THEN Rej("fetching_a_zone_never_hangs", k)
               ELSE IF e.zones[k] = "MemoryError" THEN Rej("fetching_a_zone_never_exhausts_memory", k)
               ELSE Rej("fetching_a_zone_works_or_raises_the_documented_error", k)
     ELSE IF Len(e.zones) = 0 THEN TRUE ELSE Rej("machinery_zones_fetched_after_failed_load", 0)
Init == l = 1
Next == l <= Len(Events) /\ l' = l + 1 /\ Step(Events[l])
Spec == Init /\ [][Next]_l
=============================================================================
