-------------------------- MODULE Trace_TextProtocol --------------------------
(* One event per created-or-rejected pattern, carrying the outcomes of its parses.   *)
EXTENDS Integers, Sequences, TLC, Json, IOUtils, PatternScanFn, PatternGrammar
VARIABLES l
Events == JsonDeserialize(IOEnv.TRACE_FILE)
Rej(clause, k) == PrintT(<<"REJECT", clause, l, k>>)
Step(e) ==
  /\ IF e.created \in {"ok", "InvalidPatternError"} THEN TRUE
     ELSE IF e.created = "HANG" THEN Rej("pattern_creation_completes", 0)
     ELSE Rej("pattern_creation_succeeds_or_raises_invalid_pattern_error", 0)
  \* reference clause: the quoting layer of the grammar predicts rejection
  /\ IF e.created = "ok" /\ Scan(e.pattern) # "Ok" THEN PrintT(<<"DIVERGE", "quoting_error_predicted_by_scanner_but_pattern_accepted", l>>) ELSE TRUE
  \* reference clauses: the field-level grammar (PatternGrammar.tla) predicts acceptance and rejection for the types it covers
  \* (single letters that stand for the culture's own pattern texts are as good as those texts: not predicted)
  /\ IF Covered(e.type, e.pattern) /\ Len(e.pattern) # 1 /\ e.created \in {"ok", "InvalidPatternError"}
     THEN \E g \in {Grammar(e.type, e.pattern)} :
          /\ (IF e.created = "ok" /\ g # "Ok" THEN PrintT(<<"DIVERGE", "grammar_rejects_but_pattern_accepted", l, g>>) ELSE TRUE)
          /\ (IF e.created # "ok" /\ g = "Ok" THEN PrintT(<<"DIVERGE", "grammar_accepts_but_pattern_rejected", l>>) ELSE TRUE)
     ELSE TRUE
  /\ \A k \in 1..Len(e.parses) :
       LET p == e.parses[k] IN
       IF p.out = "success" THEN (IF p.valid THEN TRUE ELSE Rej("parse_success_carries_a_valid_value", k))
       ELSE IF p.out = "failure" THEN (IF p.error_available THEN TRUE ELSE Rej("parse_failure_makes_its_error_available", k))
       ELSE IF p.out = "HANG" THEN Rej("parse_completes", k)
       ELSE Rej("no_exception_escapes_parse", k)
Init == l = 1
Next == l <= Len(Events) /\ l' = l + 1 /\ Step(Events[l])
Spec == Init /\ [][Next]_l
=============================================================================
