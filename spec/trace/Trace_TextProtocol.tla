-------------------------- MODULE Trace_TextProtocol --------------------------
(* One event per created-or-rejected pattern, carrying the outcomes of its parses.   *)
EXTENDS Integers, Sequences, TLC, Json, IOUtils, PatternScanFn, PatternParse
VARIABLES l
Events == JsonDeserialize(IOEnv.TRACE_FILE)
Rej(clause, k) == PrintT(<<"REJECT", clause, l, k>>)
Step(e) ==
  /\ IF e.created \in {"ok", "InvalidPatternError"} THEN TRUE
     ELSE IF e.created = "HANG" THEN Rej("pattern_creation_completes", 0)
     ELSE Rej("pattern_creation_succeeds_or_raises_invalid_pattern_error", 0)
  \* reference clause: the quoting layer of the grammar predicts rejection
  /\ IF e.created = "ok" /\ Scan(e.pattern) # "Ok" THEN PrintT(<<"DIVERGE", "quoting_error_predicted_by_scanner_but_pattern_accepted", l>>) ELSE TRUE
  \* reference clauses: the field-level grammar (PatternGrammar.tla) predicts acceptance and rejection for the types it covers
  \* (single letters that stand for the culture's own pattern texts are as good as those texts: not predicted)
  /\ IF Covered(e.type, e.pattern) /\ Len(e.pattern) # 1 /\ e.created \in {"ok", "InvalidPatternError"}
     THEN \E g \in {Grammar(e.type, e.pattern)} :
          /\ (IF e.created = "ok" /\ g # "Ok" THEN PrintT(<<"DIVERGE", "grammar_rejects_but_pattern_accepted", l, g>>) ELSE TRUE)
          /\ (IF e.created # "ok" /\ g = "Ok" THEN PrintT(<<"DIVERGE", "grammar_accepts_but_pattern_rejected", l>>) ELSE TRUE)
     ELSE TRUE
  \* reference clause: what each text parses to under a local-time pattern without designator fields (PatternParse.tla)
  /\ IF e.created = "ok" /\ "tsep" \in DOMAIN e /\ ((e.type = "LocalTime" /\ Parsable(e.pattern)) \/ (e.type = "Offset" /\ OffsetParsable(e.pattern)))
     THEN \A k \in 1..Len(e.parses) :
            LET p == e.parses[k] IN
            IF p.whole /\ p.out \in {"success", "failure"}
            THEN \E r \in {IF e.type = "Offset" THEN ParseOffset(e.pattern, p.text, e.tsep) ELSE Parse(e.pattern, p.text, e.tsep)} :
                 \* (the implementation takes a NUL character for the end of the text and ignores what follows it: "17:24" + NUL + anything
                 \*  parses like "17:24"; the reference parser reads the whole text - those disagreements get their own name)
                 IF r.ok # (p.out = "success")
                 THEN PrintT(<<"DIVERGE", IF \E j \in 1..Len(p.text) : p.text[j] = 0 THEN "text_after_a_nul_character_is_ignored"
                                         ELSE "reference_parser_disagrees_on_success", l, k>>)
                 ELSE IF r.ok /\ "nod" \in DOMAIN p /\ r.nod # p.nod THEN PrintT(<<"DIVERGE", "reference_parser_disagrees_on_the_value", l, k>>)
                 ELSE TRUE
            ELSE TRUE
     ELSE TRUE
  /\ \A k \in 1..Len(e.parses) :
       LET p == e.parses[k] IN
       IF p.out = "success" THEN (IF p.valid THEN TRUE ELSE Rej("parse_success_carries_a_valid_value", k))
       ELSE IF p.out = "failure" THEN (IF p.error_available THEN TRUE ELSE Rej("parse_failure_makes_its_error_available", k))
       ELSE IF p.out = "HANG" THEN Rej("parse_completes", k)
       ELSE Rej("no_exception_escapes_parse", k)
Init == l = 1
Next == l <= Len(Events) /\ l' = l + 1 /\ Step(Events[l])
Spec == Init /\ [][Next]_l
=============================================================================
