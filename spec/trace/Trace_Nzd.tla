------------------------------ MODULE Trace_Nzd ------------------------------
(* C06: the behaviour of the zones served by the provider equals an independent   *)
(* interpretation of the database bytes.                                          *)
(* The database file itself is read by TLC (NZD_FILE: JSON array of bytes) and     *)
(* parsed field by field with NzdFile/NzdCodec; the trace (TRACE_FILE) lists, in    *)
(* file order, what the real package derived from each field and how the resulting   *)
(* zones behave through the public API.  One state per event; `pos` is the byte       *)
(* cursor of the independent parser.                                                  *)
EXTENDS Integers, Sequences, FiniteSets, TLC, Json, IOUtils, NzdFile, ZoneRules

VARIABLES l, pos, pool, canon, aliases
nvars == <<l, pos, pool, canon, aliases>>
Events == JsonDeserialize(IOEnv.TRACE_FILE)
B == JsonDeserialize(IOEnv.NZD_FILE)
Has(e, f) == f \in DOMAIN e
Rej(clause) == PrintT(<<"REJECT", clause, l>>)
Check(cond, clause) == IF cond THEN TRUE ELSE Rej(clause)
MCheck(cond, clause) == IF cond THEN TRUE ELSE PrintT(<<"REJECT", "machinery_" \o clause, l>>)

Init == l = 1 /\ pos = 5 /\ pool = <<>> /\ canon = {} /\ aliases = <<>>

PoolStr(i) == pool[i + 1]

\* API interval (logged) vs decoded period k of zone z (its end is the next period's start or the tail start)
PeriodMatches(iv, z, k) ==
  LET p == z.periods[k]
      endk == IF k < Len(z.periods) THEN z.periods[k + 1].start ELSE z.tailStart
  IN  /\ iv.start = p.start /\ iv.end = endk
      /\ iv.name = PoolStr(p.name)
      /\ iv.wall * 1000 = p.wall /\ iv.sav * 1000 = p.savings

\* API tail interval vs the stored yearly rules
TailMatches(iv, t) ==
  LET isDst == iv.sav # 0
      kind == IF isDst THEN "dst" ELSE "std"
      other == IF isDst THEN "std" ELSE "dst"
  IN  /\ iv.wall = StdSec(t) + (IF isDst THEN SavSec(t) ELSE 0)
      /\ iv.sav = (IF isDst THEN SavSec(t) ELSE 0)
      /\ iv.name = (IF isDst THEN PoolStr(t.dstName) ELSE PoolStr(t.stdName))
      /\ iv.end = NextStart(t, other, iv.start, iv.y)

StepField(e) ==
  LET f == FieldAt(B, pos) IN
  /\ MCheck(f.ok, "field_header_parses")
  /\ pos' = f.next
  /\ CASE e.op = "f_pool" ->
            LET d == DecPool(B, f.data) IN
            /\ Check(f.id = 0 /\ d.ok /\ d.p = f.next, "string_pool_field_parses_exactly")
            /\ Check(d.ok /\ e.strings = d.v, "string_pool_as_in_file")
            /\ pool' = (IF d.ok THEN d.v ELSE <<>>) /\ UNCHANGED <<canon, aliases>>
       [] e.op = "f_zone" ->
            LET idr == DecStringPooled(B, f.data, Len(pool))
                typ == B[idr.p]
            IN
            /\ Check(f.id = 1 /\ idr.ok, "zone_field_has_pooled_id")
            /\ Check(e.id = PoolStr(idr.v), "zone_id_as_in_file")
            /\ canon' = canon \cup {e.id} /\ UNCHANGED <<pool, aliases>>
            /\ IF typ = 1
               THEN \* fixed zone: offset, optional name
                    LET o == DecMillis(B, idr.p + 1) IN
                    /\ Check(e.kind = "fixed" /\ o.ok, "zone_kind_as_in_file")
                    /\ Check(Len(e.ivs) = 1 /\ e.ivs[1].wall * 1000 = o.v /\ e.ivs[1].sav = 0
                             /\ e.ivs[1].start = MinTag /\ e.ivs[1].end = MaxTag, "fixed_zone_offset_as_in_file")
                    \* the name is stored after the offset when present; otherwise the zone is named after its id
                    /\ LET nm == IF o.ok /\ o.p < f.next
                                 THEN LET r == DecStringPooled(B, o.p, Len(pool)) IN IF r.ok THEN PoolStr(r.v) ELSE <<>>
                                 ELSE e.id
                       IN  Check(Len(e.ivs) = 1 /\ e.ivs[1].name = nm, "fixed_zone_name_as_in_file")
               ELSE LET z == DecZone(B, idr.p + 1, Len(pool)) IN
                    /\ Check(typ = 2 /\ e.kind = "precalc" /\ z.ok /\ z.p = f.next, "zone_data_parses_exactly")
                    /\ IF z.ok
                       THEN /\ Check(Len(e.ivs) = Len(z.v.periods) + (IF z.v.hasTail THEN 0 ELSE 0), "number_of_precalculated_periods")
                            /\ Check(\A k \in 1..Len(e.ivs) : k <= Len(z.v.periods) => PeriodMatches(e.ivs[k], z.v, k),
                                     "precalculated_transitions_names_offsets_as_in_file")
                            /\ (Has(e, "inside_bad") => Check(e.inside_bad = 0, "instants_inside_a_stored_period_are_served_that_period"))
                            /\ Check(e.has_tail = z.v.hasTail, "tail_presence_as_in_file")
                            /\ IF z.v.hasTail
                               THEN /\ Check(Len(e.tail) >= 1 /\ e.tail[1].start = z.v.tailStart, "tail_starts_where_periods_end")
                                    /\ Check(\A k \in 1..Len(e.tail) : TailMatches(e.tail[k], z.v.tail),
                                             "tail_transitions_follow_the_stored_yearly_rules")
                               ELSE Check(z.v.tailStart = MaxTag, "no_tail_means_last_period_is_open_ended")
                       ELSE TRUE
       [] e.op = "f_version" ->
            LET d == DecStringRaw(B, f.data) IN
            /\ Check(f.id = 2 /\ d.ok /\ e.v = d.v, "version_as_in_file") /\ UNCHANGED <<pool, canon, aliases>>
       [] e.op = "f_idmap" ->
            LET d == DecDict(B, f.data, Len(pool)) IN
            /\ Check(f.id = 3 /\ d.ok /\ d.p = f.next, "alias_map_field_parses_exactly")
            /\ Check(d.ok /\ Len(e.keys) = Len(d.v)
                     /\ \A k \in 1..Len(d.v) : e.keys[k] = PoolStr(d.v[k][1]) /\ e.vals[k] = PoolStr(d.v[k][2]), "alias_map_as_in_file")
            /\ aliases' = [k \in 1..Len(e.keys) |-> <<e.keys[k], e.vals[k]>>] \o <<>> /\ UNCHANGED <<pool, canon>>
       [] e.op = "f_windows" ->
            \* the windows-zones mapping as stored, and the two id maps the source derives from it and the alias map
            \* (bound through a singleton set so that TLC decodes the field once, not once per reference)
            \E d \in {DecWindowsZones(B, f.data, Len(pool))} : \E zs \in {IF d.ok THEN d.v.zones ELSE <<>>} :
            LET Canon(x) == IF \E k \in 1..Len(aliases) : aliases[k][1] = x
                            THEN aliases[CHOOSE k \in 1..Len(aliases) : aliases[k][1] = x][2] ELSE x
                Primary == <<48, 48, 49>>            \* territory "001"
                w2t == {<<PoolStr(zs[k].w), Canon(PoolStr(zs[k].ids[1]))>> : k \in {j \in 1..Len(zs) : PoolStr(zs[j].t) = Primary /\ Len(zs[j].ids) > 0}}
            IN
            /\ Check(f.id = 4 /\ d.ok /\ d.p = f.next, "windows_zones_field_parses_exactly")
            /\ Check(d.ok /\ e.version = PoolStr(d.v.hdr[1]) /\ e.tzdb_version = PoolStr(d.v.hdr[2]) /\ e.windows_version = PoolStr(d.v.hdr[3]),
                     "windows_zones_versions_as_in_file")
            /\ Check(d.ok /\ Len(e.zones) = Len(zs)
                     /\ \A k \in 1..Len(zs) : /\ e.zones[k][1] = PoolStr(zs[k].w) /\ e.zones[k][2] = PoolStr(zs[k].t)
                                                /\ Len(e.zones[k][3]) = Len(zs[k].ids)
                                                /\ \A j \in 1..Len(zs[k].ids) : e.zones[k][3][j] = PoolStr(zs[k].ids[j]),
                     "windows_zones_as_in_file")
            /\ Check({<<e.w2t_keys[k], e.w2t_vals[k]>> : k \in 1..Len(e.w2t_keys)} = w2t /\ Len(e.w2t_keys) = Cardinality(w2t),
                     "windows_to_tzdb_ids_are_the_primary_mappings_made_canonical")
            /\ UNCHANGED <<pool, canon, aliases>>
       [] e.op = "f_locations" ->
            \E d \in {DecLocations(B, f.data, Len(pool), e.is1970)} :
            /\ Check(f.id = (IF e.is1970 THEN 7 ELSE 6) /\ d.ok /\ d.p = f.next, "zone_locations_field_parses_exactly")
            /\ Check(d.ok /\ Len(e.locs) = Len(d.v)
                     /\ \A k \in 1..Len(d.v) :
                           /\ e.locs[k].lat = d.v[k].lat /\ e.locs[k].lon = d.v[k].lon
                           /\ Len(e.locs[k].strs) = Len(d.v[k].strs) /\ \A j \in 1..Len(d.v[k].strs) : e.locs[k].strs[j] = PoolStr(d.v[k].strs[j])
                           /\ (e.is1970 => /\ Len(e.locs[k].countries) = Len(d.v[k].countries)
                                           /\ \A j \in 1..Len(d.v[k].countries) : e.locs[k].countries[j] = PoolStr(d.v[k].countries[j])),
                     "zone_locations_as_in_file")
            /\ Check(\A k \in 1..Len(e.locs) : e.locs[k].zone_known, "zone_locations_name_zones_of_the_file")
            /\ UNCHANGED <<pool, canon, aliases>>
       [] e.op = "f_other" -> Check(f.id = e.id, "field_id_as_in_file") /\ UNCHANGED <<pool, canon, aliases>>

StepProvider(e) ==
  LET aliasSet == {aliases[k][1] : k \in 1..Len(aliases)}
      idSet == {e.ids[k] : k \in 1..Len(e.ids)}
  IN
  /\ UNCHANGED <<pos, pool, canon, aliases>>
  /\ MCheck(pos = Len(B) + 1, "whole_file_consumed")
  /\ Check(VersionOf(B) = 0, "file_version_zero")
  /\ Check(idSet = canon \cup aliasSet /\ Len(e.ids) = Cardinality(idSet), "provider_ids_are_canonical_ids_plus_aliases")
  /\ Check(\A k \in 1..(Len(e.ids) - 1) : LexLt(e.ids[k], e.ids[k + 1]), "provider_ids_sorted")
  /\ (Has(e, "ids_unchanged") => Check(e.ids_unchanged, "provider_ids_are_the_same_after_lookups"))
  /\ Check(e.aliases_ok, "alias_yields_canonical_data_under_alias_id")
  /\ Check(e.validate_ok, "file_passes_its_own_validation")
  /\ Check(e.unknown_ok, "unknown_id_not_found")
  /\ Check(\A k \in 1..Len(e.fixed) :
              LET x == e.fixed[k]
                  expect == x.sign * (x.h * 3600 + x.m * 60 + x.s)
              IN  x.got = expect /\ x.id_ok, "fixed_offset_ids_resolve_to_matching_fixed_zone")

Next == /\ l <= Len(Events) /\ l' = l + 1
        /\ LET e == Events[l] IN IF e.op = "provider" THEN StepProvider(e) ELSE StepField(e)
Spec == Init /\ [][Next]_nvars
=============================================================================
