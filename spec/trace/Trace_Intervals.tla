--------------------------- MODULE Trace_Intervals ---------------------------
EXTENDS Integers, Sequences, TLC, Json, IOUtils, Intervals, Calendars
VARIABLES l
Events == JsonDeserialize(IOEnv.TRACE_FILE)
Has(e, f) == f \in DOMAIN e
Rej(clause) == PrintT(<<"REJECT", clause, l>>)
Check(cond, clause) == IF cond THEN TRUE ELSE Rej(clause)

\* an optional interval result is logged as <<present, s, e>>
Step(e) ==
  CASE e.op = "di_pair" ->
         LET s1 == e.a[1] e1 == e.a[2] s2 == e.b[1] e2 == e.b[2] IN
         /\ Check(e.len_a = DLen(s1, e1) /\ e.len_b = DLen(s2, e2), "length_is_number_of_days")
         /\ Check(e.a_contains_b = DContains(s1, e1, s2, e2) /\ e.b_contains_a = DContains(s2, e2, s1, e1), "containment_is_set_inclusion")
         /\ Check(e.inter = DInter(s1, e1, s2, e2) /\ e.inter_rev = DInter(s1, e1, s2, e2), "intersection_is_set_intersection")
         /\ Check(e.union = DUnion(s1, e1, s2, e2) /\ e.union_rev = DUnion(s1, e1, s2, e2), "union_defined_iff_overlapping_or_adjacent")
         /\ Check(\A k \in 1..Len(e.mem) : e.mem[k][2] = DHas(s1, e1, e.mem[k][1]), "membership_is_set_membership")
         /\ Check(e.iter = <<s1, e1, DLen(s1, e1), TRUE>>, "iteration_yields_every_day_once_in_order")
         /\ Check(e.eq = (s1 = s2 /\ e1 = e2) /\ (e.eq => e.hash_eq), "equality_iff_same_days")
    [] e.op = "di_ctor" ->
         Check((e.out = "ok") = (e.same_cal /\ DValid(e.s, e.e)), "construction_rejects_end_before_start_and_mixed_calendars")
    [] e.op = "di_mixed" -> Check(e.out # "ok", "operations_on_mixed_calendars_rejected")
    [] e.op = "iv" ->
         LET s == e.s en == e.e IN
         IF ~IValid(s, en) THEN Check(e.out # "ok", "construction_rejects_end_before_start")
         ELSE IF e.out # "ok" THEN Rej("valid_interval_accepted")
         ELSE /\ Check(e.has_start = (s # IMin) /\ e.has_end = (en # IMax), "has_start_has_end")
              /\ Check(e.start_raises = (s = IMin) /\ e.end_raises = (en = IMax), "unbounded_end_refuses_to_yield_a_bound")
              /\ Check(e.duration_raises = (s = IMin \/ en = IMax), "unbounded_interval_refuses_a_duration")
              /\ (~e.duration_raises => Check(e.duration = Sub3(en, s), "duration_is_end_minus_start"))
              /\ Check(\A k \in 1..Len(e.mem) : e.mem[k][2] = IHas(s, en, e.mem[k][1]), "instant_membership_half_open")
              /\ Check(e.iter_ok, "iteration_yields_start_and_end_or_none")
    [] e.op = "ym" ->
         \* the month's interval is [first day of the month, first day + days in month - 1] in the calendar's own terms
         /\ Check(e.s = e.first /\ e.e = e.first + e.dim - 1, "year_month_interval_is_the_whole_month")
         \* ... which is what the calendar's arithmetic (Calendars.tla) says the month is, where it is modelled
         /\ (e.cal \in ArithmeticIds /\ ~(e.cal = "Persian Arithmetic" /\ e.y < 476) /\ e.y >= MinYear(e.cal) /\ e.y <= MaxYear(e.cal) =>
               Check(e.s = DayOf(e.cal, e.y, e.m, 1) /\ e.e = DayOf(e.cal, e.y, e.m, 1) + DaysInMonth(e.cal, e.y, e.m) - 1,
                     "year_month_interval_is_the_whole_month"))
         \* consecutive months tile the days: the next month's interval starts the day after this one ends (their union is defined)
         /\ (Has(e, "next_s") => Check(e.next_s = e.e + 1 /\ e.union_defined, "consecutive_months_are_adjacent_sets"))

Init == l = 1
Next == l <= Len(Events) /\ l' = l + 1 /\ Step(Events[l])
Spec == Init /\ [][Next]_l
=============================================================================
