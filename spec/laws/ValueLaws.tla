------------------------------ MODULE ValueLaws ------------------------------
(* Equality / hashing / ordering laws of value types (property C12).             *)
(* Every value has an abstract key (a tuple of integers: the documented            *)
(* components), an ordering key (a tuple compared lexicographically) and a          *)
(* comparability group (values of different groups - e.g. calendars - must refuse    *)
(* to be ordered).                                                                   *)
EXTENDS Integers, Sequences

RECURSIVE LexCmp(_, _)
LexCmp(x, y) == IF Len(x) = 0 /\ Len(y) = 0 THEN 0
                ELSE IF Len(x) = 0 THEN -1 ELSE IF Len(y) = 0 THEN 1
                ELSE IF Head(x) < Head(y) THEN -1 ELSE IF Head(x) > Head(y) THEN 1
                ELSE LexCmp(Tail(x), Tail(y))
SignOf(v) == IF v < 0 THEN -1 ELSE IF v > 0 THEN 1 ELSE 0
=============================================================================
