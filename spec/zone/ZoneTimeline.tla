---------------------------- MODULE ZoneTimeline ----------------------------
(* A time zone as property C04 describes it: a finite sequence of intervals      *)
(* [start, end) that partitions the whole time line, each with a name, a wall     *)
(* offset = standard offset + savings.  Instants are T3 numerals; the open ends    *)
(* of time are the sentinels MinTag / MaxTag of NzdCodec (ordered below / above     *)
(* every real instant by T3's lexicographic order).                                *)
EXTENDS Integers, Sequences, T3

TMin == <<-2000000000, 0, 0>>
TMax == <<2000000000, 0, 0>>

\* iv = [start, end, name, wall, std, sav]  (offsets in seconds)
WellFormedInterval(iv) == /\ Lt3(iv.start, iv.end)
                          /\ iv.wall = iv.std + iv.sav
Contains(iv, t) == Le3(iv.start, t) /\ Lt3(t, iv.end)
SameRules(a, b) == a.name = b.name /\ a.wall = b.wall /\ a.std = b.std /\ a.sav = b.sav

\* the partition laws over a whole sequence of intervals
Partition(ivs) ==
  /\ Len(ivs) >= 1
  /\ ivs[1].start = TMin
  /\ ivs[Len(ivs)].end = TMax
  /\ \A k \in 1..Len(ivs) : WellFormedInterval(ivs[k])
  /\ \A k \in 1..(Len(ivs) - 1) : ivs[k].end = ivs[k + 1].start /\ ~SameRules(ivs[k], ivs[k + 1])
IndexAt(ivs, t) == CHOOSE k \in 1..Len(ivs) : Contains(ivs[k], t)

\* local time line: the local value of instant t in interval iv
LocalOf(iv, t) == Add3(t, OfSeconds(iv.wall))
\* the instant in interval iv (if any) whose local rendering is `loc`
PreImage(iv, loc) == Sub3(loc, OfSeconds(iv.wall))
MapsInto(iv, loc) == Contains(iv, PreImage(iv, loc))
=============================================================================
