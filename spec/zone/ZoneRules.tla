------------------------------ MODULE ZoneRules ------------------------------
(* Yearly tz rules ("zone year offsets") evaluated with plain calendar arithmetic, *)
(* and the standard/daylight alternation of a zone's recurring tail.               *)
(* A rule:  mode 0 = UTC, 1 = wall, 2 = standard; month; day of month (negative     *)
(* counts from the end of the month); day of week 0 = none, 1 = Monday .. 7 = Sunday *)
(* with advance (on-or-after) or retreat (on-or-before); a 24:00 "add a day" flag;    *)
(* time of day in milliseconds.                                                      *)
EXTENDS Integers, Sequences, T3, Calendars

TEnd == <<2000000000, 0, 0>>

RuleDayNumber(yo, y) ==
  LET leap == GregLeap(y)
      dim == GJMonthLen(leap, yo.month)
      d0 == IF yo.dom > 0 THEN yo.dom ELSE dim + yo.dom + 1
      d == IF yo.month = 2 /\ yo.dom = 29 /\ ~leap THEN 28 ELSE d0
      n == GregDay(y, yo.month, d)
      w == DayOfWeek(n)
      n2 == IF yo.dow = 0 \/ w = yo.dow THEN n
            ELSE IF yo.adv THEN n + ((yo.dow - w + 7) % 7)
            ELSE n - ((w - yo.dow + 7) % 7)
  IN  IF yo.addDay THEN n2 + 1 ELSE n2
\* local occurrence in year y
RuleLocal(yo, y) == <<RuleDayNumber(yo, y), yo.ms \div 1000, (yo.ms % 1000) * 1000000>>
\* the offset (seconds) a rule's local time is expressed in, given standard offset and the savings in force before it
RuleFrame(yo, std, prevSav) == CASE yo.mode = 1 -> std + prevSav [] yo.mode = 2 -> std [] OTHER -> 0
RuleInstant(yo, y, std, prevSav) == Sub3(RuleLocal(yo, y), OfSeconds(RuleFrame(yo, std, prevSav)))

\* alternating map t = [stdOffset, savings (ms), stdYo, dstYo]: daylight starts when the dst rule fires (while in
\* standard time), standard time starts when the std rule fires (while savings are in force)
StdSec(t) == t.stdOffset \div 1000
SavSec(t) == t.savings \div 1000
Start(t, kind, y) == IF kind = "dst" THEN RuleInstant(t.dstYo, y, StdSec(t), 0)
                     ELSE RuleInstant(t.stdYo, y, StdSec(t), SavSec(t))
\* the earliest start of `kind` strictly after instant a, looking at the years around year hint ya
NextStart(t, kind, a, ya) ==
  LET cands == {yy \in {ya - 1, ya, ya + 1, ya + 2} : yy >= 1 /\ yy <= 9999 /\ Lt3(a, Start(t, kind, yy))} IN
  IF cands = {} THEN TEnd
  ELSE LET best == CHOOSE yy \in cands : \A zz \in cands : yy <= zz IN Start(t, kind, best)
=============================================================================
