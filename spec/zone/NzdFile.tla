------------------------------- MODULE NzdFile -------------------------------
(* Framing of a tz database file: 4-byte little-endian version, then fields       *)
(*   [field id byte][length as count][length bytes of data]                        *)
(* field ids: 0 string pool, 1 time zone, 2 tzdb version, 3 alias map,             *)
(* 4 windows zones, 5 additional windows mapping, 6 zone locations, 7 zone1970.    *)
EXTENDS NzdCodec

FieldAt(b, p) ==          \* [ok, id, data (first data position), len, next]
  IF ~HasBytes(b, p, 1) THEN [ok |-> FALSE, id |-> 0, data |-> 0, len |-> 0, next |-> 0]
  ELSE LET r == DecCount(b, p + 1) IN
       IF ~r.ok \/ ~HasBytes(b, r.p, r.v) THEN [ok |-> FALSE, id |-> b[p], data |-> 0, len |-> 0, next |-> 0]
       ELSE [ok |-> TRUE, id |-> b[p], data |-> r.p, len |-> r.v, next |-> r.p + r.v]

VersionOf(b) == b[1] + 256 * b[2] + 65536 * b[3] + 16777216 * (b[4] % 128)

\* string pool field: count, then raw strings
RECURSIVE PoolFrom(_, _, _, _)
PoolFrom(b, p, n, acc) ==
  IF n = 0 THEN Ok(acc, p)
  ELSE LET r == DecStringRaw(b, p) IN IF ~r.ok THEN Fail ELSE PoolFrom(b, r.p, n - 1, Append(acc, r.v))
DecPool(b, p) == LET r == DecCount(b, p) IN IF ~r.ok THEN Fail ELSE PoolFrom(b, r.p, r.v, <<>>)

\* dictionary of pooled strings: count, then (key index, value index) pairs
RECURSIVE DictFrom(_, _, _, _, _)
DictFrom(b, p, n, poolSize, acc) ==
  IF n = 0 THEN Ok(acc, p)
  ELSE LET k == DecStringPooled(b, p, poolSize) IN IF ~k.ok THEN Fail ELSE
       LET v == DecStringPooled(b, k.p, poolSize) IN IF ~v.ok THEN Fail ELSE
       DictFrom(b, v.p, n - 1, poolSize, Append(acc, <<k.v, v.v>>))
DecDict(b, p, poolSize) == LET r == DecCount(b, p) IN IF ~r.ok THEN Fail ELSE DictFrom(b, r.p, r.v, poolSize, <<>>)

\* lexicographic order on byte sequences (= code point order of the UTF-8 strings)
RECURSIVE LexLt(_, _)
LexLt(x, y) == IF Len(y) = 0 THEN FALSE ELSE IF Len(x) = 0 THEN TRUE
               ELSE IF Head(x) # Head(y) THEN Head(x) < Head(y) ELSE LexLt(Tail(x), Tail(y))
=============================================================================
