------------------------------- MODULE NzdFile -------------------------------
(* Framing of a tz database file: 4-byte little-endian version, then fields       *)
(*   [field id byte][length as count][length bytes of data]                        *)
(* field ids: 0 string pool, 1 time zone, 2 tzdb version, 3 alias map,             *)
(* 4 windows zones, 5 additional windows mapping, 6 zone locations, 7 zone1970.    *)
EXTENDS NzdCodec

FieldAt(b, p) ==          \* [ok, id, data (first data position), len, next]
  IF ~HasBytes(b, p, 1) THEN [ok |-> FALSE, id |-> 0, data |-> 0, len |-> 0, next |-> 0]
  ELSE LET r == DecCount(b, p + 1) IN
       IF ~r.ok \/ ~HasBytes(b, r.p, r.v) THEN [ok |-> FALSE, id |-> b[p], data |-> 0, len |-> 0, next |-> 0]
       ELSE [ok |-> TRUE, id |-> b[p], data |-> r.p, len |-> r.v, next |-> r.p + r.v]

VersionOf(b) == b[1] + 256 * b[2] + 65536 * b[3] + 16777216 * (b[4] % 128)

\* string pool field: count, then raw strings
RECURSIVE PoolFrom(_, _, _, _)
PoolFrom(b, p, n, acc) ==
  IF n = 0 THEN Ok(acc, p)
  ELSE LET r == DecStringRaw(b, p) IN IF ~r.ok THEN Fail ELSE PoolFrom(b, r.p, n - 1, Append(acc, r.v))
DecPool(b, p) == LET r == DecCount(b, p) IN IF ~r.ok THEN Fail ELSE PoolFrom(b, r.p, r.v, <<>>)

\* dictionary of pooled strings: count, then (key index, value index) pairs
RECURSIVE DictFrom(_, _, _, _, _)
DictFrom(b, p, n, poolSize, acc) ==
  IF n = 0 THEN Ok(acc, p)
  ELSE LET k == DecStringPooled(b, p, poolSize) IN IF ~k.ok THEN Fail ELSE
       LET v == DecStringPooled(b, k.p, poolSize) IN IF ~v.ok THEN Fail ELSE
       DictFrom(b, v.p, n - 1, poolSize, Append(acc, <<k.v, v.v>>))
DecDict(b, p, poolSize) == LET r == DecCount(b, p) IN IF ~r.ok THEN Fail ELSE DictFrom(b, r.p, r.v, poolSize, <<>>)

\* ---- the remaining fields: windows-zones mapping (4), zone locations (6), "zone 1970" locations (7); all strings pooled ----
RECURSIVE IdxFrom(_, _, _, _, _)
IdxFrom(b, p, n, poolSize, acc) ==
  IF n = 0 THEN Ok(acc, p)
  ELSE LET r == DecStringPooled(b, p, poolSize) IN IF ~r.ok THEN Fail ELSE IdxFrom(b, r.p, n - 1, poolSize, Append(acc, r.v))
DecIdxList(b, p, poolSize) == LET r == DecCount(b, p) IN IF ~r.ok THEN Fail ELSE IdxFrom(b, r.p, r.v, poolSize, <<>>)
\* one windows mapping: windows id, territory, list of tz ids
DecMapZone(b, p, poolSize) ==
  LET w == DecStringPooled(b, p, poolSize) IN IF ~w.ok THEN Fail ELSE
  LET t == DecStringPooled(b, w.p, poolSize) IN IF ~t.ok THEN Fail ELSE
  LET ids == DecIdxList(b, t.p, poolSize) IN IF ~ids.ok THEN Fail ELSE Ok([w |-> w.v, t |-> t.v, ids |-> ids.v], ids.p)
RECURSIVE MapZonesFrom(_, _, _, _, _)
MapZonesFrom(b, p, n, poolSize, acc) ==
  IF n = 0 THEN Ok(acc, p)
  ELSE LET r == DecMapZone(b, p, poolSize) IN IF ~r.ok THEN Fail ELSE MapZonesFrom(b, r.p, n - 1, poolSize, Append(acc, r.v))
DecWindowsZones(b, p, poolSize) ==
  LET hdr == IdxFrom(b, p, 3, poolSize, <<>>) IN IF ~hdr.ok THEN Fail ELSE      \* version, tzdb version, windows version
  LET c == DecCount(b, hdr.p) IN IF ~c.ok THEN Fail ELSE
  LET zs == MapZonesFrom(b, c.p, c.v, poolSize, <<>>) IN IF ~zs.ok THEN Fail ELSE Ok([hdr |-> hdr.v, zones |-> zs.v], zs.p)
\* a location: latitude and longitude in seconds (signed), then country name, country code, zone id, comment
DecLocation(b, p, poolSize) ==
  LET la == DecSigned(b, p) IN IF ~la.ok THEN Fail ELSE
  LET lo == DecSigned(b, la.p) IN IF ~lo.ok THEN Fail ELSE
  LET s4 == IdxFrom(b, lo.p, 4, poolSize, <<>>) IN IF ~s4.ok THEN Fail ELSE Ok([lat |-> la.v, lon |-> lo.v, strs |-> s4.v], s4.p)
\* a "zone 1970" location: latitude, longitude, count of countries, (name, code) pairs, zone id, comment
DecLocation1970(b, p, poolSize) ==
  LET la == DecSigned(b, p) IN IF ~la.ok THEN Fail ELSE
  LET lo == DecSigned(b, la.p) IN IF ~lo.ok THEN Fail ELSE
  LET c == DecCount(b, lo.p) IN IF ~c.ok THEN Fail ELSE
  LET cs == IdxFrom(b, c.p, 2 * c.v, poolSize, <<>>) IN IF ~cs.ok THEN Fail ELSE
  LET s2 == IdxFrom(b, cs.p, 2, poolSize, <<>>) IN IF ~s2.ok THEN Fail ELSE
  Ok([lat |-> la.v, lon |-> lo.v, countries |-> cs.v, strs |-> s2.v], s2.p)
RECURSIVE LocsFrom(_, _, _, _, _, _)
LocsFrom(b, p, n, poolSize, acc, is1970) ==
  IF n = 0 THEN Ok(acc, p)
  ELSE LET r == IF is1970 THEN DecLocation1970(b, p, poolSize) ELSE DecLocation(b, p, poolSize) IN
       IF ~r.ok THEN Fail ELSE LocsFrom(b, r.p, n - 1, poolSize, Append(acc, r.v), is1970)
DecLocations(b, p, poolSize, is1970) == LET c == DecCount(b, p) IN IF ~c.ok THEN Fail ELSE LocsFrom(b, c.p, c.v, poolSize, <<>>, is1970)

\* lexicographic order on byte sequences (= code point order of the UTF-8 strings)
RECURSIVE LexLt(_, _)
LexLt(x, y) == IF Len(y) = 0 THEN FALSE ELSE IF Len(x) = 0 THEN TRUE
               ELSE IF Head(x) # Head(y) THEN Head(x) < Head(y) ELSE LexLt(Tail(x), Tail(y))
=============================================================================
