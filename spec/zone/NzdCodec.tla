------------------------------ MODULE NzdCodec ------------------------------
(* The "nzd" time-zone blob encodings, as documented in the writer:             *)
(*   count          base-128 varint, least significant group first              *)
(*   signed count   zig-zag, then varint                                        *)
(*   milliseconds   (-1 day, +1 day): add one day, then the shortest of          *)
(*                    0xxxxxxx                 30-minute units     1 byte        *)
(*                    100xxxxx + 1 byte        minutes             2 bytes       *)
(*                    101xxxxx + 2 bytes       seconds             3 bytes       *)
(*                    110xxxxx + 3 bytes       milliseconds        4 bytes       *)
(*   transition     marker 0 = start of time, 1 = end of time; otherwise the      *)
(*                  first that applies of: whole hours since the previous         *)
(*                  transition in [2^7, 2^21); whole minutes since 1800-01-01     *)
(*                  in (2^21, 2^31); marker 2 + 64-bit big-endian ticks            *)
(*   string         count of UTF-8 bytes + bytes, or (with a pool) the pool index  *)
(* Enc* give the canonical bytes; Dec*(b, p) read at position p of byte sequence b *)
(* and return [ok, v, p] with p the position after the value.                     *)
EXTENDS Integers, Sequences, T3, BigInt

Byte == 0..255
Fail == [ok |-> FALSE, v |-> <<>>, p |-> 0]
Ok(v, p) == [ok |-> TRUE, v |-> v, p |-> p]
HasBytes(b, p, n) == p >= 1 /\ p + n - 1 <= Len(b)

(* varint *)
RECURSIVE EncVarint(_)
EncVarint(n) == IF n <= 127 THEN <<n>> ELSE <<(n % 128) + 128>> \o EncVarint(n \div 128)

\* reads groups until a byte < 128; the value must stay below 2^31 (a "count")
RECURSIVE DecVarintFrom(_, _, _, _)
DecVarintFrom(b, p, acc, mult) ==      \* mult = 128^k, kept <= 2^28
  IF ~HasBytes(b, p, 1) THEN Fail
  ELSE LET x == b[p] g == x % 128 IN
       IF mult = 268435456 /\ g > 7 THEN Fail          \* would exceed Int32.MaxValue
       ELSE LET acc2 == acc + g * mult IN
            IF x < 128 THEN Ok(acc2, p + 1)
            ELSE IF mult = 268435456 THEN Fail
            ELSE DecVarintFrom(b, p + 1, acc2, mult * 128)
EncCount(n) == EncVarint(n)
DecCount(b, p) == DecVarintFrom(b, p, 0, 1)

\* signed counts: zig-zag (0, -1, 1, -2, ... -> 0, 1, 2, 3, ...) then the varint.  The zig-zag value of a 32-bit count needs 32
\* bits, one more than TLC's integers hold, so the first 7-bit group is split off before doubling: with m = c (c >= 0) or
\* -c-1 (c < 0) the value is 2m + sign, its lowest group is 2 (m mod 64) + sign and the remaining groups are those of m div 64.
ZigZag(c) == IF c >= 0 THEN 2 * c ELSE -2 * c - 1            \* |c| < 2^30 (used by the small exhaustive runs)
UnZigZag(u) == IF u % 2 = 0 THEN u \div 2 ELSE -((u + 1) \div 2)
EncSigned(c) ==
  LET m == IF c >= 0 THEN c ELSE -(c + 1)
      low == 2 * (m % 64) + (IF c < 0 THEN 1 ELSE 0)
      rest == m \div 64
  IN  IF rest = 0 THEN <<low>> ELSE <<low + 128>> \o EncVarint(rest)
DecSigned(b, p) ==
  IF ~HasBytes(b, p, 1) THEN Fail
  ELSE LET x == b[p] low == x % 128
           r == IF x < 128 THEN Ok(0, p + 1) ELSE DecVarintFrom(b, p + 1, 0, 1)
       IN  IF ~r.ok \/ r.v > 33554431 THEN Fail            \* the remaining groups hold at most 25 bits (32 in all)
           ELSE LET m == r.v * 64 + (low \div 2) IN Ok(IF low % 2 = 0 THEN m ELSE -m - 1, r.p)
SignedAgree == \A c \in -5000..5000 : EncSigned(c) = EncVarint(ZigZag(c))      \* the split form is the plain zig-zag varint

(* milliseconds *)
MsPerDay == 86400000
MsInDomain(ms) == ms > -MsPerDay /\ ms < MsPerDay
EncMillis(ms) ==
  LET m == ms + MsPerDay IN
  IF m % 1800000 = 0 THEN <<m \div 1800000>>
  ELSE IF m % 60000 = 0 THEN LET x == m \div 60000 IN <<128 + (x \div 256), (x % 256)>>
  ELSE IF m % 1000 = 0 THEN LET x == m \div 1000 IN <<160 + (x \div 65536), (x \div 256) % 256, x % 256>>
  ELSE <<192 + (m \div 16777216), (m \div 65536) % 256, (m \div 256) % 256, m % 256>>
DecMillis(b, p) ==
  IF ~HasBytes(b, p, 1) THEN Fail
  ELSE LET f == b[p] IN
       IF f < 128 THEN Ok(f * 1800000 - MsPerDay, p + 1)
       ELSE LET flag == f \div 32  data == f % 32 IN
            CASE flag = 4 -> IF HasBytes(b, p, 2) THEN Ok((data * 256 + b[p + 1]) * 60000 - MsPerDay, p + 2) ELSE Fail
              [] flag = 5 -> IF HasBytes(b, p, 3) THEN Ok((data * 65536 + b[p + 1] * 256 + b[p + 2]) * 1000 - MsPerDay, p + 3) ELSE Fail
              [] flag = 6 -> IF HasBytes(b, p, 4)
                             THEN Ok(data * 16777216 + b[p + 1] * 65536 + b[p + 2] * 256 + b[p + 3] - MsPerDay, p + 4)
                             ELSE Fail
              [] OTHER -> Fail

(* transitions *)
\* an instant is a T3 numeral at tick precision, or one of the sentinels for the open ends of time
\* (sentinels are T3-shaped so that TLC can compare them with ordinary instants)
MinTag == <<-2000000000, 0, 0>>
MaxTag == <<2000000000, 0, 0>>
NoPrev == <<0, 0, -1>>           \* "there is no previous transition"
IsTag(i) == i = MinTag \/ i = MaxTag
Epoch1800 == <<-62091, 0, 0>>          \* 1800-01-01T00:00Z as days from 1970-01-01 (Calendars.GregDay(1800,1,1))
MinHours == 128
MinMinutes == 2097152                  \* 2^21

\* ticks since the Unix epoch as a BigInt, and its 8-byte big-endian two's complement
TicksOf(t) == Add(MulSmall(MulSmall(Add(MulSmall(FromInt(t[1]), SPD), FromInt(t[2])), 10000), 1000), FromInt(t[3] \div 100))
Two64 == Mul(Mul(FromInt(65536), FromInt(65536)), Mul(FromInt(65536), FromInt(65536)))
RECURSIVE BytesLE(_, _)
BytesLE(x, n) == IF n = 0 THEN <<>> ELSE LET qr == FloorDivModSmall(x, 256) IN <<qr[2]>> \o BytesLE(qr[1], n - 1)
Reverse(s) == [i \in 1..Len(s) |-> s[Len(s) - i + 1]] \o <<>>
Int64BE(x) == Reverse(BytesLE(IF x.s < 0 THEN Add(x, Two64) ELSE x, 8))
RECURSIVE FromBytesBE(_, _, _, _)
FromBytesBE(b, p, n, acc) == IF n = 0 THEN acc ELSE FromBytesBE(b, p + 1, n - 1, Add(MulSmall(acc, 256), FromInt(b[p])))
\* ticks -> T3 (floor)
T3OfTicks(x) ==
  LET q1 == FloorDivModSmall(x, 10000)        \* x = q1 * 10^4 + r1
      q2 == FloorDivModSmall(q1[1], 1000)       \* seconds, ticks-of-second = r2 * 10^4 + r1
      ds == FloorDivModSmall(q2[1], SPD)
  IN  <<ToInt(ds[1]), ds[2], (q2[2] * 10000 + q1[2]) * 100>>

WholeHoursSince(prev, v) ==       \* -1 when not applicable
  IF IsTag(prev) \/ IsTag(v) THEN -1
  ELSE LET d == Sub3(v, prev) IN
       IF d[3] = 0 /\ d[2] % 3600 = 0 /\ d[1] >= 0 /\ d[1] < 90000
       THEN d[1] * 24 + d[2] \div 3600 ELSE -1
WholeMinutesSince1800(v) ==
  IF IsTag(v) THEN -1
  ELSE LET d == Sub3(v, Epoch1800) IN
       \* representable as a count: minutes <= 2^31 - 1 = 1491308 days + 127 minutes
       IF d[3] = 0 /\ d[2] % 60 = 0 /\ d[1] >= 0 /\ (d[1] < 1491308 \/ (d[1] = 1491308 /\ d[2] \div 60 <= 127))
       THEN d[1] * 1440 + d[2] \div 60 ELSE -1

EncTransition(prev, v) ==
  IF v = MinTag THEN EncCount(0)
  ELSE IF v = MaxTag THEN EncCount(1)
  ELSE LET h == IF prev = NoPrev \/ prev = MinTag THEN -1 ELSE WholeHoursSince(prev, v)
           m == WholeMinutesSince1800(v)
       IN  IF h >= MinHours /\ h < MinMinutes THEN EncCount(h)
           ELSE IF m > MinMinutes THEN EncCount(m)
           ELSE EncCount(2) \o Int64BE(TicksOf(v))
DecTransition(b, p, prev) ==
  LET r == DecCount(b, p) IN
  IF ~r.ok THEN Fail
  ELSE IF r.v = 0 THEN Ok(MinTag, r.p)
  ELSE IF r.v = 1 THEN Ok(MaxTag, r.p)
  ELSE IF r.v = 2 THEN
         IF ~HasBytes(b, r.p, 8) THEN Fail
         ELSE LET u == FromBytesBE(b, r.p, 8, Zero)
                  x == IF b[r.p] >= 128 THEN Sub(u, Two64) ELSE u
              IN  Ok(T3OfTicks(x), r.p + 8)
  ELSE IF r.v < MinHours THEN Fail
  ELSE IF r.v < MinMinutes THEN
         IF prev = NoPrev \/ IsTag(prev) THEN Fail
         ELSE Ok(Add3(prev, <<r.v \div 24, (r.v % 24) * 3600, 0>>), r.p)
  ELSE Ok(Add3(Epoch1800, <<r.v \div 1440, (r.v % 1440) * 60, 0>>), r.p)

(* strings *)
Utf8(cp) ==
  IF cp < 128 THEN <<cp>>
  ELSE IF cp < 2048 THEN <<192 + cp \div 64, 128 + (cp % 64)>>
  ELSE IF cp < 65536 THEN <<224 + cp \div 4096, 128 + ((cp \div 64) % 64), 128 + (cp % 64)>>
  ELSE <<240 + cp \div 262144, 128 + ((cp \div 4096) % 64), 128 + ((cp \div 64) % 64), 128 + (cp % 64)>>
RECURSIVE Utf8Seq(_)
Utf8Seq(cps) == IF cps = <<>> THEN <<>> ELSE Utf8(Head(cps)) \o Utf8Seq(Tail(cps))
EncStringRaw(cps) == LET u == Utf8Seq(cps) IN EncCount(Len(u)) \o u
EncStringPooled(idx) == EncCount(idx)
\* raw string bytes as the value (UTF-8 validity is a separate concern: C20)
DecStringRaw(b, p) ==
  LET r == DecCount(b, p) IN
  IF ~r.ok \/ ~HasBytes(b, r.p, r.v) THEN Fail
  ELSE Ok(SubSeq(b, r.p, r.p + r.v - 1), r.p + r.v)
DecStringPooled(b, p, poolSize) ==
  LET r == DecCount(b, p) IN IF r.ok /\ r.v < poolSize THEN r ELSE Fail

(* yearly rule ("zone year offset"), recurrence, alternating map, zone *)
\* yo = [mode 0..2, month, dom (signed), dow 0..7, adv, addDay, ms (time of day in ms)]
EncYearOffset(yo) ==
  <<yo.mode * 32 + yo.dow * 4 + (IF yo.adv THEN 2 ELSE 0) + (IF yo.addDay THEN 1 ELSE 0)>>
  \o EncCount(yo.month) \o EncSigned(yo.dom) \o EncMillis(yo.ms)
DecYearOffset(b, p) ==
  IF ~HasBytes(b, p, 1) THEN Fail
  ELSE LET f == b[p]
           r1 == DecCount(b, p + 1)
       IN  IF ~r1.ok THEN Fail
           ELSE LET r2 == DecSigned(b, r1.p) IN
                IF ~r2.ok THEN Fail
                ELSE LET r3 == DecMillis(b, r2.p) IN
                     IF ~r3.ok THEN Fail
                     ELSE Ok([mode |-> f \div 32, dow |-> (f \div 4) % 8, adv |-> (f \div 2) % 2 = 1,
                              addDay |-> f % 2 = 1, month |-> r1.v, dom |-> r2.v, ms |-> r3.v], r3.p)

\* names are pool indices here (the database files always use the pool for zone data)
EncRecurrence(r) == EncStringPooled(r.name) \o EncMillis(r.savings) \o EncYearOffset(r.yo)
                    \o EncCount(IF r.from < 0 THEN 0 ELSE r.from) \o EncCount(r.to)
EncAltMap(t) == EncMillis(t.stdOffset) \o EncStringPooled(t.stdName) \o EncYearOffset(t.stdYo)
                \o EncStringPooled(t.dstName) \o EncYearOffset(t.dstYo) \o EncMillis(t.savings)
DecAltMap(b, p, poolSize) ==
  LET r1 == DecMillis(b, p) IN IF ~r1.ok THEN Fail ELSE
  LET r2 == DecStringPooled(b, r1.p, poolSize) IN IF ~r2.ok THEN Fail ELSE
  LET r3 == DecYearOffset(b, r2.p) IN IF ~r3.ok THEN Fail ELSE
  LET r4 == DecStringPooled(b, r3.p, poolSize) IN IF ~r4.ok THEN Fail ELSE
  LET r5 == DecYearOffset(b, r4.p) IN IF ~r5.ok THEN Fail ELSE
  LET r6 == DecMillis(b, r5.p) IN IF ~r6.ok THEN Fail ELSE
  Ok([stdOffset |-> r1.v, stdName |-> r2.v, stdYo |-> r3.v, dstName |-> r4.v, dstYo |-> r5.v, savings |-> r6.v], r6.p)

\* precalculated zone: periods = <<[start, name, wall, savings]>>, tailStart, tail ("none" or alt map)
RECURSIVE EncPeriods(_, _, _)
EncPeriods(ps, k, prev) ==
  IF k > Len(ps) THEN <<>>
  ELSE EncTransition(prev, ps[k].start) \o EncStringPooled(ps[k].name) \o EncMillis(ps[k].wall)
       \o EncMillis(ps[k].savings) \o EncPeriods(ps, k + 1, ps[k].start)
EncZone(z) ==
  EncCount(Len(z.periods)) \o EncPeriods(z.periods, 1, NoPrev)
  \o EncTransition(IF Len(z.periods) = 0 THEN NoPrev ELSE z.periods[Len(z.periods)].start, z.tailStart)
  \o (IF ~z.hasTail THEN <<0>> ELSE <<1>> \o EncAltMap(z.tail))

NoTail == [stdOffset |-> 0, stdName |-> 0, stdYo |-> <<>>, dstName |-> 0, dstYo |-> <<>>, savings |-> 0]
RECURSIVE DecPeriods(_, _, _, _, _, _)
DecPeriods(b, p, n, start, poolSize, acc) ==
  IF n = 0 THEN Ok([periods |-> acc, tailStart |-> start], p)
  ELSE LET r1 == DecStringPooled(b, p, poolSize) IN IF ~r1.ok THEN Fail ELSE
       LET r2 == DecMillis(b, r1.p) IN IF ~r2.ok THEN Fail ELSE
       LET r3 == DecMillis(b, r2.p) IN IF ~r3.ok THEN Fail ELSE
       LET r4 == DecTransition(b, r3.p, start) IN IF ~r4.ok THEN Fail ELSE
       DecPeriods(b, r4.p, n - 1, r4.v, poolSize,
                  Append(acc, [start |-> start, name |-> r1.v, wall |-> r2.v, savings |-> r3.v]))
DecZone(b, p, poolSize) ==
  LET r0 == DecCount(b, p) IN IF ~r0.ok THEN Fail ELSE
  LET r1 == DecTransition(b, r0.p, NoPrev) IN IF ~r1.ok THEN Fail ELSE
  LET r2 == DecPeriods(b, r1.p, r0.v, r1.v, poolSize, <<>>) IN IF ~r2.ok THEN Fail ELSE
  IF ~HasBytes(b, r2.p, 1) THEN Fail
  ELSE IF b[r2.p] = 1
       THEN LET r3 == DecAltMap(b, r2.p + 1, poolSize) IN
            IF ~r3.ok THEN Fail
            ELSE Ok([periods |-> r2.v.periods, tailStart |-> r2.v.tailStart, hasTail |-> TRUE, tail |-> r3.v], r3.p)
       ELSE Ok([periods |-> r2.v.periods, tailStart |-> r2.v.tailStart, hasTail |-> FALSE, tail |-> NoTail], r2.p + 1)
=============================================================================
