-------------------------- MODULE ZoneLocalMapping --------------------------
(* Small-scope model of DateTimeZone.map_local.                                  *)
(*                                                                              *)
(* Declarative meaning (property C05): the results for a local value are exactly  *)
(* the instants i with i + wall(i) = local.                                        *)
(* Algorithm (transcribed from the code, one definition per method):               *)
(*   first guess = interval at the instant numerically equal to the local value;    *)
(*   if it maps: look for an earlier then a later matching neighbour (each behind a  *)
(*   cheap day-granular pre-check); if not: a neighbour alone may match; otherwise   *)
(*   the value is in a gap and the two bracketing intervals are found from a guess.  *)
(* Instants are integers; a "day" is D units; offsets range over -D..D so that       *)
(* whole-day jumps (Samoa, Kiribati) and multi-unit jumps occur.                     *)
EXTENDS Integers, Sequences, FiniteSets

CONSTANTS D, T, MaxTr
VARIABLES trans, offs, loc

BOT == -1000
TOP == 1000
Offsets == (-D)..D
SortedSeqs == UNION {{s \in [1..n -> 1..(T - 1)] : \A i \in 1..(n - 1) : s[i] < s[i + 1]} : n \in 0..MaxTr}

Init == /\ trans \in SortedSeqs
        /\ offs \in [0..MaxTr -> Offsets]
        /\ \A i \in 0..(Len(trans) - 1) : offs[i] # offs[i + 1]
        /\ loc \in (-D - 1)..(T + D + 1)
Next == UNCHANGED <<trans, offs, loc>>
Spec == Init /\ [][Next]_<<trans, offs, loc>>

N == Len(trans)
Start(k) == IF k = 0 THEN BOT ELSE trans[k]            \* interval k = [Start(k), End(k)), k in 0..N
End(k) == IF k = N THEN TOP ELSE trans[k + 1]
IndexAt(t) == Cardinality({i \in 1..N : trans[i] <= t})
FloorDay(x) == x \div D

\* ---- declarative ---------------------------------------------------------------------------
MapsInto(k, l) == Start(k) <= l - offs[k] /\ l - offs[k] < End(k)
Matching == {k \in 0..N : MapsInto(k, loc)}
Decl ==
  IF Matching # {}
  THEN [count |-> Cardinality(Matching),
        early |-> CHOOSE k \in Matching : \A j \in Matching : k <= j,
        late  |-> CHOOSE k \in Matching : \A j \in Matching : k >= j]
  ELSE LET b == CHOOSE k \in 0..(N - 1) : End(k) + offs[k] <= loc /\ loc < Start(k + 1) + offs[k + 1]
       IN  [count |-> 0, early |-> b, late |-> b + 1]

\* ---- the algorithm ---------------------------------------------------------------------------
NONE == -1
GetEarlierMatching(k) ==
  IF k > 0 /\ FloorDay(loc) <= FloorDay(Start(k)) + 1
  THEN (IF MapsInto(IndexAt(Start(k) - 1), loc) THEN IndexAt(Start(k) - 1) ELSE NONE)
  ELSE NONE
GetLaterMatching(k) ==
  IF k < N /\ FloorDay(loc) >= FloorDay(End(k)) - 1
  THEN (IF MapsInto(IndexAt(End(k)), loc) THEN IndexAt(End(k)) ELSE NONE)
  ELSE NONE
BeforeGap == LET g == IndexAt(loc) IN IF loc - offs[g] < Start(g) THEN IndexAt(Start(g) - 1) ELSE g
AfterGap == LET g == IndexAt(loc) IN IF loc - offs[g] < Start(g) THEN g ELSE IndexAt(End(g))
Algo ==
  LET k == IndexAt(loc)
      e == GetEarlierMatching(k)
      la == GetLaterMatching(k)
  IN  IF MapsInto(k, loc)
      THEN IF e # NONE THEN [count |-> 2, early |-> e, late |-> k]
           ELSE IF la # NONE THEN [count |-> 2, early |-> k, late |-> la]
           ELSE [count |-> 1, early |-> k, late |-> k]
      ELSE IF e # NONE THEN [count |-> 1, early |-> e, late |-> e]
           ELSE IF la # NONE THEN [count |-> 1, early |-> la, late |-> la]
           ELSE [count |-> 0, early |-> BeforeGap, late |-> AfterGap]

\* zones of the kind the database contains: a local value never has more than two pre-images, i.e.
\* consecutive transitions are further apart than the sum of the jumps around them
Realistic == \A k \in 1..(N - 1) : trans[k + 1] - trans[k] > 2 * D
AtMostTwo == Realistic => Cardinality(Matching) <= 2
AlgorithmIsDeclarative == Realistic => Algo = Decl
\* negative check (non-vacuity): without the realistic-zone assumption a local value can have 3 pre-images
NeverThree == Cardinality(Matching) <= 2
=============================================================================
