------------------------------ MODULE TzdbLoader ------------------------------
(* Protocol of loading possibly damaged time-zone data (property C20):            *)
(*                                                                              *)
(*     Fresh --Load--> Loaded | Rejected                                          *)
(*     Loaded --GetIds--> Loaded                                                  *)
(*     Loaded --ForId(id)--> Loaded (a zone) | Loaded (rejected for that id)      *)
(*                                                                              *)
(* "Rejected" always means the documented InvalidPyodaDataError; no call hangs,    *)
(* exhausts memory or raises anything else.                                       *)
EXTENDS Integers, Sequences
VARIABLES st, calls
Outcomes == {"ok", "InvalidPyodaDataError"}
Init == st = "Fresh" /\ calls = 0
Load(o) == st = "Fresh" /\ o \in Outcomes /\ st' = (IF o = "ok" THEN "Loaded" ELSE "Rejected") /\ calls' = calls + 1
GetIds(o) == st = "Loaded" /\ o = "ok" /\ UNCHANGED st /\ calls' = calls + 1
ForId(o) == st = "Loaded" /\ o \in Outcomes /\ UNCHANGED st /\ calls' = calls + 1
Next == \E o \in Outcomes : Load(o) \/ GetIds(o) \/ ForId(o)
Spec == Init /\ [][Next]_<<st, calls>>
TypeOK == st \in {"Fresh", "Loaded", "Rejected"}
\* once rejected nothing else is served from that source
RejectedIsFinal == [][st = "Rejected" => st' = "Rejected"]_<<st, calls>>
=============================================================================
