------------------------------ MODULE ZoneWalk ------------------------------
(* Small-scope model of a zone and of the two algorithms property C04 rests on:  *)
(*  - the walk  current := start of time; interval := Lookup(current);             *)
(*              current := interval.end  ... until an interval has no end           *)
(*  - Lookup as the code does it: a precalculated list searched by binary search,    *)
(*    handing over to a periodic "tail" whose first interval is clamped to start      *)
(*    where the list ends.                                                           *)
(* Instants are 0..T-1 (plus -1 = start of time, T = end of time); a zone is chosen   *)
(* in Init: a set of transition instants with an offset per interval.                 *)
EXTENDS Integers, Sequences, FiniteSets

CONSTANTS T, MaxTr
VARIABLES trans, offs, tailPeriod, cur, seen, done

wvars == <<trans, offs, tailPeriod, cur, seen, done>>
BOT == -1
Offsets == {-1, 0, 1}

\* strictly increasing sequences of at most MaxTr instants in 1..T-2 (list part), tail from last
SortedSeqs == UNION {{s \in [1..n -> 1..(T - 1)] : \A i \in 1..(n - 1) : s[i] < s[i + 1]} : n \in 0..MaxTr}

Init == /\ trans \in SortedSeqs
        /\ offs \in [0..MaxTr -> Offsets]
        /\ \A i \in 0..(Len(trans) - 1) : offs[i] # offs[i + 1]       \* maximal: adjacent intervals differ
        /\ tailPeriod \in (IF Len(trans) = 0 THEN {0} ELSE {0, 2})    \* 0 = no tail, else alternate every 2 units after the list
        /\ cur = BOT /\ seen = <<>> /\ done = FALSE

NTr == Len(trans)
TailStart == IF NTr = 0 THEN BOT ELSE trans[NTr]
\* ---- declarative partition --------------------------------------------------------------
\* all transition instants including the periodic tail's
AllTrans == {trans[i] : i \in 1..NTr} \cup
            (IF tailPeriod = 0 THEN {} ELSE {x \in 0..(T - 1) : x > TailStart /\ (x - TailStart) % tailPeriod = 0})
StartOf(t) == IF {x \in AllTrans : x <= t} = {} THEN BOT
              ELSE CHOOSE x \in AllTrans : x <= t /\ \A y \in AllTrans : y <= t => y <= x
EndOf(t) == IF {x \in AllTrans : x > t} = {} THEN T
            ELSE CHOOSE x \in AllTrans : x > t /\ \A y \in AllTrans : y > t => x <= y
\* offset in force at t: list offsets, then alternating offs[NTr] / offs[NTr]+1 in the tail
TailFlip(t) == IF tailPeriod = 0 THEN 0 ELSE ((t - TailStart) \div tailPeriod) % 2
OffsetAt(t) == LET k == Cardinality({i \in 1..NTr : trans[i] <= t}) IN
               IF k < NTr \/ tailPeriod = 0 THEN offs[k] ELSE offs[NTr] + 2 * TailFlip(IF t < 0 THEN 0 ELSE t)
DeclInterval(t) == [start |-> StartOf(t), end |-> EndOf(t), off |-> OffsetAt(t)]

\* ---- Lookup as the implementation does it --------------------------------------------------
\* binary search over the precalculated periods [trans[i], trans[i+1]) for i < NTr; from the last
\* transition on, the tail map answers, its first interval clamped to start at TailStart
RECURSIVE BSearch(_, _, _)
BSearch(lo, hi, t) ==     \* greatest i in lo..hi with (i = 0 or trans[i] <= t)
  IF lo >= hi THEN lo
  ELSE LET mid == (lo + hi + 1) \div 2 IN
       IF trans[mid] <= t THEN BSearch(mid, hi, t) ELSE BSearch(lo, mid - 1, t)
Lookup(t) ==
  LET tt == IF t = BOT THEN -1 ELSE t
      i == BSearch(0, NTr, tt)
  IN  IF i < NTr \/ tailPeriod = 0
      THEN [start |-> IF i = 0 THEN BOT ELSE trans[i], end |-> IF i < NTr THEN trans[i + 1] ELSE T, off |-> offs[i]]
      ELSE \* tail: periodic intervals counted from TailStart; the first one starts exactly at TailStart
           LET base == IF TailStart = BOT THEN 0 ELSE TailStart
               k == (IF tt < base THEN 0 ELSE tt - base) \div tailPeriod
               s == base + k * tailPeriod
               e == s + tailPeriod
           IN  [start |-> IF k = 0 THEN TailStart ELSE s, end |-> IF e >= T THEN T ELSE e, off |-> offs[NTr] + 2 * (k % 2)]

\* ---- the walk --------------------------------------------------------------------------------
Step == /\ ~done
        /\ LET iv == Lookup(cur) IN
           /\ seen' = Append(seen, iv)
           /\ IF iv.end = T THEN done' = TRUE /\ cur' = cur ELSE done' = FALSE /\ cur' = iv.end
        /\ UNCHANGED <<trans, offs, tailPeriod>>
Spec == Init /\ [][Step]_wvars /\ WF_wvars(Step)

\* every interval met contains the instant asked for, abuts the previous one and differs from it
WalkSound == \A k \in 1..Len(seen) :
               /\ seen[k].start < seen[k].end
               /\ (k = 1 => seen[k].start = BOT)
               /\ (k > 1 => seen[k].start = seen[k - 1].end /\ seen[k].off # seen[k - 1].off)
\* the implementation-shaped lookup equals the declarative partition at every instant
LookupAgrees == \A t \in 0..(T - 1) : Lookup(t) = DeclInterval(t)
\* the walk ends, having covered the whole line
WalkCoversEverything == <>(done /\ seen[Len(seen)].end = T)
=============================================================================
