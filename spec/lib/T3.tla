--------------------------------- MODULE T3 ---------------------------------
(* Points and spans on the nanosecond time line as a mixed-radix numeral     *)
(*   <<d, s, n>>  =  d days + s seconds + n nanoseconds,                      *)
(*   0 <= s < 86400,  0 <= n < 10^9,  d any integer (floor day).              *)
(* Every digit fits TLC's 32-bit integers, sums of two digits do too.         *)
(* A negative span is represented with a negative floor day, exactly as the  *)
(* implementation's (floor days, nanosecond-of-day) normal form, but this is  *)
(* simply the unique numeral of the integer, not a transcription of code.     *)
EXTENDS Integers, Sequences, Arith

SPD == 86400
NPS == 1000000000

IsT3(x) == /\ x[2] \in 0..(SPD - 1)
           /\ x[3] \in 0..(NPS - 1)

Zero3 == <<0, 0, 0>>

Add3(a, b) ==
  LET n  == a[3] + b[3]
      cn == IF n >= NPS THEN 1 ELSE 0
      s  == a[2] + b[2] + cn
      cs == IF s >= SPD THEN 1 ELSE 0
  IN  <<a[1] + b[1] + cs, s - cs * SPD, n - cn * NPS>>

Neg3(a) ==
  IF a[3] = 0
  THEN IF a[2] = 0 THEN <<-a[1], 0, 0>> ELSE <<-a[1] - 1, SPD - a[2], 0>>
  ELSE <<-a[1] - 1, SPD - 1 - a[2], NPS - a[3]>>

Sub3(a, b) == Add3(a, Neg3(b))

Lt3(a, b) == \/ a[1] < b[1]
             \/ a[1] = b[1] /\ a[2] < b[2]
             \/ a[1] = b[1] /\ a[2] = b[2] /\ a[3] < b[3]
Le3(a, b) == a = b \/ Lt3(a, b)
Cmp3(a, b) == IF a = b THEN 0 ELSE IF Lt3(a, b) THEN -1 ELSE 1
Sign3(a) == IF a[1] < 0 THEN -1 ELSE IF a = Zero3 THEN 0 ELSE 1

\* a span of whole seconds (|sec| < 2^31) as a T3
OfSeconds(sec) == <<sec \div SPD, sec % SPD, 0>>

(* ---- documented ranges ------------------------------------------------- *)
\* Instant: -9998-01-01T00:00:00 .. 9999-12-31T23:59:59.999999999 (UTC), as
\* day numbers relative to 1970-01-01 in the proleptic Gregorian calendar.
\* (Calendars.tla re-derives these two numbers from the calendar rules.)
InstantMinDay == -4371222
InstantMaxDay == 2932896
InstantInRange(t) == t[1] >= InstantMinDay /\ t[1] <= InstantMaxDay

\* Duration: documented as "about +/- 2^30 days": floor days in [-2^30, 2^30 - 1]
DurMinDay == -1073741824
DurMaxDay == 1073741823
DurationInRange(t) == t[1] >= DurMinDay /\ t[1] <= DurMaxDay

(* ---- an integer amount k of a unit, serialised in mixed radix ----------- *)
(* The driver writes k as digits [q, r, f] with k = (q * 86400 + r) * P + f  *)
(* for sub-second units with P units per second (0 <= r < 86400, 0 <= f < P) *)
(* or [q, r] with k = q * U + r for units with U units per day.              *)
UnitPerSec(u) == CASE u = "nanoseconds" -> 1000000000
                   [] u = "ticks" -> 10000000
                   [] u = "microseconds" -> 1000000
                   [] u = "milliseconds" -> 1000
                   [] OTHER -> 0
UnitPerDay(u) == CASE u = "seconds" -> 86400
                   [] u = "minutes" -> 1440
                   [] u = "hours" -> 24
                   [] u = "days" -> 1
                   [] u = "weeks" -> 1
                   [] OTHER -> 0
AmountWellFormed(u, a) ==
  IF UnitPerSec(u) > 0
  THEN Len(a) = 3 /\ a[2] \in 0..(SPD - 1) /\ a[3] \in 0..(UnitPerSec(u) - 1)
  ELSE Len(a) = 2 /\ a[2] \in 0..(UnitPerDay(u) - 1)
\* the span denoted by amount a of unit u   (weeks: q counts days already * 7 done by caller)
AmountToT3(u, a) ==
  IF UnitPerSec(u) > 0
  THEN <<a[1], a[2], a[3] * (NPS \div UnitPerSec(u))>>
  ELSE <<a[1], a[2] * (SPD \div UnitPerDay(u)), 0>>
=============================================================================
