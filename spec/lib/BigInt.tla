------------------------------- MODULE BigInt -------------------------------
(* Arbitrary-precision integers for TLC (whose integers are 32-bit):           *)
(*   [s |-> sign in {-1,0,1}, d |-> magnitude as little-endian base-10^4 limbs] *)
(* with no leading zero limb (so representations are unique and = is equality). *)
(* Every intermediate stays below 2^31: limb*limb + carry < 10^8 + 10^4.        *)
EXTENDS Integers, Sequences, Arith

BASE == 10000

\* TLC builds [i \in S |-> e] lazily and re-evaluates e at every application; concatenating with the
\* empty sequence forces it into an explicit tuple (otherwise chains of lazy limbs blow up exponentially)
Force(q) == q \o <<>>

Limb(a, i) == IF i >= 1 /\ i <= Len(a) THEN a[i] ELSE 0

RECURSIVE MagOfNat(_)
MagOfNat(n) == IF n = 0 THEN <<>> ELSE <<n % BASE>> \o MagOfNat(n \div BASE)

RECURSIVE Strip(_)
Strip(a) == IF Len(a) > 0 /\ a[Len(a)] = 0 THEN Strip(SubSeq(a, 1, Len(a) - 1)) ELSE a

WellFormedMag(a) == /\ \A i \in 1..Len(a) : a[i] \in 0..(BASE - 1)
                    /\ (Len(a) > 0 => a[Len(a)] # 0)
WellFormed(x) == /\ x.s \in {-1, 0, 1}
                 /\ WellFormedMag(x.d)
                 /\ (x.s = 0) = (Len(x.d) = 0)

\* ---- magnitudes ---------------------------------------------------------
CmpMag(a, b) ==
  IF Len(a) # Len(b) THEN (IF Len(a) < Len(b) THEN -1 ELSE 1)
  ELSE LET diff == {i \in 1..Len(a) : a[i] # b[i]} IN
       IF diff = {} THEN 0
       ELSE LET top == CHOOSE i \in diff : \A j \in diff : j <= i IN
            IF a[top] < b[top] THEN -1 ELSE 1

AddMag(a, b) ==
  LET n == Max2(Len(a), Len(b))
      c[i \in 0..n] == IF i = 0 THEN 0 ELSE (Limb(a, i) + Limb(b, i) + c[i - 1]) \div BASE
      r == Force([i \in 1..n |-> (Limb(a, i) + Limb(b, i) + c[i - 1]) % BASE])
  IN  IF c[n] > 0 THEN Append(r, c[n]) ELSE r

\* a - b for a >= b
SubMag(a, b) ==
  LET n == Len(a)
      \* borrow out of position i
      w[i \in 0..n] == IF i = 0 THEN 0 ELSE IF Limb(a, i) - Limb(b, i) - w[i - 1] < 0 THEN 1 ELSE 0
      r == Force([i \in 1..n |-> (Limb(a, i) - Limb(b, i) - w[i - 1]) % BASE])
  IN  Strip(r)

\* a * k for 0 <= k <= 200000
MulMagSmall(a, k) ==
  IF k = 0 \/ Len(a) = 0 THEN <<>>
  ELSE LET n == Len(a)
           \* a[i] * k + carry <= 9999 * 200000 + carry < 2^31
           c[i \in 0..n] == IF i = 0 THEN 0 ELSE (a[i] * k + c[i - 1]) \div BASE
           r == Force([i \in 1..n |-> (a[i] * k + c[i - 1]) % BASE])
       IN  r \o MagOfNat(c[n])

ShiftMag(a, k) == IF Len(a) = 0 THEN <<>> ELSE Force([i \in 1..k |-> 0]) \o a

MulMag(a, b) ==
  LET acc[j \in 0..Len(b)] ==
        IF j = 0 THEN <<>> ELSE AddMag(acc[j - 1], ShiftMag(MulMagSmall(a, b[j]), j - 1))
  IN  acc[Len(b)]

\* (quotient, remainder) of magnitude a by small k, 1 <= k <= 200000
DivModMagSmall(a, k) ==
  LET n == Len(a)
      \* remainder carried into position i (processing from the top limb down): rem[n+1] = 0
      rem[i \in 1..(n + 1)] == IF i = n + 1 THEN 0 ELSE (rem[i + 1] * BASE + a[i]) % k
      q == Force([i \in 1..n |-> (rem[i + 1] * BASE + a[i]) \div k])
  IN  <<Strip(q), IF n = 0 THEN 0 ELSE rem[1]>>

\* ---- signed ---------------------------------------------------------------
Zero == [s |-> 0, d |-> <<>>]
Mk(s, d) == IF Len(d) = 0 THEN Zero ELSE [s |-> s, d |-> d]

FromInt(i) == IF i = 0 THEN Zero ELSE Mk(Sign(i), MagOfNat(Abs(i)))     \* |i| < 2^31

Neg(x) == [s |-> -x.s, d |-> x.d]
AbsB(x) == [s |-> Abs(x.s), d |-> x.d]
Add(x, y) ==
  IF x.s = 0 THEN y ELSE IF y.s = 0 THEN x
  ELSE IF x.s = y.s THEN Mk(x.s, AddMag(x.d, y.d))
  ELSE LET c == CmpMag(x.d, y.d) IN
       IF c = 0 THEN Zero
       ELSE IF c > 0 THEN Mk(x.s, SubMag(x.d, y.d)) ELSE Mk(y.s, SubMag(y.d, x.d))
Sub(x, y) == Add(x, Neg(y))
Mul(x, y) == IF x.s = 0 \/ y.s = 0 THEN Zero ELSE Mk(x.s * y.s, MulMag(x.d, y.d))
MulSmall(x, k) == IF k = 0 THEN Zero ELSE Mk(x.s * Sign(k), MulMagSmall(x.d, Abs(k)))   \* |k| <= 200000
Cmp(x, y) ==
  IF x.s # y.s THEN (IF x.s < y.s THEN -1 ELSE 1)
  ELSE IF x.s = 0 THEN 0 ELSE x.s * CmpMag(x.d, y.d)
Lt(x, y) == Cmp(x, y) < 0
Le(x, y) == Cmp(x, y) <= 0

\* floor division / modulus by a small positive k (1..200000)
FloorDivModSmall(x, k) ==
  LET qr == DivModMagSmall(x.d, k) IN
  IF x.s >= 0 THEN <<Mk(1, qr[1]), qr[2]>>
  ELSE IF qr[2] = 0 THEN <<Mk(-1, qr[1]), 0>>
  ELSE <<Sub(Mk(-1, qr[1]), FromInt(1)), k - qr[2]>>

\* small value of a BigInt known to fit (|x| < 2^31)
ToInt(x) == LET f[i \in 0..Len(x.d)] == IF i = 0 THEN 0 ELSE f[i - 1] * BASE + x.d[Len(x.d) - i + 1]
            IN x.s * f[Len(x.d)]
Fits31(x) == Len(x.d) <= 2 \/ (Len(x.d) = 3 /\ x.d[3] <= 20)

\* q is the truncating quotient of a by k (k # 0):  a = q*k + r, |r| < |k|, r = 0 or sign(r) = sign(a)
IsTruncQuot(a, k, q) ==
  LET r == Sub(a, Mul(q, k)) IN
  /\ CmpMag(r.d, k.d) < 0
  /\ r.s \in {0, a.s}
=============================================================================
