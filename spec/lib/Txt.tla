--------------------------------- MODULE Txt ---------------------------------
(* Text as sequences of Unicode code points.                                      *)
EXTENDS Integers, Sequences
Zero == 48
Colon == 58
Dash == 45
Plus == 43
Dot == 46
LetterT == 84
LetterZ == 90
Digit(d) == Zero + d
\* n >= 0 written with exactly `width` digits (the low `width` digits)
RECURSIVE Padded(_, _)
Padded(n, width) == IF width = 0 THEN <<>> ELSE Padded(n \div 10, width - 1) \o <<Digit(n % 10)>>
\* n >= 0 with no padding
RECURSIVE Unpadded(_)
Unpadded(n) == IF n < 10 THEN <<Digit(n)>> ELSE Unpadded(n \div 10) \o <<Digit(n % 10)>>
\* at least `width` digits
AtLeast(n, width) == LET u == Unpadded(n) IN IF Len(u) >= width THEN u ELSE Padded(n, width)
\* fraction of a second: nine digits with trailing zeros removed (empty when n = 0)
RECURSIVE TrimZeros(_)
TrimZeros(s) == IF Len(s) > 0 /\ s[Len(s)] = Zero THEN TrimZeros(SubSeq(s, 1, Len(s) - 1)) ELSE s
Fraction9(n) == TrimZeros(Padded(n, 9))
IsDigit(c) == c >= 48 /\ c <= 57
=============================================================================
