------------------------------- MODULE Arith -------------------------------
(* Integer helpers shared by every specification module.  TLC's \div and %  *)
(* are floor division / non-negative modulus for positive divisors.         *)
EXTENDS Integers

Sign(x) == IF x > 0 THEN 1 ELSE IF x < 0 THEN -1 ELSE 0
Abs(x)  == IF x < 0 THEN -x ELSE x
Min2(a, b) == IF a <= b THEN a ELSE b
Max2(a, b) == IF a >= b THEN a ELSE b

FloorDiv(a, b) == a \div b                 \* b > 0
FloorMod(a, b) == a % b                    \* b > 0, result in 0..b-1
\* truncating division (C / C# / Noda Time semantics), b > 0
TruncDiv(a, b) == IF a >= 0 THEN a \div b ELSE -((-a) \div b)
TruncMod(a, b) == a - b * TruncDiv(a, b)
=============================================================================
