--------------------------- MODULE PatternSemantics ---------------------------
(* What a custom pattern (a sequence of tokens) can represent (property C07).      *)
(* A pattern captures some fields of a value, at some precision; every field it      *)
(* does not capture is taken from the pattern's template value when parsing.          *)
(* Representable(type, tokens, v, tpl, flags) says that formatting v and parsing the   *)
(* text must give back v:  every field of v is either captured exactly or equal to     *)
(* the template's.  Delimited(tokens) says that no two digit-producing fields touch.    *)
EXTENDS Integers, Sequences, FiniteSets

HasTok(tokens, S) == \E i \in 1..Len(tokens) : tokens[i] \in S
Pow10(k) == CASE k = 0 -> 1 [] k = 1 -> 10 [] k = 2 -> 100 [] k = 3 -> 1000 [] k = 4 -> 10000 [] k = 5 -> 100000
              [] k = 6 -> 1000000 [] k = 7 -> 10000000 [] k = 8 -> 100000000 [] k = 9 -> 1000000000

\* number of fraction digits a token carries: f/F repeated 1..9 times, optionally introduced by its own '.' or ';'
RECURSIVE Rep(_, _)
Rep(c, k) == IF k = 0 THEN "" ELSE c \o Rep(c, k - 1)
FracSet(k) == {Rep("f", k), Rep("F", k), "." \o Rep("f", k), "." \o Rep("F", k), ";" \o Rep("f", k), ";" \o Rep("F", k)}
FracTable == [k \in 1..9 |-> FracSet(k)]
FracDigits(t) == IF \E k \in 1..9 : t \in FracTable[k] THEN CHOOSE k \in 1..9 : t \in FracTable[k] ELSE 0
AllFrac == UNION {FracTable[k] : k \in 1..9}
SepOptFrac == UNION {{"." \o Rep("F", k), ";" \o Rep("F", k)} : k \in 1..9}
\* (the separator and the run of F may have been cut into two tokens)
SepOptAt(tokens, i) == tokens[i] \in SepOptFrac \/ (tokens[i] \in {Rep("F", k) : k \in 1..9} /\ i > 1 /\ tokens[i - 1] \in {".", ";"})
BareFrac == {Rep("f", k) : k \in 1..9} \cup {Rep("F", k) : k \in 1..9}
MaxFrac(tokens) == LET S == {FracDigits(tokens[i]) : i \in 1..Len(tokens)} IN
                   IF S = {} THEN 0 ELSE CHOOSE m \in S : \A x \in S : x <= m

\* ---- time of day: v = [h, mi, s, n] ----------------------------------------------------
\* (tpl: the time of day of the pattern's template value - what fields the pattern does not capture are read back as;
\*  midnight unless the pattern was given another one)
Midnight == [h |-> 0, mi |-> 0, s |-> 0, n |-> 0]
TimeRepresentableT(tokens, v, ampmOk, tpl) ==
  LET h24 == HasTok(tokens, {"H", "HH"})
      h12 == HasTok(tokens, {"h", "hh"})
      ap == HasTok(tokens, {"t", "tt"}) /\ ampmOk
      hourOk == \/ h24
                \/ h12 /\ ap
                \/ h12 /\ ~ap /\ v.h \div 12 = tpl.h \div 12          \* the half of the day comes from the template
                \/ ~h12 /\ ap /\ v.h % 12 = tpl.h % 12                 \* the hour within the half comes from the template
                \/ ~h12 /\ ~ap /\ v.h = tpl.h
  IN  /\ hourOk
      \* an am/pm field must be readable back: only where the culture's two designators can be told apart
      /\ (HasTok(tokens, {"t", "tt"}) => ampmOk)
      /\ (HasTok(tokens, {"m", "mm"}) \/ v.mi = tpl.mi)
      /\ (HasTok(tokens, {"s", "ss"}) \/ v.s = tpl.s)
      \* no fraction field: the template's; else the value's digits must fit - and an optional fraction with its own separator
      \* (".FFF", ";FFF") writes nothing for zero and then reads back the template's fraction
      /\ (IF MaxFrac(tokens) = 0 THEN v.n = tpl.n
          ELSE /\ v.n % Pow10(9 - MaxFrac(tokens)) = 0
               /\ ((v.n = 0 /\ \A i \in 1..Len(tokens) : tokens[i] \in AllFrac => SepOptAt(tokens, i)) => tpl.n = 0))
TimeRepresentable(tokens, v, ampmOk) == TimeRepresentableT(tokens, v, ampmOk, Midnight)

\* ---- offset: v = [sec] ------------------------------------------------------------------
OffsetRepresentable(tokens, v) ==
  LET a == IF v.sec < 0 THEN -v.sec ELSE v.sec IN
  /\ (HasTok(tokens, {"+", "-"}) \/ v.sec >= 0)
  /\ (HasTok(tokens, {"H", "HH"}) \/ a \div 3600 = 0)
  /\ (HasTok(tokens, {"m", "mm"}) \/ (a % 3600) \div 60 = 0)
  /\ (HasTok(tokens, {"s", "ss"}) \/ a % 60 = 0)

\* ---- date: v = [y, m, d, era, cal], tpl likewise; names usable when the culture's names are distinct -----
DateRepresentable(tokens, v, tpl, textOk) ==
  LET absYear == HasTok(tokens, {"uuuu", "uuu", "uu", "u"})
      yoe == HasTok(tokens, {"yyyy"})
      \* a two-digit year of era is read back into the template's century, or the century before it when the two digits
      \* exceed the pattern's two-digit-year maximum (and the template is not in the first centuries)
      yy == HasTok(tokens, {"yy"})
      yyCentury == (tpl.yoe \div 100) - (IF (v.yoe % 100) > v.yymax /\ (tpl.yoe \div 100) > 1 THEN 1 ELSE 0)
      yyOk == v.yoe = (v.yoe % 100) + 100 * yyCentury
      era == HasTok(tokens, {"g", "gg"}) /\ textOk
      yearOk == \/ absYear
                \/ yoe /\ era
                \/ yoe /\ ~era /\ v.era = tpl.era
                \/ yy /\ ~yoe /\ yyOk /\ (era \/ v.era = tpl.era)
                \/ ~yoe /\ ~yy /\ ~absYear /\ v.y = tpl.y
      monthOk == \/ HasTok(tokens, {"M", "MM"})
                 \/ HasTok(tokens, {"MMM", "MMMM"}) /\ textOk /\ v.m <= 12
                 \/ ~HasTok(tokens, {"M", "MM", "MMM", "MMMM"}) /\ v.m = tpl.m
  IN  /\ yearOk /\ monthOk
      /\ (HasTok(tokens, {"d", "dd"}) \/ v.d = tpl.d)
      /\ (HasTok(tokens, {"c"}) \/ v.cal = tpl.cal)
      \* text fields that cannot be relied on make no promise
      /\ (HasTok(tokens, {"MMM", "MMMM", "ddd", "dddd", "g", "gg"}) => textOk)
AnnualRepresentable(tokens, v, tpl, textOk) ==
  /\ (HasTok(tokens, {"M", "MM"}) \/ (HasTok(tokens, {"MMM", "MMMM"}) /\ textOk) \/ (~HasTok(tokens, {"M", "MM", "MMM", "MMMM"}) /\ v.m = tpl.m))
  /\ (HasTok(tokens, {"d", "dd"}) \/ v.d = tpl.d)
  /\ (HasTok(tokens, {"MMM", "MMMM"}) => textOk)

\* ---- duration: v = [neg, days, h, mi, s, n] (magnitude decomposed; neg = TRUE for negative durations) -----------
\* D = days; H / M / S = *total* hours / minutes / seconds (they absorb every coarser unit); h / m / s = the partial
\* fields.  A value is representable when every non-zero field is captured, at most one total field is used,
\* and a sign field exists for negative values.
DurationRepresentable(tokens, v) ==
  LET d == HasTok(tokens, {"D", "DD"})  tH == HasTok(tokens, {"H", "HH"})  tM == HasTok(tokens, {"M", "MM"})  tS == HasTok(tokens, {"S", "SS"})
      ph == HasTok(tokens, {"h", "hh"})  pm == HasTok(tokens, {"m", "mm"})  ps == HasTok(tokens, {"s", "ss"})
      totals == (IF d THEN 1 ELSE 0) + (IF tH THEN 1 ELSE 0) + (IF tM THEN 1 ELSE 0) + (IF tS THEN 1 ELSE 0)
  IN  /\ totals <= 1
      /\ ~(tH /\ ph) /\ ~(tM /\ (pm \/ ph)) /\ ~(tS /\ (ps \/ pm \/ ph))
      /\ (d \/ tH \/ tM \/ tS \/ v.days = 0)
      /\ (tH \/ ph \/ tM \/ tS \/ v.h = 0)
      /\ (tM \/ pm \/ tS \/ v.mi = 0)
      /\ (tS \/ ps \/ v.s = 0)
      /\ v.n % Pow10(9 - MaxFrac(tokens)) = 0
      /\ (HasTok(tokens, {"+", "-"}) \/ ~v.neg)
\* a duration pattern whose fields do not overlap (a total field together with a partial field of a coarser or equal
\* unit prints the same time twice; parsing adds both, so such patterns make no re-format promise either)
DurationNonRedundant(tokens) ==
  LET d == HasTok(tokens, {"D", "DD"})  tH == HasTok(tokens, {"H", "HH"})  tM == HasTok(tokens, {"M", "MM"})  tS == HasTok(tokens, {"S", "SS"})
      ph == HasTok(tokens, {"h", "hh"})  pm == HasTok(tokens, {"m", "mm"})  ps == HasTok(tokens, {"s", "ss"})
  IN  /\ (IF d THEN 1 ELSE 0) + (IF tH THEN 1 ELSE 0) + (IF tM THEN 1 ELSE 0) + (IF tS THEN 1 ELSE 0) <= 1
      /\ ~(tH /\ ph) /\ ~(tM /\ (pm \/ ph)) /\ ~(tS /\ (ps \/ pm \/ ph))
DurationVocab == {"D", "DD", "H", "HH", "h", "hh", "M", "MM", "m", "mm", "S", "SS", "s", "ss", "+", "-", ":", ".", " ", "'d'", "'.'", "\\.",
                  "fff", "ffffff", "fffffffff", "FFF", "FFFFFFFFF", ".fff", ".FFF", ".FFFFFFFFF"} \cup AllFrac

\* tokens outside the vocabulary the spec gives a meaning to make no round-trip promise
Understood(tokens, vocab) == \A i \in 1..Len(tokens) : tokens[i] \in vocab
TimeVocab == {"H", "HH", "h", "hh", "m", "mm", "s", "ss", "t", "tt", ":", ".", " ", "'at'", "\\h", "-", "/", "'T'", ",", "'.'", "\\."}
             \cup AllFrac
OffsetVocab == {"+", "-", "H", "HH", "m", "mm", "s", "ss", ":", "'x'", "\\:", " "}
DateVocab == {"yyyy", "yy", "uuuu", "uuu", "uu", "u", "M", "MM", "MMM", "MMMM", "d", "dd", "ddd", "dddd", "g", "gg", "c", "/", "-", " ", "'of'", ",", "\\d", "'T'", ":", "."}
Numeric == {"H", "HH", "h", "hh", "m", "mm", "s", "ss", "yyyy", "uuuu", "uuu", "uu", "u", "M", "MM", "d", "dd", "D", "DD", "S", "SS", "y", "yy"}
           \cup BareFrac
\* no two digit-producing fields touch (a fraction introduced by its own '.' or ';' is delimited by it)
\* an optional fraction (F-family) may print nothing, and with ';' it accepts '.' or ',' when parsing: it must not be
\* followed by a digit field or by a literal it could mistake for its own separator
OptFrac == UNION {{Rep("F", k), "." \o Rep("F", k), ";" \o Rep("F", k)} : k \in 1..9}
Delimited(tokens) ==
  /\ \A i \in 1..(Len(tokens) - 1) : ~(tokens[i] \in Numeric /\ tokens[i + 1] \in Numeric)
  /\ \A i \in 1..(Len(tokens) - 1) : tokens[i] \in OptFrac =>
        tokens[i + 1] \notin (Numeric \cup AllFrac \cup {".", ",", ";", "'.'", "\\."})
  /\ \A i \in 2..Len(tokens) : tokens[i] \in BareFrac => tokens[i - 1] \notin Numeric
  /\ \A i \in 1..(Len(tokens) - 1) : FracDigits(tokens[i]) > 0 => tokens[i + 1] \notin Numeric
\* in offset patterns "-" is the negative-only sign: it prints nothing for non-negative values, so it delimits nothing
DelimitedFor(type, tokens) == IF type = "Offset" THEN Delimited(SelectSeq(tokens, LAMBDA t : t # "-")) ELSE Delimited(tokens)
=============================================================================
