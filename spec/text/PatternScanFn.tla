----------------------------- MODULE PatternScanFn -----------------------------
(* The scanner of PatternScan.tla as a function on code-point sequences (used by the  *)
(* trace validator): same modes, same outcomes.                                        *)
EXTENDS Integers, Sequences
Quote1 == 39
Quote2 == 34
Backslash == 92
Percent == 37
NormalMode(c) == IF c = Quote1 THEN "single" ELSE IF c = Quote2 THEN "double" ELSE IF c = Backslash THEN "escape" ELSE IF c = Percent THEN "percent" ELSE "normal"
RECURSIVE ScanFrom(_, _, _)
ScanFrom(t, pos, mode) ==
  IF pos > Len(t)
  THEN CASE mode = "normal" -> "Ok"
         [] mode \in {"single", "double"} -> "Error_missing_end_quote"
         [] mode \in {"escape", "single_escape", "double_escape"} -> "Error_escape_at_end"
         [] mode = "percent" -> "Error_percent_at_end"
  ELSE LET c == t[pos] IN
       CASE mode = "normal" -> ScanFrom(t, pos + 1, NormalMode(c))
         [] mode = "single" -> ScanFrom(t, pos + 1, IF c = Quote1 THEN "normal" ELSE IF c = Backslash THEN "single_escape" ELSE "single")
         [] mode = "double" -> ScanFrom(t, pos + 1, IF c = Quote2 THEN "normal" ELSE IF c = Backslash THEN "double_escape" ELSE "double")
         [] mode = "single_escape" -> ScanFrom(t, pos + 1, "single")
         [] mode = "double_escape" -> ScanFrom(t, pos + 1, "double")
         [] mode = "escape" -> ScanFrom(t, pos + 1, "normal")
         [] mode = "percent" -> IF c = Percent THEN "Error_percent_doubled" ELSE ScanFrom(t, pos + 1, NormalMode(c))
Scan(t) == ScanFrom(t, 1, "normal")
=============================================================================
