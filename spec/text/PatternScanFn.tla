----------------------------- MODULE PatternScanFn -----------------------------
(* The scanner of PatternScan.tla as a function on code-point sequences (used by the  *)
(* trace validator): same modes, same outcomes.                                        *)
EXTENDS Integers, Sequences
Quote1 == 39
Quote2 == 34
Backslash == 92
Percent == 37
RECURSIVE ScanFrom(_, _, _)
ScanFrom(t, pos, mode) ==
  IF pos > Len(t)
  THEN CASE mode = "normal" -> "Ok"
         [] mode \in {"single", "double", "single_escape", "double_escape"} -> "Error_missing_end_quote"
         [] mode = "escape" -> "Error_escape_at_end"
         [] mode = "percent" -> "Error_percent_at_end"
  ELSE LET c == t[pos] IN
       CASE mode = "normal" ->
              (IF c = Quote1 THEN ScanFrom(t, pos + 1, "single")
               ELSE IF c = Quote2 THEN ScanFrom(t, pos + 1, "double")
               ELSE IF c = Backslash THEN ScanFrom(t, pos + 1, "escape")
               ELSE IF c = Percent THEN (IF pos = 1 THEN ScanFrom(t, pos + 1, "percent") ELSE "Error_percent_not_at_start")
               ELSE ScanFrom(t, pos + 1, "normal"))
         [] mode = "single" -> ScanFrom(t, pos + 1, IF c = Quote1 THEN "normal" ELSE IF c = Backslash THEN "single_escape" ELSE "single")
         [] mode = "double" -> ScanFrom(t, pos + 1, IF c = Quote2 THEN "normal" ELSE IF c = Backslash THEN "double_escape" ELSE "double")
         [] mode = "single_escape" -> ScanFrom(t, pos + 1, "single")
         [] mode = "double_escape" -> ScanFrom(t, pos + 1, "double")
         [] mode = "escape" -> ScanFrom(t, pos + 1, "normal")
         [] mode = "percent" -> IF c = Percent THEN "Error_percent_doubled" ELSE ScanFrom(t, pos + 1, "normal")
Scan(t) == ScanFrom(t, 1, "normal")
=============================================================================
