---------------------------- MODULE PatternFormat ----------------------------
(* A reference formatter: the text (as code points) a custom pattern, given as a      *)
(* sequence of tokens, produces for a value, as the pattern documentation states it.    *)
(* Numeric fields, fractions, the 12/24-hour clock with designators, signs, separators   *)
(* from the culture and literals; name fields (months, days, eras, calendar ids) are      *)
(* outside it.  MC_PatternSemantics checks the round-trip law on THIS formatter, and       *)
(* Trace_Text compares the texts the real patterns produced with it.                        *)
EXTENDS PatternSemantics

\* decimal digits of x >= 0, left-padded with '0' to at least w characters
RECURSIVE DigitsOf(_)
DigitsOf(x) == IF x < 10 THEN <<48 + x>> ELSE DigitsOf(x \div 10) \o <<48 + (x % 10)>>
RECURSIVE Zeros(_)
Zeros(k) == IF k <= 0 THEN <<>> ELSE <<48>> \o Zeros(k - 1)
Pad(x, w) == LET d == DigitsOf(x) IN Zeros(w - Len(d)) \o d
\* a possibly negative number: '-' then the padded magnitude
SPad(x, w) == IF x < 0 THEN <<45>> \o Pad(-x, w) ELSE Pad(x, w)

\* the first k of the nine fraction digits of n nanoseconds; for 'F' trailing zeros are dropped
FracFixed(n, k) == Pad(n \div Pow10(9 - k), k)
RECURSIVE DropZeros(_)
DropZeros(s) == IF Len(s) > 0 /\ s[Len(s)] = 48 THEN DropZeros(SubSeq(s, 1, Len(s) - 1)) ELSE s
FracOpt(n, k) == DropZeros(FracFixed(n, k))

FixedFrac == {Rep("f", k) : k \in 1..9}
OptBare == {Rep("F", k) : k \in 1..9}
DotFixed == {"." \o Rep("f", k) : k \in 1..9} \cup {";" \o Rep("f", k) : k \in 1..9}
DotOpt == {"." \o Rep("F", k) : k \in 1..9} \cup {";" \o Rep("F", k) : k \in 1..9}

\* literal tokens of the generated patterns and the text they stand for
LitTable == [t \in {" ", "-", ",", ".", "'at'", "\\h", "'T'", "'of'", "'.'", "\\.", "'d'", "'x'", "\\:", "\\d"} |->
               CASE t = " " -> <<32>> [] t = "-" -> <<45>> [] t = "," -> <<44>> [] t = "." -> <<46>> [] t = "'at'" -> <<97, 116>>
                 [] t = "\\h" -> <<104>> [] t = "'T'" -> <<84>> [] t = "'of'" -> <<111, 102>> [] t = "'.'" -> <<46>> [] t = "\\." -> <<46>>
                 [] t = "'d'" -> <<100>> [] t = "'x'" -> <<120>> [] t = "\\:" -> <<58>> [] t = "\\d" -> <<100>>]

Hour12(h) == IF h % 12 = 0 THEN 12 ELSE h % 12

\* ---- time-of-day and date fields: v has h, mi, s, n and/or y, yoe, m, d; c = [tsep, dsep, am, pm] (code points) ----
FmtField(t, v, c) ==
  CASE t = "HH" -> Pad(v.h, 2) [] t = "H" -> Pad(v.h, 1)
    [] t = "hh" -> Pad(Hour12(v.h), 2) [] t = "h" -> Pad(Hour12(v.h), 1)
    [] t = "mm" -> Pad(v.mi, 2) [] t = "m" -> Pad(v.mi, 1)
    [] t = "ss" -> Pad(v.s, 2) [] t = "s" -> Pad(v.s, 1)
    [] t \in FixedFrac -> FracFixed(v.n, FracDigits(t))
    [] t \in OptBare -> FracOpt(v.n, FracDigits(t))
    [] t \in DotFixed -> <<46>> \o FracFixed(v.n, FracDigits(t))
    \* an optional fraction owns its period: nothing at all when there are no digits to print
    [] t \in DotOpt -> LET d == FracOpt(v.n, FracDigits(t)) IN IF Len(d) = 0 THEN <<>> ELSE <<46>> \o d
    [] t = "tt" -> IF v.h < 12 THEN c.am ELSE c.pm
    [] t = "t" -> LET s == IF v.h < 12 THEN c.am ELSE c.pm IN IF Len(s) = 0 THEN <<>> ELSE <<s[1]>>
    [] t = ":" -> c.tsep [] t = "/" -> c.dsep
    [] t = "yyyy" -> Pad(v.yoe, 4) [] t = "yy" -> Pad(v.yoe % 100, 2)
    [] t = "uuuu" -> SPad(v.y, 4) [] t = "uuu" -> SPad(v.y, 3) [] t = "uu" -> SPad(v.y, 2) [] t = "u" -> SPad(v.y, 1)
    [] t = "MM" -> Pad(v.m, 2) [] t = "M" -> Pad(v.m, 1)
    [] t = "dd" -> Pad(v.d, 2) [] t = "d" -> Pad(v.d, 1)
    \* name fields print the culture's names (c.names, given with the event): a month in its genitive form exactly when the pattern
    \* also has a day-of-month field, a day of the week by its number (Monday = 1), the calendar by its id
    [] t = "MMMM" -> IF c.hasDay THEN c.names.longGen[v.m] ELSE c.names.long[v.m]
    [] t = "MMM" -> IF c.hasDay THEN c.names.shortGen[v.m] ELSE c.names.short[v.m]
    [] t = "dddd" -> c.names.longDay[v.dow] [] t = "ddd" -> c.names.shortDay[v.dow]
    [] t = "c" -> c.names.cal
    [] OTHER -> LitTable[t]
NameVocab == {"MMMM", "MMM", "dddd", "ddd", "c"}
FieldVocab == {"HH", "H", "hh", "h", "mm", "m", "ss", "s", "tt", "t", ":", "/", "yyyy", "yy", "uuuu", "uuu", "uu", "u", "MM", "M", "dd", "d"}
                \cup FixedFrac \cup OptBare \cup DotFixed \cup DotOpt \cup DOMAIN LitTable
TimeOnly == {"HH", "H", "hh", "h", "mm", "m", "ss", "s", "tt", "t"} \cup FixedFrac \cup OptBare \cup DotFixed \cup DotOpt
DateOnly == {"yyyy", "yy", "uuuu", "uuu", "uu", "u", "MM", "M", "dd", "d"}

\* (a period written directly before a run of F is that fraction's own period, whichever way the tokens were cut)
RECURSIVE FormatFields(_, _, _, _)
FormatFields(tokens, i, v, c) ==
  IF i > Len(tokens) THEN <<>>
  ELSE IF tokens[i] = "." /\ i < Len(tokens) /\ tokens[i + 1] \in OptBare
       THEN FmtField("." \o tokens[i + 1], v, c) \o FormatFields(tokens, i + 2, v, c)
       ELSE FmtField(tokens[i], v, c) \o FormatFields(tokens, i + 1, v, c)

\* ---- offsets: v.sec; '+' always prints a sign, '-' only for negative values; fields are of the magnitude ----
FmtOffset(t, sec, c) ==
  LET a == IF sec < 0 THEN -sec ELSE sec IN
  CASE t = "+" -> IF sec < 0 THEN <<45>> ELSE <<43>>
    [] t = "-" -> IF sec < 0 THEN <<45>> ELSE <<>>
    [] t = "HH" -> Pad(a \div 3600, 2) [] t = "H" -> Pad(a \div 3600, 1)
    [] t = "mm" -> Pad((a % 3600) \div 60, 2) [] t = "m" -> Pad((a % 3600) \div 60, 1)
    [] t = "ss" -> Pad(a % 60, 2) [] t = "s" -> Pad(a % 60, 1)
    [] t = ":" -> c.tsep
    [] OTHER -> LitTable[t]
OffsetFmtVocab == {"+", "-", "HH", "H", "mm", "m", "ss", "s", ":", "'x'", "\\:", " "}
RECURSIVE FormatOffset(_, _, _, _)
FormatOffset(tokens, i, sec, c) == IF i > Len(tokens) THEN <<>> ELSE FmtOffset(tokens[i], sec, c) \o FormatOffset(tokens, i + 1, sec, c)

\* ---- durations: p = [neg, days, h, mi, s, n] of the magnitude; partial fields only (the "total" fields H, M, S of long durations
\*      exceed TLC's integers); signs as for offsets ----
FmtDuration(t, p, c) ==
  CASE t = "+" -> IF p.neg THEN <<45>> ELSE <<43>>
    [] t = "-" -> IF p.neg THEN <<45>> ELSE <<>>
    [] t = "DD" -> Pad(p.days, 2) [] t = "D" -> Pad(p.days, 1)
    [] t = "hh" -> Pad(p.h, 2) [] t = "h" -> Pad(p.h, 1)
    [] t = "mm" -> Pad(p.mi, 2) [] t = "m" -> Pad(p.mi, 1)
    [] t = "ss" -> Pad(p.s, 2) [] t = "s" -> Pad(p.s, 1)
    [] t \in FixedFrac \cup OptBare \cup DotFixed \cup DotOpt -> FmtField(t, p, c)
    [] t = ":" -> c.tsep
    [] OTHER -> LitTable[t]
DurationFmtVocab == {"+", "-", "DD", "D", "hh", "h", "mm", "m", "ss", "s", ":", ".", " ", "'d'", "'.'", "\\."} \cup FixedFrac \cup OptBare \cup DotFixed \cup DotOpt
RECURSIVE FormatDuration(_, _, _, _)
FormatDuration(tokens, i, p, c) ==
  IF i > Len(tokens) THEN <<>>
  ELSE IF tokens[i] = "." /\ i < Len(tokens) /\ tokens[i + 1] \in OptBare
       THEN FmtDuration("." \o tokens[i + 1], p, c) \o FormatDuration(tokens, i + 2, p, c)
       ELSE FmtDuration(tokens[i], p, c) \o FormatDuration(tokens, i + 1, p, c)
=============================================================================
