------------------------------ MODULE TextProtocol ------------------------------
(* Protocol of the text API (property C08):                                          *)
(*    Create(pattern text)  -> Created | InvalidPattern           (nothing else)       *)
(*    Parse(created, text)  -> Success(valid value) | Failure(error available)          *)
(* No exception escapes Parse; Create raises only the documented invalid-pattern error. *)
EXTENDS Integers
VARIABLES st
Init == st = "NoPattern"
Create(o) == st = "NoPattern" /\ o \in {"ok", "InvalidPatternError"} /\ st' = (IF o = "ok" THEN "Created" ELSE "NoPattern")
Parse(o) == st = "Created" /\ o \in {"success", "failure"} /\ st' = st
Next == \E o \in {"ok", "InvalidPatternError", "success", "failure"} : Create(o) \/ Parse(o)
Spec == Init /\ [][Next]_st
TypeOK == st \in {"NoPattern", "Created"}
=============================================================================
