---------------------------- MODULE PatternGrammar ----------------------------
(* The grammar of custom pattern texts at field level, for the seven pattern types      *)
(* (embedded patterns excepted): which texts are patterns and why the others are not.   *)
(*  A pattern text is a sequence of code points; the        *)
(* outcome is "Ok" or the name of the error.  The quoting layer is the one of            *)
(* PatternScan.tla (quotes, backslash escapes, the percent pseudo-escape); on top of it   *)
(* every unquoted ASCII letter must be a field letter of the type, repeated at most its    *)
(* maximum count, each field at most once, and the combination of fields must make sense.   *)
EXTENDS Integers, Sequences, FiniteSets

Q1 == 39
Q2 == 34
BS == 92
PCT == 37
IsLetter(c) == (c >= 65 /\ c <= 90) \/ (c >= 97 /\ c <= 122)
Cp(s) == CASE s = "h" -> 104 [] s = "H" -> 72 [] s = "m" -> 109 [] s = "s" -> 115 [] s = "f" -> 102 [] s = "F" -> 70 [] s = "t" -> 116
           [] s = "y" -> 121 [] s = "u" -> 117 [] s = "M" -> 77 [] s = "d" -> 100 [] s = "c" -> 99 [] s = "g" -> 103
           [] s = "." -> 46 [] s = ";" -> 59 [] s = "<" -> 60 [] s = ">" -> 62

RECURSIVE RunLen(_, _, _)
RunLen(t, pos, c) == IF pos <= Len(t) /\ t[pos] = c THEN 1 + RunLen(t, pos + 1, c) ELSE 0

\* the position after the closing quote of a literal opened just before pos; 0: no closing quote; -1: the text ends on a backslash
RECURSIVE QuoteEnd(_, _, _)
QuoteEnd(t, pos, q) ==
  IF pos > Len(t) THEN 0
  ELSE IF t[pos] = q THEN pos + 1
  ELSE IF t[pos] = BS THEN (IF pos + 1 > Len(t) THEN -1 ELSE QuoteEnd(t, pos + 2, q))
  ELSE QuoteEnd(t, pos + 1, q)

\* what an unquoted character stands for, per type:
\*   [kind |-> "run", max, field]   a field letter: a run of up to max of it is one field ("" = a count that means nothing)
\*   [kind |-> "total", max, field] a capital duration field: at most one of them in a pattern
\*   [kind |-> "single", field]     every occurrence is the field (no repeat count)
\*   [kind |-> "literal"]           a letter that is just itself
\*   [kind |-> "error", name]       a letter that is refused by name
\*   [kind |-> "none"]              no handler: letters and angle brackets are refused, anything else is a literal
Run(m, f) == [kind |-> "run", max |-> m, field |-> f]
None == [kind |-> "none"]
TimeLetter(c, n) ==
  CASE c = Cp("h") -> Run(2, "hours12") [] c = Cp("H") -> Run(2, "hours24") [] c = Cp("m") -> Run(2, "minutes") [] c = Cp("s") -> Run(2, "seconds")
    [] c = Cp("f") -> Run(9, "fraction") [] c = Cp("F") -> Run(9, "fraction") [] c = Cp("t") -> Run(2, "ampm")
    [] OTHER -> None
DateLetter(c, n) ==
  CASE c = Cp("y") -> Run(4, IF n \in {2, 4} THEN "year_of_era" ELSE "")
    [] c = Cp("u") -> Run(4, "year")
    [] c = Cp("M") -> Run(4, IF n <= 2 THEN "month_number" ELSE "month_text")
    [] c = Cp("d") -> Run(4, IF n <= 2 THEN "day_of_month" ELSE "day_of_week")
    [] c = Cp("c") -> [kind |-> "single", field |-> "calendar"]
    [] c = Cp("g") -> Run(2, "era")
    [] OTHER -> None
Handler(type, c, n) ==
  CASE type = "LocalTime" -> TimeLetter(c, n)
    [] type = "LocalDate" -> DateLetter(c, n)
    [] type \in {"LocalDateTime", "Instant"} ->
         IF c = 84 THEN [kind |-> "literal"]                                     \* T
         ELSE IF TimeLetter(c, n).kind # "none" THEN TimeLetter(c, n) ELSE DateLetter(c, n)
    [] type = "AnnualDate" ->
         (CASE c = Cp("M") -> Run(4, IF n <= 2 THEN "month_number" ELSE "month_text") [] c = Cp("d") -> Run(2, "day_of_month") [] OTHER -> None)
    [] type = "Offset" ->
         (CASE c = Cp("H") -> Run(2, "hours24") [] c = Cp("m") -> Run(2, "minutes") [] c = Cp("s") -> Run(2, "seconds")
            [] c = 43 \/ c = 45 -> [kind |-> "single", field |-> "sign"]
            [] c = Cp("h") -> [kind |-> "error", name |-> "Error_hour12_not_supported"]
            [] c = 90 -> [kind |-> "error", name |-> "Error_z_prefix_not_at_start"]
            [] OTHER -> None)
    [] type = "Duration" ->
         (CASE c = 68 -> [kind |-> "total", max |-> 10, field |-> "days"]                 \* D
            [] c = Cp("H") -> [kind |-> "total", max |-> 14, field |-> "hours24"] [] c = Cp("h") -> Run(2, "hours24")
            [] c = Cp("M") -> [kind |-> "total", max |-> 14, field |-> "minutes"] [] c = Cp("m") -> Run(2, "minutes")
            [] c = 83 -> [kind |-> "total", max |-> 14, field |-> "seconds"] [] c = Cp("s") -> Run(2, "seconds")
            [] c = Cp("f") -> Run(9, "fraction") [] c = Cp("F") -> Run(9, "fraction")
            [] c = 43 \/ c = 45 -> [kind |-> "single", field |-> "sign"]
            [] OTHER -> None)
\* types in whose patterns a period (and a semicolon) directly before a run of F is that fraction's own separator
PeriodOwnsFraction(type, c) == (c = Cp(".") /\ type \in {"LocalTime", "LocalDateTime", "Instant", "Duration"})
                               \/ (c = Cp(";") /\ type \in {"LocalTime", "LocalDateTime", "Instant"})

FieldsMakeSense(used) ==
  IF "era" \in used /\ "year_of_era" \notin used THEN "Error_era_without_year_of_era"
  ELSE IF "era" \in used /\ "calendar" \in used THEN "Error_calendar_and_era"
  ELSE "Ok"

RECURSIVE GrammarFrom(_, _, _, _)
GrammarFrom(type, t, pos, used) ==
  IF pos > Len(t) THEN FieldsMakeSense(used)
  ELSE LET c == t[pos] IN
    IF c = Q1 \/ c = Q2 THEN
         LET e == QuoteEnd(t, pos + 1, c) IN
         IF e = 0 THEN "Error_missing_end_quote" ELSE IF e = -1 THEN "Error_escape_at_end" ELSE GrammarFrom(type, t, e, used)
    ELSE IF c = BS THEN (IF pos + 1 > Len(t) THEN "Error_escape_at_end" ELSE GrammarFrom(type, t, pos + 2, used))
    ELSE IF c = PCT THEN (IF pos + 1 > Len(t) THEN "Error_percent_at_end"
                          ELSE IF t[pos + 1] = PCT THEN "Error_percent_doubled" ELSE GrammarFrom(type, t, pos + 1, used))
    \* a period or semicolon directly before a run of F belongs to that optional fraction
    ELSE IF PeriodOwnsFraction(type, c) /\ pos + 1 <= Len(t) /\ t[pos + 1] = Cp("F") THEN
         LET n == RunLen(t, pos + 1, Cp("F")) IN
         IF n > 9 THEN "Error_repeat_count_exceeded"
         ELSE IF "fraction" \in used THEN "Error_repeated_field"
         ELSE GrammarFrom(type, t, pos + 1 + n, used \cup {"fraction"})
    ELSE LET n == RunLen(t, pos, c)
             h == Handler(type, c, n) IN
         CASE h.kind = "none" -> (IF IsLetter(c) \/ c = Cp("<") \/ c = Cp(">") THEN "Error_unquoted_literal" ELSE GrammarFrom(type, t, pos + 1, used))
           [] h.kind = "literal" -> GrammarFrom(type, t, pos + 1, used)
           [] h.kind = "error" -> h.name
           [] h.kind = "single" -> (IF h.field \in used THEN "Error_repeated_field" ELSE GrammarFrom(type, t, pos + 1, used \cup {h.field}))
           [] h.kind = "total" -> (IF n > h.max THEN "Error_repeat_count_exceeded"
                                   ELSE IF "total" \in used THEN "Error_multiple_total_fields"
                                   ELSE IF h.field \in used THEN "Error_repeated_field"
                                   ELSE GrammarFrom(type, t, pos + n, used \cup {h.field, "total"}))
           [] h.kind = "run" -> (IF n > h.max THEN "Error_repeat_count_exceeded"
                                 ELSE IF h.field = "" THEN "Error_invalid_repeat_count"
                                 ELSE IF h.field \in used THEN "Error_repeated_field"
                                 ELSE GrammarFrom(type, t, pos + n, used \cup {h.field}))

\* single characters are standard patterns: the culture-independent ones are known, the culture's own expand to a custom text
StandardLetters(type) == CASE type = "LocalTime" -> {111, 79, 116, 84, 114}                       \* o O t T r
                           [] type = "LocalDate" -> {82, 114, 100, 68, 77}                          \* R r d D M
                           [] type = "AnnualDate" -> {71}                                            \* G
                           [] type = "LocalDateTime" -> {111, 79, 114, 82, 115, 83, 102, 70, 103, 71} \* o O r R s S f F g G
                           [] type = "Instant" -> {103}                                              \* g
                           [] type = "Offset" -> {103, 71, 105, 73, 108, 109, 115, 76, 77, 83}       \* g G i I l m s L M S
                           [] type = "Duration" -> {111, 106}                                         \* o j
Grammar(type, t) ==
  IF Len(t) = 0 THEN "Error_empty"
  ELSE IF Len(t) = 1 THEN (IF t[1] \in StandardLetters(type) THEN "Ok" ELSE "Error_unknown_standard_pattern")
  \* an offset pattern may begin with Z ("Z" for zero, else the rest of the pattern); a Z-prefixed pattern must have a rest
  ELSE IF type = "Offset" /\ t = <<PCT, 90>> THEN "Error_empty_z_prefixed_pattern"
  ELSE IF type = "Offset" /\ t[1] = 90 THEN GrammarFrom(type, t, 2, {})
  ELSE GrammarFrom(type, t, 1, {})
GrammarTypes == {"LocalTime", "LocalDate", "AnnualDate", "LocalDateTime", "Instant", "Offset", "Duration"}
\* (embedded patterns - l<...>, ld<...>, lt<...> in date-time patterns - are outside this grammar)
Covered(type, t) == type \in GrammarTypes /\ (type \in {"LocalDateTime", "Instant"} => \A i \in 1..Len(t) : t[i] # 108)
=============================================================================
