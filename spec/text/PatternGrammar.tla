---------------------------- MODULE PatternGrammar ----------------------------
(* The grammar of custom pattern texts at field level, for the types whose handler    *)
(* tables are plain (local time, local date, annual date): which texts are patterns    *)
(* and why the others are not.  A pattern text is a sequence of code points; the        *)
(* outcome is "Ok" or the name of the error.  The quoting layer is the one of            *)
(* PatternScan.tla (quotes, backslash escapes, the percent pseudo-escape); on top of it   *)
(* every unquoted ASCII letter must be a field letter of the type, repeated at most its    *)
(* maximum count, each field at most once, and the combination of fields must make sense.   *)
EXTENDS Integers, Sequences, FiniteSets

Q1 == 39
Q2 == 34
BS == 92
PCT == 37
IsLetter(c) == (c >= 65 /\ c <= 90) \/ (c >= 97 /\ c <= 122)
Cp(s) == CASE s = "h" -> 104 [] s = "H" -> 72 [] s = "m" -> 109 [] s = "s" -> 115 [] s = "f" -> 102 [] s = "F" -> 70 [] s = "t" -> 116
           [] s = "y" -> 121 [] s = "u" -> 117 [] s = "M" -> 77 [] s = "d" -> 100 [] s = "c" -> 99 [] s = "g" -> 103
           [] s = "." -> 46 [] s = ";" -> 59 [] s = "<" -> 60 [] s = ">" -> 62

RECURSIVE RunLen(_, _, _)
RunLen(t, pos, c) == IF pos <= Len(t) /\ t[pos] = c THEN 1 + RunLen(t, pos + 1, c) ELSE 0

\* the position after the closing quote of a literal opened just before pos; 0: no closing quote; -1: the text ends on a backslash
RECURSIVE QuoteEnd(_, _, _)
QuoteEnd(t, pos, q) ==
  IF pos > Len(t) THEN 0
  ELSE IF t[pos] = q THEN pos + 1
  ELSE IF t[pos] = BS THEN (IF pos + 1 > Len(t) THEN -1 ELSE QuoteEnd(t, pos + 2, q))
  ELSE QuoteEnd(t, pos + 1, q)

\* field letters per type: [max |-> maximal repeat count, field |-> the field a run of n letters stands for ("" = invalid count)]
NoHandler == [max |-> 0]
Handler(type, c, n) ==
  IF type \in {"LocalTime"} THEN
       CASE c = Cp("h") -> [max |-> 2, field |-> "hours12"] [] c = Cp("H") -> [max |-> 2, field |-> "hours24"]
         [] c = Cp("m") -> [max |-> 2, field |-> "minutes"] [] c = Cp("s") -> [max |-> 2, field |-> "seconds"]
         [] c = Cp("f") -> [max |-> 9, field |-> "fraction"] [] c = Cp("F") -> [max |-> 9, field |-> "fraction"]
         [] c = Cp("t") -> [max |-> 2, field |-> "ampm"]
         [] OTHER -> NoHandler
  ELSE IF type = "LocalDate" THEN
       CASE c = Cp("y") -> [max |-> 4, field |-> IF n \in {2, 4} THEN "year_of_era" ELSE ""]
         [] c = Cp("u") -> [max |-> 4, field |-> "year"]
         [] c = Cp("M") -> [max |-> 4, field |-> IF n <= 2 THEN "month_number" ELSE "month_text"]
         [] c = Cp("d") -> [max |-> 4, field |-> IF n <= 2 THEN "day_of_month" ELSE "day_of_week"]
         [] c = Cp("c") -> [max |-> 1000, field |-> "calendar"]       \* (no repeat count: a second c is a repeated field)
         [] c = Cp("g") -> [max |-> 2, field |-> "era"]
         [] OTHER -> NoHandler
  ELSE \* AnnualDate
       CASE c = Cp("M") -> [max |-> 4, field |-> IF n <= 2 THEN "month_number" ELSE "month_text"]
         [] c = Cp("d") -> [max |-> 2, field |-> "day_of_month"]
         [] OTHER -> NoHandler

FieldsMakeSense(used) ==
  IF "era" \in used /\ "year_of_era" \notin used THEN "Error_era_without_year_of_era"
  ELSE IF "era" \in used /\ "calendar" \in used THEN "Error_calendar_and_era"
  ELSE "Ok"

RECURSIVE GrammarFrom(_, _, _, _)
GrammarFrom(type, t, pos, used) ==
  IF pos > Len(t) THEN FieldsMakeSense(used)
  ELSE LET c == t[pos] IN
    IF c = Q1 \/ c = Q2 THEN
         LET e == QuoteEnd(t, pos + 1, c) IN
         IF e = 0 THEN "Error_missing_end_quote" ELSE IF e = -1 THEN "Error_escape_at_end" ELSE GrammarFrom(type, t, e, used)
    ELSE IF c = BS THEN (IF pos + 1 > Len(t) THEN "Error_escape_at_end" ELSE GrammarFrom(type, t, pos + 2, used))
    ELSE IF c = PCT THEN (IF pos + 1 > Len(t) THEN "Error_percent_at_end"
                          ELSE IF t[pos + 1] = PCT THEN "Error_percent_doubled" ELSE GrammarFrom(type, t, pos + 1, used))
    \* a period or semicolon directly before a run of F belongs to that optional fraction
    ELSE IF type = "LocalTime" /\ (c = Cp(".") \/ c = Cp(";")) /\ pos + 1 <= Len(t) /\ t[pos + 1] = Cp("F") THEN
         LET n == RunLen(t, pos + 1, Cp("F")) IN
         IF n > 9 THEN "Error_repeat_count_exceeded"
         ELSE IF "fraction" \in used THEN "Error_repeated_field"
         ELSE GrammarFrom(type, t, pos + 1 + n, used \cup {"fraction"})
    ELSE LET n == RunLen(t, pos, c)
             h == Handler(type, c, n) IN
         IF h.max = 0 THEN (IF IsLetter(c) \/ c = Cp("<") \/ c = Cp(">") THEN "Error_unquoted_literal" ELSE GrammarFrom(type, t, pos + 1, used))
         ELSE IF c = Cp("c") THEN (IF "calendar" \in used THEN "Error_repeated_field" ELSE GrammarFrom(type, t, pos + 1, used \cup {"calendar"}))
         ELSE IF n > h.max THEN "Error_repeat_count_exceeded"
         ELSE IF h.field = "" THEN "Error_invalid_repeat_count"
         ELSE IF h.field \in used THEN "Error_repeated_field"
         ELSE GrammarFrom(type, t, pos + n, used \cup {h.field})

\* single characters are standard patterns: the culture-independent ones are known, the culture's own expand to a custom text
StandardLetters(type) == CASE type = "LocalTime" -> {111, 79, 116, 84, 114}       \* o O t T r
                           [] type = "LocalDate" -> {82, 114, 100, 68, 77}          \* R r d D M
                           [] type = "AnnualDate" -> {71}                            \* G
Grammar(type, t) ==
  IF Len(t) = 0 THEN "Error_empty"
  ELSE IF Len(t) = 1 THEN (IF t[1] \in StandardLetters(type) THEN "Ok" ELSE "Error_unknown_standard_pattern")
  ELSE GrammarFrom(type, t, 1, {})
GrammarTypes == {"LocalTime", "LocalDate", "AnnualDate"}
=============================================================================
