----------------------------- MODULE PatternParse -----------------------------
(* A reference parser for local-time patterns without designator fields, and for offset  *)
(* patterns: what a text parses to under a pattern text, as the documentation states it.   *)
(*   Tokens(t):      the pattern text cut into steps (PatternGrammar decides beforehand     *)
(*                   that it is a pattern): numeric fields with their widths, fractions,     *)
(*                   the optional fraction with its own separator, separators, literals.       *)
(*   Parse(t, x, c): every step consumes from the text x in turn; a numeric field reads        *)
(*                   greedily between its minimal and maximal number of ASCII digits and its      *)
(*                   value must lie in the field's range; everything must be consumed; the hour     *)
(*                   comes from H, else from h (with the template's half of the day), else from      *)
(*                   the template (midnight), and H and h must agree when both are there; the empty     *)
(*                   text is always refused.                                                             *)
(* The result is [ok, nod = <<second of day, nanosecond of second>>].                                   *)
EXTENDS PatternGrammar, PatternSemantics

IsDigit(ch) == ch >= 48 /\ ch <= 57

\* ---- the pattern text as a sequence of steps ----
RECURSIVE QuotedChars(_, _, _)      \* the characters of a quoted literal opened just before pos (a backslash escapes the next one)
QuotedChars(t, pos, q) ==
  IF pos > Len(t) \/ t[pos] = q THEN <<>>
  ELSE IF t[pos] = BS THEN <<[k |-> "lit", c |-> t[pos + 1]]>> \o QuotedChars(t, pos + 2, q)
  ELSE <<[k |-> "lit", c |-> t[pos]]>> \o QuotedChars(t, pos + 1, q)
\* (in offset patterns an unquoted + is the sign that is always written, an unquoted - the sign written for negative values only,
\*  and a period or semicolon is just itself)
RECURSIVE TokensFrom(_, _, _)
TokensFrom(typ, t, pos) ==
  IF pos > Len(t) THEN <<>>
  ELSE LET ch == t[pos] IN
    IF ch = Q1 \/ ch = Q2 THEN QuotedChars(t, pos + 1, ch) \o TokensFrom(typ, t, QuoteEnd(t, pos + 1, ch))
    ELSE IF ch = BS THEN <<[k |-> "lit", c |-> t[pos + 1]]>> \o TokensFrom(typ, t, pos + 2)
    ELSE IF ch = PCT THEN TokensFrom(typ, t, pos + 1)
    ELSE IF typ = "Offset" /\ (ch = 43 \/ ch = 45) THEN <<[k |-> "sign", always |-> (ch = 43)]>> \o TokensFrom(typ, t, pos + 1)
    ELSE IF typ # "Offset" /\ (ch = Cp(".") \/ ch = Cp(";")) /\ pos + 1 <= Len(t) /\ t[pos + 1] = Cp("F")
         THEN LET n == RunLen(t, pos + 1, Cp("F")) IN <<[k |-> "optfrac", n |-> n, comma |-> (ch = Cp(";"))]>> \o TokensFrom(typ, t, pos + 1 + n)
    ELSE IF typ # "Offset" /\ ch = Cp(";") THEN <<[k |-> "dotcomma"]>> \o TokensFrom(typ, t, pos + 1)
    ELSE IF ch = 58 THEN <<[k |-> "tsep"]>> \o TokensFrom(typ, t, pos + 1)
    ELSE IF ch \in (IF typ = "Offset" THEN {Cp("H"), Cp("m"), Cp("s")} ELSE {Cp("H"), Cp("h"), Cp("m"), Cp("s"), Cp("f"), Cp("F"), Cp("t")})
         THEN LET n == RunLen(t, pos, ch) IN <<[k |-> "field", c |-> ch, n |-> n]>> \o TokensFrom(typ, t, pos + n)
    ELSE <<[k |-> "lit", c |-> ch]>> \o TokensFrom(typ, t, pos + 1)
Tokens(t) == TokensFrom("LocalTime", t, 1)
\* patterns this parser speaks about: local-time patterns (by the grammar) without designator fields
Parsable(t) == Len(t) > 1 /\ Grammar("LocalTime", t) = "Ok" /\ \A i \in 1..Len(Tokens(t)) : Tokens(t)[i].k # "field" \/ Tokens(t)[i].c # Cp("t")

\* ---- reading digits ----
RECURSIVE DigitRun(_, _, _)          \* how many digits stand at pos, at most max
DigitRun(x, pos, max) == IF max = 0 \/ pos > Len(x) \/ ~IsDigit(x[pos]) THEN 0 ELSE 1 + DigitRun(x, pos + 1, max - 1)
RECURSIVE NumberAt(_, _, _)
NumberAt(x, pos, n) == IF n = 0 THEN 0 ELSE NumberAt(x, pos, n - 1) * 10 + (x[pos + n - 1] - 48)
StartsWith(x, pos, s) == pos + Len(s) - 1 <= Len(x) /\ \A i \in 1..Len(s) : x[pos + i - 1] = s[i]

Fail == [ok |-> FALSE]
\* acc: [h24, h12, mi, s, frac (nanoseconds), used]
RECURSIVE ParseFrom(_, _, _, _, _, _)
ParseFrom(toks, i, x, pos, acc, tsep) ==
  IF i > Len(toks) THEN (IF pos = Len(x) + 1 THEN [ok |-> TRUE, acc |-> acc] ELSE Fail)
  ELSE LET tk == toks[i] IN
    CASE tk.k = "lit" -> IF pos <= Len(x) /\ x[pos] = tk.c THEN ParseFrom(toks, i + 1, x, pos + 1, acc, tsep) ELSE Fail
      [] tk.k = "tsep" -> IF StartsWith(x, pos, tsep) THEN ParseFrom(toks, i + 1, x, pos + Len(tsep), acc, tsep) ELSE Fail
      [] tk.k = "sign" ->
           \* a minus sign is always accepted; a plus sign only where the sign is always written; no sign at all only where it is not
           IF pos <= Len(x) /\ x[pos] = 45 THEN ParseFrom(toks, i + 1, x, pos + 1, [acc EXCEPT !.neg = TRUE, !.used = @ \cup {"sign"}], tsep)
           ELSE IF pos <= Len(x) /\ x[pos] = 43 THEN (IF tk.always THEN ParseFrom(toks, i + 1, x, pos + 1, [acc EXCEPT !.used = @ \cup {"sign"}], tsep) ELSE Fail)
           ELSE IF tk.always THEN Fail ELSE ParseFrom(toks, i + 1, x, pos, [acc EXCEPT !.used = @ \cup {"sign"}], tsep)
      [] tk.k = "dotcomma" -> IF pos <= Len(x) /\ x[pos] \in {46, 44} THEN ParseFrom(toks, i + 1, x, pos + 1, acc, tsep) ELSE Fail
      [] tk.k = "optfrac" ->
           \* only when its separator stands here: then at least one digit, at most n
           IF pos <= Len(x) /\ (x[pos] = 46 \/ (tk.comma /\ x[pos] = 44))
           THEN LET d == DigitRun(x, pos + 1, tk.n) IN
                IF d = 0 THEN Fail
                ELSE ParseFrom(toks, i + 1, x, pos + 1 + d, [acc EXCEPT !.frac = NumberAt(x, pos + 1, d) * Pow10(9 - d), !.used = @ \cup {"frac"}], tsep)
           ELSE ParseFrom(toks, i + 1, x, pos, [acc EXCEPT !.used = @ \cup {"frac"}], tsep)
      [] tk.k = "field" /\ tk.c = Cp("f") ->
           LET d == DigitRun(x, pos, tk.n) IN
           IF d < tk.n THEN Fail ELSE ParseFrom(toks, i + 1, x, pos + d, [acc EXCEPT !.frac = NumberAt(x, pos, d) * Pow10(9 - d), !.used = @ \cup {"frac"}], tsep)
      [] tk.k = "field" /\ tk.c = Cp("F") ->
           LET d == DigitRun(x, pos, tk.n) IN
           ParseFrom(toks, i + 1, x, pos + d, [acc EXCEPT !.frac = NumberAt(x, pos, d) * Pow10(9 - d), !.used = @ \cup {"frac"}], tsep)
      [] OTHER ->      \* H h m s: at least n digits, at most two; the value within the field's range
           LET d == DigitRun(x, pos, 2)
               v == NumberAt(x, pos, d)
               lo == IF tk.c = Cp("h") THEN 1 ELSE 0
               hi == IF tk.c = Cp("H") THEN 23 ELSE IF tk.c = Cp("h") THEN 12 ELSE 59
           IN  IF d < tk.n \/ v < lo \/ v > hi THEN Fail
               ELSE ParseFrom(toks, i + 1, x, pos + d,
                      CASE tk.c = Cp("H") -> [acc EXCEPT !.h24 = v, !.used = @ \cup {"H"}] [] tk.c = Cp("h") -> [acc EXCEPT !.h12 = v, !.used = @ \cup {"h"}]
                        [] tk.c = Cp("m") -> [acc EXCEPT !.mi = v, !.used = @ \cup {"m"}] [] OTHER -> [acc EXCEPT !.s = v, !.used = @ \cup {"s"}], tsep)

\* the value: fields not in the pattern come from the template value, midnight
Parse(t, x, tsep) ==
  IF Len(x) = 0 THEN Fail ELSE          \* the empty text is refused by every pattern, also by one of optional fields only
  LET r == ParseFrom(Tokens(t), 1, x, 1, [h24 |-> 0, h12 |-> 0, mi |-> 0, s |-> 0, frac |-> 0, neg |-> FALSE, used |-> {}], tsep) IN
  IF ~r.ok THEN Fail
  ELSE LET a == r.acc IN
       IF {"H", "h"} \subseteq a.used /\ a.h12 % 12 # a.h24 % 12 THEN Fail
       ELSE LET hour == IF "H" \in a.used THEN a.h24 ELSE IF "h" \in a.used THEN a.h12 % 12 ELSE 0 IN
            [ok |-> TRUE, nod |-> <<hour * 3600 + a.mi * 60 + a.s, a.frac>>]

\* ---- offsets: sign, hours 0..23, minutes, seconds; the whole within 18 hours; a pattern beginning with Z also reads "Z" as zero ----
OffsetParsable(t) == Len(t) > 1 /\ Grammar("Offset", t) = "Ok"
ParseOffset(t, x, tsep) ==
  IF Len(x) = 0 THEN Fail
  ELSE IF t[1] = 90 /\ x = <<90>> THEN [ok |-> TRUE, nod |-> <<0, 0>>]
  ELSE LET toks == TokensFrom("Offset", IF t[1] = 90 THEN SubSeq(t, 2, Len(t)) ELSE t, 1)
           r == ParseFrom(toks, 1, x, 1, [h24 |-> 0, h12 |-> 0, mi |-> 0, s |-> 0, frac |-> 0, neg |-> FALSE, used |-> {}], tsep) IN
       IF ~r.ok THEN Fail
       ELSE LET secs == r.acc.h24 * 3600 + r.acc.mi * 60 + r.acc.s IN
            IF secs > 64800 THEN Fail ELSE [ok |-> TRUE, nod |-> <<IF r.acc.neg THEN -secs ELSE secs, 0>>]
=============================================================================
