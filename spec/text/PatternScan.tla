------------------------------ MODULE PatternScan ------------------------------
(* The quoting layer common to every pattern type, as a scanner state machine over   *)
(* the pattern text (one step per character):                                         *)
(*   'text' and "text" are literals (a backslash inside a quote escapes the next       *)
(*   character); \c outside quotes is the literal c; % must be followed by another      *)
(*   character that is not %, which is then handled as usual.                           *)
(* Totality: every text ends in Ok or in a named error - the scanner never gets stuck.   *)
EXTENDS Integers, Sequences
CONSTANTS Alphabet, MaxLen
VARIABLES text, pos, mode, outcome
svars == <<text, pos, mode, outcome>>
Texts == UNION {[1..n -> Alphabet] : n \in 0..MaxLen}
Init == text \in Texts /\ pos = 1 /\ mode = "normal" /\ outcome = "scanning"
AtEnd == pos > Len(text)
c == text[pos]
\* what a character does in normal mode (also the character after a percent sign, which is "handled as normal")
Normal(ch) == IF ch = "'" THEN "single" ELSE IF ch = "\"" THEN "double" ELSE IF ch = "\\" THEN "escape" ELSE IF ch = "%" THEN "percent" ELSE "normal"
StepChar ==
  /\ outcome = "scanning" /\ ~AtEnd /\ pos' = pos + 1 /\ UNCHANGED text
  /\ CASE mode = "normal" -> mode' = Normal(c) /\ outcome' = outcome
       [] mode = "single" -> (IF c = "'" THEN mode' = "normal" ELSE IF c = "\\" THEN mode' = "single_escape" ELSE mode' = mode) /\ outcome' = outcome
       [] mode = "double" -> (IF c = "\"" THEN mode' = "normal" ELSE IF c = "\\" THEN mode' = "double_escape" ELSE mode' = mode) /\ outcome' = outcome
       [] mode = "single_escape" -> mode' = "single" /\ outcome' = outcome
       [] mode = "double_escape" -> mode' = "double" /\ outcome' = outcome
       [] mode = "escape" -> mode' = "normal" /\ outcome' = outcome
       [] mode = "percent" -> IF c = "%" THEN mode' = mode /\ outcome' = "Error_percent_doubled" ELSE mode' = Normal(c) /\ outcome' = outcome
Finish ==
  /\ outcome = "scanning" /\ AtEnd /\ UNCHANGED <<text, pos, mode>>
  /\ outcome' = CASE mode = "normal" -> "Ok"
                  [] mode \in {"single", "double"} -> "Error_missing_end_quote"
                  [] mode \in {"escape", "single_escape", "double_escape"} -> "Error_escape_at_end"
                  [] mode = "percent" -> "Error_percent_at_end"
Next == StepChar \/ Finish
Spec == Init /\ [][Next]_svars /\ WF_svars(Next)
Done == outcome # "scanning"
Total == <>Done
NeverStuck == (outcome = "scanning") => ENABLED Next
OutcomeKnown == outcome \in {"scanning", "Ok", "Error_missing_end_quote", "Error_escape_at_end", "Error_percent_at_end",
                             "Error_percent_doubled"}
=============================================================================
