------------------------------- MODULE Iso8601 -------------------------------
(* ISO-8601 extended-format text of property C17, as generators over code points.  *)
(*   date      YYYY-MM-DD                 (years 1..9999: four digits)               *)
(*   time      HH:MM:SS[.fraction]        shortest fraction, or exactly nine digits   *)
(*   datetime  date T time                                                            *)
(*   offset    Z | +HH | +HH:MM | +HH:MM:SS   (the shortest that is exact; sign always) *)
(*   instant   datetime Z                                                             *)
EXTENDS Integers, Sequences, Txt

\* years outside 0..9999 do not occur; negative years carry a sign in front of the four-digit magnitude (pattern documentation of "uuuu")
IsoYear(y) == IF y < 0 THEN <<Dash>> \o Padded(-y, 4) ELSE Padded(y, 4)
IsoDate(y, m, d) == IsoYear(y) \o <<Dash>> \o Padded(m, 2) \o <<Dash>> \o Padded(d, 2)
IsoHms(s) == Padded(s \div 3600, 2) \o <<Colon>> \o Padded((s % 3600) \div 60, 2) \o <<Colon>> \o Padded(s % 60, 2)
IsoTime(s, n) == IsoHms(s) \o (IF n = 0 THEN <<>> ELSE <<Dot>> \o Fraction9(n))
IsoH(s) == Padded(s \div 3600, 2)
IsoHm(s) == Padded(s \div 3600, 2) \o <<Colon>> \o Padded((s % 3600) \div 60, 2)
\* reduced-precision and variable-precision forms: the shortest of HH, HH:mm, HH:mm:ss[.f...] that loses nothing
IsoTimeVar(s, n) == IF n # 0 \/ s % 60 # 0 THEN IsoTime(s, n) ELSE IF s % 3600 # 0 THEN IsoHm(s) ELSE IsoH(s)
IsoTimeForm(form, s, n) == CASE form = "general" -> IsoHms(s) [] form = "hm" -> IsoHm(s) [] form = "h" -> IsoH(s)
                             [] form = "var" -> IsoTimeVar(s, n) [] form = "ext" -> IsoTime(s, n)
IsoTimeLong(s, n) == IsoHms(s) \o <<Dot>> \o Padded(n, 9)
IsoDateTime(y, m, d, s, n) == IsoDate(y, m, d) \o <<LetterT>> \o IsoTime(s, n)
IsoInstant(y, m, d, s, n) == IsoDateTime(y, m, d, s, n) \o <<LetterZ>>
IsoOffset(sec, zForZero) ==
  IF sec = 0 /\ zForZero THEN <<LetterZ>>
  ELSE LET a == IF sec < 0 THEN -sec ELSE sec
           sign == IF sec < 0 THEN Dash ELSE Plus
           hh == Padded(a \div 3600, 2)
           mm == Padded((a % 3600) \div 60, 2)
           ss == Padded(a % 60, 2)
       IN  IF a % 60 # 0 THEN <<sign>> \o hh \o <<Colon>> \o mm \o <<Colon>> \o ss
           ELSE IF a % 3600 # 0 THEN <<sign>> \o hh \o <<Colon>> \o mm
           ELSE <<sign>> \o hh
\* shape: fixed widths, digits where digits belong
WellFormedDate(t) == Len(t) = 10 /\ t[5] = Dash /\ t[8] = Dash /\ \A i \in {1, 2, 3, 4, 6, 7, 9, 10} : IsDigit(t[i])
=============================================================================
