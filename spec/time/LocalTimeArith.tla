--------------------------- MODULE LocalTimeArith ---------------------------
(* Time-of-day arithmetic of property C10, on a scaled day: a time is a unit-of-day *)
(* in 0..UPD-1 (the real code: nanosecond-of-day with units of 1 ns .. 1 h).          *)
(* Meaning:   Plus(t, k) = (t + k) mod UPD, carrying floor((t + k) / UPD) days.        *)
(* Algorithm: the two-branch code of the time period field (truncating division and   *)
(*            remainder for |k| >= UPD, one conditional carry or borrow).              *)
EXTENDS Integers, Arith
CONSTANT UPD
VARIABLES t, k
Init == t \in 0..(UPD - 1) /\ k \in (-3 * UPD - 1)..(3 * UPD + 1)
Next == UNCHANGED <<t, k>>
Spec == Init /\ [][Next]_<<t, k>>

MathTime == (t + k) % UPD
MathDays == (t + k) \div UPD

AlgoWithDays ==
  IF k = 0 THEN <<t, 0>>
  ELSE IF k >= 0
  THEN LET days0 == IF k >= UPD THEN TruncDiv(k, UPD) ELSE 0
           v == IF k >= UPD THEN TruncMod(k, UPD) ELSE k
           n == t + v
       IN  IF n >= UPD THEN <<n - UPD, days0 + 1>> ELSE <<n, days0>>
  ELSE LET days0 == IF k <= -UPD THEN TruncDiv(k, UPD) ELSE 0
           v == IF k <= -UPD THEN TruncMod(k, UPD) ELSE k
           n == t + v
       IN  IF n < 0 THEN <<n + UPD, days0 - 1>> ELSE <<n, days0>>
\* the wrap-only variant used by LocalTime.plus_*
AlgoWrap ==
  IF k > 0
  THEN LET v == IF k > UPD THEN TruncMod(k, UPD) ELSE k
           n == t + v
       IN  IF n >= UPD THEN n - UPD ELSE n
  ELSE LET v == IF k <= UPD THEN TruncMod(k, UPD) ELSE k
           n == t + v
       IN  IF n < 0 THEN n + UPD ELSE n

AlgorithmIsModular == AlgoWithDays = <<MathTime, MathDays>> /\ AlgoWrap = MathTime
=============================================================================
