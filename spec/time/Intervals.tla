------------------------------ MODULE Intervals ------------------------------
(* DateInterval = the set of days start..end (inclusive); Interval = the half-open  *)
(* set of instants [start, end), either side possibly unbounded.  Operations are     *)
(* the set operations; union is defined exactly when the sets overlap or touch.       *)
EXTENDS Integers, T3

\* ---- days (plain integers on the day line) -------------------------------------
DValid(s, e) == s <= e
DLen(s, e) == e - s + 1
DHas(s, e, d) == s <= d /\ d <= e
DContains(s1, e1, s2, e2) == s1 <= s2 /\ e2 <= e1                  \* set inclusion of [s2,e2] in [s1,e1]
DOverlap(s1, e1, s2, e2) == ~(e1 < s2 \/ e2 < s1)
DInter(s1, e1, s2, e2) == IF DOverlap(s1, e1, s2, e2)
                          THEN <<TRUE, IF s1 >= s2 THEN s1 ELSE s2, IF e1 <= e2 THEN e1 ELSE e2>> ELSE <<FALSE, 0, 0>>
\* union is an interval iff overlapping or adjacent (no day between them is missing)
DUnionDefined(s1, e1, s2, e2) == ~(e1 + 1 < s2 \/ e2 + 1 < s1)
DUnion(s1, e1, s2, e2) == IF DUnionDefined(s1, e1, s2, e2)
                          THEN <<TRUE, IF s1 <= s2 THEN s1 ELSE s2, IF e1 >= e2 THEN e1 ELSE e2>> ELSE <<FALSE, 0, 0>>

\* ---- instants (T3, with sentinels for the open ends) -----------------------------
IMin == <<-2000000000, 0, 0>>
IMax == <<2000000000, 0, 0>>
IValid(s, e) == Le3(s, e)
IHas(s, e, t) == Le3(s, t) /\ Lt3(t, e)
=============================================================================
