------------------------------ MODULE PyBridge ------------------------------
(* Correspondence between Python standard-library values (as field tuples) and    *)
(* the day / nanosecond time lines (property C15).                                 *)
(*   date      <<y, m, d>>                  proleptic Gregorian, years 1..9999      *)
(*   time      <<h, mi, s, us>>                                                     *)
(*   timedelta <<days, seconds, microseconds>> normalised (0 <= seconds < 86400,    *)
(*             0 <= microseconds < 10^6), value = days*86400s + seconds + us         *)
EXTENDS Integers, T3, Calendars

StdMinDay == GregDay(1, 1, 1)
StdMaxDay == GregDay(9999, 12, 31)
ValidDate(d) == d[1] \in 1..9999 /\ d[2] \in 1..12 /\ d[3] \in 1..GJMonthLen(GregLeap(d[1]), d[2])
DayOfDate(d) == GregDay(d[1], d[2], d[3])
\* the (unique) date of day n, characterised rather than computed
IsDateOf(d, n) == ValidDate(d) /\ DayOfDate(d) = n

SecOfTime(t) == t[1] * 3600 + t[2] * 60 + t[3]
ValidTime(t) == t[1] \in 0..23 /\ t[2] \in 0..59 /\ t[3] \in 0..59 /\ t[4] \in 0..999999
\* a time of day <<s, n>> truncated to microseconds
TimeOf(s, n) == <<s \div 3600, (s % 3600) \div 60, s % 60, n \div 1000>>

\* the T3 of a naive datetime <<y,m,d,h,mi,s,us>> on the local time line
T3OfDateTime(x) == <<DayOfDate(<<x[1], x[2], x[3]>>), SecOfTime(<<x[4], x[5], x[6], 0>>), x[7] * 1000>>
\* x is the datetime of T3 point p truncated toward the start of time to microseconds
IsDateTimeOf(x, p) == /\ IsDateOf(<<x[1], x[2], x[3]>>, p[1])
                      /\ <<x[4], x[5], x[6], x[7]>> = TimeOf(p[2], p[3])

\* timedelta of a duration: truncation toward zero to microseconds, then floor-normalised fields
TdOfDuration(d) ==
  LET neg == d[1] < 0
      a == IF neg THEN Neg3(d) ELSE d                       \* magnitude
      am == <<a[1], a[2], (a[3] \div 1000) * 1000>>          \* truncate magnitude
      r == IF neg THEN Neg3(am) ELSE am
  IN  <<r[1], r[2], r[3] \div 1000>>
DurationOfTd(td) == <<td[1], td[2], td[3] * 1000>>
=============================================================================
