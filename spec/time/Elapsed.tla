------------------------------- MODULE Elapsed -------------------------------
(* Duration, Instant and Offset as what property C03 says they are: integers   *)
(* of nanoseconds (seconds for Offset) on documented ranges.  Values are T3     *)
(* numerals; products and quotients go through BigInt.  Every operation is     *)
(* "the mathematical result, or raises when it leaves the range".               *)
EXTENDS T3, BigInt

(* ---- T3 <-> BigInt --------------------------------------------------------- *)
\* nanoseconds denoted by t
NsOf(t) ==
  LET secs == Add(MulSmall(FromInt(t[1]), SPD), FromInt(t[2]))
  IN  Add(MulSmall(MulSmall(secs, 100000), 10000), FromInt(t[3]))
\* the T3 numeral of a BigInt of nanoseconds; day digit must fit (checked by DayFits)
SecsAndNanos(x) ==
  LET q1 == FloorDivModSmall(x, 100000)
      q2 == FloorDivModSmall(q1[1], 10000)
  IN  <<q2[1], q2[2] * 100000 + q1[2]>>          \* <<floor(x / 10^9) as BigInt, x mod 10^9>>
DaysAndSecs(secs) == FloorDivModSmall(secs, SPD) \* <<days as BigInt, second of day>>
DayFits(x) == Fits31(DaysAndSecs(SecsAndNanos(x)[1])[1])
OfNs(x) ==
  LET sn == SecsAndNanos(x)
      ds == DaysAndSecs(sn[1])
  IN  <<ToInt(ds[1]), ds[2], sn[2]>>

(* ---- truncated components (C#-style: components of |v| carry the sign) ------ *)
Abs3(t) == IF t[1] < 0 THEN Neg3(t) ELSE t
Components(t) ==
  LET sg == IF t[1] < 0 THEN -1 ELSE 1
      a  == Abs3(t)
  IN  [days |-> sg * a[1],
       hours |-> sg * (a[2] \div 3600),
       minutes |-> sg * ((a[2] % 3600) \div 60),
       seconds |-> sg * (a[2] % 60),
       milliseconds |-> sg * (a[3] \div 1000000),
       microseconds |-> sg * (a[3] \div 1000),
       subsecond_ticks |-> sg * (a[3] \div 100),
       subsecond_nanoseconds |-> sg * a[3],
       \* nanosecond-of-day as signed digits <<seconds, nanos>>
       nod |-> <<sg * a[2], sg * a[3]>>]

\* total number of whole `per-second` units, truncated toward zero, as a BigInt
\* (ticks: P = 10^7; milliseconds: 10^3; seconds: 1)
TruncUnits(t, nanosPerUnit) ==      \* nanosPerUnit in {1, 100, 1000, 10^6, 10^9}
  LET a == Abs3(t)
      sg == IF t[1] < 0 THEN -1 ELSE 1
      secs == Add(MulSmall(FromInt(a[1]), SPD), FromInt(a[2]))
      mag == IF nanosPerUnit = 1000000000 THEN secs
             ELSE LET perSec == 1000000000 \div nanosPerUnit     \* <= 10^9
                      hi == perSec \div 10000                      \* perSec = hi * 10^4 when perSec >= 10^4
                  IN  IF perSec >= 10000
                      THEN Add(MulSmall(MulSmall(secs, hi), 10000), FromInt(a[3] \div nanosPerUnit))
                      ELSE Add(MulSmall(secs, perSec), FromInt(a[3] \div nanosPerUnit))
  IN  IF sg < 0 THEN Neg(mag) ELSE mag
\* floor instead of truncation (Unix-time conversions)
FloorUnits(t, nanosPerUnit) ==
  LET secs == Add(MulSmall(FromInt(t[1]), SPD), FromInt(t[2]))
      perSec == 1000000000 \div nanosPerUnit
      hi == perSec \div 10000
  IN  IF nanosPerUnit = 1000000000 THEN secs
      ELSE IF perSec >= 10000
      THEN Add(MulSmall(MulSmall(secs, hi), 10000), FromInt(t[3] \div nanosPerUnit))
      ELSE Add(MulSmall(secs, perSec), FromInt(t[3] \div nanosPerUnit))

(* ---- Offset: whole seconds in [-18h, +18h] ----------------------------------- *)
OffsetMin == -64800
OffsetMax == 64800
OffsetInRange(s) == s >= OffsetMin /\ s <= OffsetMax
=============================================================================
