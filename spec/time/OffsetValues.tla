----------------------------- MODULE OffsetValues -----------------------------
(* Offset and zoned date-times (property C11): a value is                         *)
(*     [inst: T3 instant, off: seconds, cal: calendar id (, zone)]                 *)
(* and everything else is derived: local = inst + off.  The operations never       *)
(* change more than they say.                                                      *)
EXTENDS Integers, T3

Local(v) == Add3(v.inst, OfSeconds(v.off))
Mk(inst, off, cal) == [inst |-> inst, off |-> off, cal |-> cal]
\* from a local date-time and an offset
FromLocal(loc, off, cal) == Mk(Sub3(loc, OfSeconds(off)), off, cal)

WithOffset(v, off2) == Mk(v.inst, off2, v.cal)          \* same instant, new local
WithCalendar(v, cal2) == Mk(v.inst, v.off, cal2)         \* same instant, same local day/time, new calendar
Plus(v, d) == Mk(Add3(v.inst, d), v.off, v.cal)
Minus(v, d) == Mk(Sub3(v.inst, d), v.off, v.cal)
Diff(a, b) == Sub3(a.inst, b.inst)                       \* regardless of offsets and calendars
\* replacing only the date (day number) or only the time of day of the local value
WithLocalDay(v, day) == LET l == Local(v) IN FromLocal(<<day, l[2], l[3]>>, v.off, v.cal)
WithLocalTime(v, s, n) == LET l == Local(v) IN FromLocal(<<l[1], s, n>>, v.off, v.cal)

\* the local value must stay a representable date: local day within [minDay, maxDay] of the calendar,
\* and the instant inside the Instant range
Representable(v, minDay, maxDay) == InstantInRange(v.inst) /\ Local(v)[1] >= minDay /\ Local(v)[1] <= maxDay
=============================================================================
