----------------------------- MODULE ElapsedImpl -----------------------------
(* The implementation-shaped machine behind Duration/Instant: a value is kept   *)
(* as (floor days, unit-of-day) and every operation re-normalises with the      *)
(* carry/borrow logic of the code.  Scaled constants (UPD units per day) keep    *)
(* all divisibility relations; the ghost variable `val` is the plain integer.   *)
(* Refinement mapping: val = days * UPD + uod, 0 <= uod < UPD.                    *)
EXTENDS Integers, Arith

CONSTANTS UPD,        \* units per day in the scaled model
          MaxDays     \* range: days in [-MaxDays - 1, MaxDays]
VARIABLES days, uod, val, raised

evars == <<days, uod, val, raised>>
MinDays == -MaxDays - 1
InRangeV(v) == v >= MinDays * UPD /\ v <= (MaxDays + 1) * UPD - 1
Amounts == (-2 * UPD - 1)..(2 * UPD + 1)

Init == days = 0 /\ uod = 0 /\ val = 0 /\ raised = FALSE

\* __add__: add days and unit-of-day, one carry
Add(d2, u2) ==
  LET u == uod + u2
      d == days + d2 + (IF u >= UPD THEN 1 ELSE 0)
      uu == IF u >= UPD THEN u - UPD ELSE u
  IN  IF d < MinDays \/ d > MaxDays
      THEN raised' = TRUE /\ UNCHANGED <<days, uod, val>>
      ELSE days' = d /\ uod' = uu /\ val' = val + d2 * UPD + u2 /\ raised' = FALSE
\* __sub__: one borrow
Sub(d2, u2) ==
  LET u == uod - u2
      d == days - d2 - (IF u < 0 THEN 1 ELSE 0)
      uu == IF u < 0 THEN u + UPD ELSE u
  IN  IF d < MinDays \/ d > MaxDays
      THEN raised' = TRUE /\ UNCHANGED <<days, uod, val>>
      ELSE days' = d /\ uod' = uu /\ val' = val - (d2 * UPD + u2) /\ raised' = FALSE
\* __neg__
NegOp ==
  LET d == IF uod = 0 THEN -days ELSE -days - 1
      u == IF uod = 0 THEN 0 ELSE UPD - uod
  IN  IF d < MinDays \/ d > MaxDays
      THEN raised' = TRUE /\ UNCHANGED <<days, uod, val>>
      ELSE days' = d /\ uod' = u /\ val' = -val /\ raised' = FALSE
\* from_<unit>(k): truncate toward zero, then adjust a negative remainder
FromUnits(k) ==
  IF ~InRangeV(k) THEN raised' = TRUE /\ UNCHANGED <<days, uod, val>>
  ELSE LET d0 == TruncDiv(k, UPD)
           u0 == k - UPD * d0
       IN  /\ days' = (IF u0 < 0 THEN d0 - 1 ELSE d0)
           /\ uod' = (IF u0 < 0 THEN u0 + UPD ELSE u0)
           /\ val' = k /\ raised' = FALSE

Next == \/ \E d2 \in MinDays..MaxDays, u2 \in 0..(UPD - 1) : Add(d2, u2) \/ Sub(d2, u2)
        \/ NegOp
        \/ \E k \in Amounts : FromUnits(k)

Spec == Init /\ [][Next]_evars

Normalised == uod \in 0..(UPD - 1) /\ days \in MinDays..MaxDays
Refines == val = days * UPD + uod
\* an operation raises exactly when the mathematical result leaves the range (action property)
RaisesOnlyOutOfRange == [][raised' => UNCHANGED <<days, uod, val>>]_evars
\* truncating accessors: days component and signed unit-of-day
TruncDays == IF days >= 0 \/ uod = 0 THEN days ELSE days + 1
SignedUod == IF days >= 0 THEN uod ELSE IF uod = 0 THEN 0 ELSE uod - UPD
AccessorsExact == /\ TruncDays = TruncDiv(val, UPD)
                  /\ SignedUod = val - UPD * TruncDiv(val, UPD)
                  /\ (val # 0 => Sign(SignedUod) \in {0, Sign(val)})
=============================================================================
