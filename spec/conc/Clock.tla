-------------------------------- MODULE Clock --------------------------------
(* The "trivial model" of property C19: a clock is a current value plus an    *)
(* auto-advance that is applied after each read.  Every operation is atomic.  *)
(* The value domain is a parameter: small integers when model checking,       *)
(* T3 nanosecond numerals when validating traces of the real FakeClock.       *)
CONSTANTS Plus(_, _),      \* instant + duration
          InRange(_),      \* is an instant inside the supported range?
          NoRes            \* placeholder result of operations that return nothing
VARIABLES now, auto

cvars == <<now, auto>>

(* Outcome of operation op with argument arg in the current state:            *)
(*   ok   - FALSE when the operation raises (instant arithmetic left the range;*)
(*          the state is then unchanged)                                       *)
(*   res  - the value returned,  now/auto - the state afterwards               *)
Outcome(op, arg) ==
  CASE op = "read" ->
         IF InRange(Plus(now, auto))
         THEN [ok |-> TRUE, res |-> now, now |-> Plus(now, auto), auto |-> auto]
         ELSE [ok |-> FALSE, res |-> NoRes, now |-> now, auto |-> auto]
    [] op = "advance" ->
         IF InRange(Plus(now, arg))
         THEN [ok |-> TRUE, res |-> NoRes, now |-> Plus(now, arg), auto |-> auto]
         ELSE [ok |-> FALSE, res |-> NoRes, now |-> now, auto |-> auto]
    [] op = "reset"    -> [ok |-> TRUE, res |-> NoRes, now |-> arg, auto |-> auto]
    [] op = "set_auto" -> [ok |-> TRUE, res |-> NoRes, now |-> now, auto |-> arg]
    [] op = "get_auto" -> [ok |-> TRUE, res |-> auto, now |-> now, auto |-> auto]

HasResult(op) == op \in {"read", "get_auto"}

Do(op, arg) == LET o == Outcome(op, arg) IN now' = o.now /\ auto' = o.auto
=============================================================================
