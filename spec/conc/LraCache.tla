-------------------------------- MODULE LraCache --------------------------------
(* The least-recently-added cache behind the pattern / format-info lookups            *)
(* (utility/_cache.py: _Cache.get_or_add), one step per statement group:                *)
(*     lock; if the key is cached: return its value                                      *)
(*     queue the key; create and store the value; evict the oldest queued keys while      *)
(*     over the size; return the value stored for the key; unlock                          *)
(* FastPath = FALSE is the code: the cached test is made under the lock.                    *)
(* FastPath = TRUE is the tempting variant that tests "cached?" before taking the lock       *)
(* (and then queues the key without testing again): a reader can pass the test and find the    *)
(* entry evicted, and two first lookups of one key queue it twice, so that the stale duplicate   *)
(* later evicts a live entry - TLC shows both.                                                   *)
EXTENDS Integers, Sequences, FiniteSets
CONSTANTS Threads, Keys, Size, NOps, FastPath
VARIABLES dict, order, lock, pc, k, ops, fresh, log, prog, sched
vars == <<dict, order, lock, pc, k, ops, fresh, log, prog, sched>>
None == 0
Init == /\ dict = [x \in Keys |-> None] /\ order = <<>> /\ lock = None /\ pc = [t \in Threads |-> "idle"]
        /\ k = [t \in Threads |-> CHOOSE x \in Keys : TRUE] /\ ops = [t \in Threads |-> 0]
        /\ fresh = 1 /\ log = <<>> /\ prog = [t \in Threads |-> <<>>] /\ sched = <<>>
Cached == {x \in Keys : dict[x] # None}
Step(t) == sched' = Append(sched, t)
Call(t) == /\ pc[t] = "idle" /\ ops[t] < NOps
           /\ \E x \in Keys : k' = [k EXCEPT ![t] = x] /\ prog' = [prog EXCEPT ![t] = Append(@, x)]
           /\ pc' = [pc EXCEPT ![t] = IF FastPath THEN "fast" ELSE "acquire"]
           /\ UNCHANGED <<dict, order, lock, ops, fresh, log>> /\ Step(t)
\* (variant only) the unlocked test, and the unlocked read that follows it when the test passed
FastTest(t) == /\ pc[t] = "fast" /\ pc' = [pc EXCEPT ![t] = IF dict[k[t]] # None THEN "fastread" ELSE "acquire"]
               /\ UNCHANGED <<dict, order, lock, k, ops, fresh, log, prog>> /\ Step(t)
FastRead(t) == /\ pc[t] = "fastread" /\ log' = Append(log, <<k[t], dict[k[t]]>>)         \* None = the entry is gone: KeyError
               /\ pc' = [pc EXCEPT ![t] = "idle"] /\ ops' = [ops EXCEPT ![t] = @ + 1]
               /\ UNCHANGED <<dict, order, lock, k, fresh, prog>> /\ Step(t)
Acquire(t) == /\ pc[t] = "acquire" /\ lock = None /\ lock' = t /\ pc' = [pc EXCEPT ![t] = "look"]
              /\ UNCHANGED <<dict, order, k, ops, fresh, log, prog>> /\ Step(t)
Look(t) == /\ pc[t] = "look"
           /\ IF ~FastPath /\ dict[k[t]] # None
              THEN pc' = [pc EXCEPT ![t] = "ret"] /\ UNCHANGED <<dict, order, fresh>>
              ELSE /\ order' = Append(order, k[t])
                   /\ IF dict[k[t]] = None THEN dict' = [dict EXCEPT ![k[t]] = fresh] /\ fresh' = fresh + 1 ELSE UNCHANGED <<dict, fresh>>
                   /\ pc' = [pc EXCEPT ![t] = "evict"]
           /\ UNCHANGED <<lock, k, ops, log, prog>> /\ Step(t)
Evict(t) == /\ pc[t] = "evict"
            /\ IF Cardinality(Cached) > Size
               THEN /\ order' = Tail(order) /\ dict' = [dict EXCEPT ![Head(order)] = None] /\ pc' = pc
               ELSE /\ UNCHANGED <<order, dict>> /\ pc' = [pc EXCEPT ![t] = "ret"]
            /\ UNCHANGED <<lock, k, ops, fresh, log, prog>> /\ Step(t)
\* the value returned is whatever is stored for the key now (None = it is gone: KeyError)
Return(t) == /\ pc[t] = "ret" /\ lock' = None /\ pc' = [pc EXCEPT ![t] = "idle"] /\ ops' = [ops EXCEPT ![t] = ops[t] + 1]
             /\ log' = Append(log, <<k[t], dict[k[t]]>>)
             /\ UNCHANGED <<dict, order, k, fresh, prog>> /\ Step(t)
Next == \E t \in Threads : Call(t) \/ FastTest(t) \/ FastRead(t) \/ Acquire(t) \/ Look(t) \/ Evict(t) \/ Return(t)
Spec == Init /\ [][Next]_vars
BoundedSize == (lock = None) => Cardinality(Cached) <= Size
\* every lookup returns a value (the just-added key is never evicted, a tested entry is still there when read)
ReturnsCachedValue == \A i \in 1..Len(log) : log[i][2] # None
\* the eviction queue is exactly the cached keys, oldest first, each once
QueueMatchesDict == (lock = None) => (Len(order) = Cardinality(Cached) /\ \A i \in 1..Len(order) : dict[order[i]] # None)
\* replay bookkeeping, hidden from the state graph of the exhaustive runs
View == <<dict, order, lock, pc, k, ops, fresh, log>>
=============================================================================
