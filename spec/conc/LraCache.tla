-------------------------------- MODULE LraCache --------------------------------
(* The least-recently-added cache behind the pattern / format-info lookups:          *)
(* under one lock: return the cached value, else append the key, create the value,     *)
(* evict oldest keys while over the size.  Every lookup returns the value of its key.   *)
EXTENDS Integers, Sequences, FiniteSets
CONSTANTS Threads, Keys, Size, NOps
VARIABLES dict, order, lock, pc, k, res, ops, fresh, log
vars == <<dict, order, lock, pc, k, res, ops, fresh, log>>
None == 0
Init == /\ dict = [x \in Keys |-> None] /\ order = <<>> /\ lock = None /\ pc = [t \in Threads |-> "idle"]
        /\ k = [t \in Threads |-> CHOOSE x \in Keys : TRUE] /\ res = [t \in Threads |-> None] /\ ops = [t \in Threads |-> 0]
        /\ fresh = 1 /\ log = <<>>
Cached == {x \in Keys : dict[x] # None}
Call(t) == /\ pc[t] = "idle" /\ ops[t] < NOps /\ lock = None
           /\ \E x \in Keys : k' = [k EXCEPT ![t] = x]
           /\ lock' = t /\ pc' = [pc EXCEPT ![t] = "look"]
           /\ UNCHANGED <<dict, order, res, ops, fresh, log>>
Look(t) == /\ pc[t] = "look"
           /\ IF dict[k[t]] # None
              THEN res' = [res EXCEPT ![t] = dict[k[t]]] /\ pc' = [pc EXCEPT ![t] = "ret"] /\ UNCHANGED <<dict, order, fresh>>
              ELSE /\ order' = Append(order, k[t]) /\ dict' = [dict EXCEPT ![k[t]] = fresh] /\ fresh' = fresh + 1
                   /\ res' = [res EXCEPT ![t] = fresh] /\ pc' = [pc EXCEPT ![t] = "evict"]
           /\ UNCHANGED <<lock, k, ops, log>>
Evict(t) == /\ pc[t] = "evict"
            /\ IF Cardinality(Cached) > Size
               THEN /\ order' = Tail(order) /\ dict' = [dict EXCEPT ![Head(order)] = None] /\ pc' = pc
               ELSE /\ UNCHANGED <<order, dict>> /\ pc' = [pc EXCEPT ![t] = "ret"]
            /\ UNCHANGED <<lock, k, res, ops, fresh, log>>
Return(t) == /\ pc[t] = "ret" /\ lock' = None /\ pc' = [pc EXCEPT ![t] = "idle"] /\ ops' = [ops EXCEPT ![t] = ops[t] + 1]
             /\ log' = Append(log, <<k[t], res[t], dict[k[t]]>>)
             /\ UNCHANGED <<dict, order, k, res, fresh>>
Next == \E t \in Threads : Call(t) \/ Look(t) \/ Evict(t) \/ Return(t)
Spec == Init /\ [][Next]_vars
BoundedSize == (lock = None) => Cardinality(Cached) <= Size
\* the value returned is the one cached for that key at the moment of return (the just-added key is never evicted)
ReturnsCachedValue == \A i \in 1..Len(log) : log[i][2] = log[i][3] /\ log[i][2] # None
=============================================================================
