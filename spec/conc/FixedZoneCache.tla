---------------------------- MODULE FixedZoneCache ----------------------------
(* DateTimeZone.for_offset: fixed zones for the offsets of a grid are built once, all  *)
(* together, by the first call; every other offset gets a new zone per call.  A zone's   *)
(* id is made from its offset when the zone is built.  Each thread has a current culture  *)
(* (thread-local, changeable).                                                             *)
(*   IdUsesCulture = TRUE:  the id text is the offset formatted in the current culture of  *)
(*                          the thread that builds the zone;                                 *)
(*   IdUsesCulture = FALSE: the id text is the offset formatted invariantly.                  *)
(* Purity: the id answered for an offset is a function of the offset (and at most of the      *)
(* asking thread's current culture) - not of who asked first.                                   *)
EXTENDS Integers, FiniteSets
CONSTANTS Threads, Cultures, GridOffsets, OtherOffsets, IdUsesCulture
VARIABLES culture, built, gridId, answers
vars == <<culture, built, gridId, answers>>
Offsets == GridOffsets \cup OtherOffsets
Invariant == CHOOSE c \in Cultures : TRUE          \* one culture plays the invariant one
\* the id text of an offset made under a culture: modelled as the pair (offset, culture whose separators were used)
MakeId(o, c) == <<o, IF IdUsesCulture THEN c ELSE Invariant>>
Init == /\ culture \in [Threads -> Cultures] /\ built = FALSE /\ gridId = [o \in GridOffsets |-> <<o, Invariant>>] /\ answers = {}
SetCulture(t) == \E c \in Cultures : culture' = [culture EXCEPT ![t] = c] /\ UNCHANGED <<built, gridId, answers>>
\* one call: build the grid if nobody has (under the caller's culture), then answer from the grid or with a new zone
Ask(t) == \E o \in Offsets :
  LET grid == IF built THEN gridId ELSE [g \in GridOffsets |-> MakeId(g, culture[t])]
      id == IF o \in GridOffsets THEN grid[o] ELSE MakeId(o, culture[t]) IN
  /\ built' = TRUE /\ gridId' = grid
  /\ answers' = answers \cup {[offset |-> o, asker |-> culture[t], id |-> id]}
  /\ UNCHANGED culture
Next == \E t \in Threads : SetCulture(t) \/ Ask(t)
Spec == Init /\ [][Next]_vars
\* every answer is the one the same question gets when nothing was asked before (an empty cache, filled by the asker itself):
\* what was asked before, and by whom, makes no difference
AnswerIndependentOfHistory == \A a \in answers : a.id = MakeId(a.offset, a.asker)
\* stronger: the id of an offset's zone does not depend on the asker's culture either (ids resolve back through the providers)
IdIsAFunctionOfTheOffset == \A a, b \in answers : a.offset = b.offset => a.id = b.id
=============================================================================
