---------------------------- MODULE FakeClockImpl ----------------------------
(* FakeClock as the code does it: a non-reentrant lock, and each method a      *)
(* sequence of line-level steps.  One action per line of                      *)
(* pyoda_time/testing/_fake_clock.py, so a TLC schedule can be enforced on     *)
(* real threads line by line.                                                 *)
(*                                                                            *)
(*   get_current_instant:  acquire; then = now; now += auto; release/return   *)
(*   advance(d):           acquire; now += d; release                          *)
(*   advance_<unit>(k):    [acquire if NestedLock]; call advance(from_unit k)  *)
(*   reset(i):             acquire; now = i; release                           *)
(*   auto_advance (get):   acquire; return auto; release                       *)
(*   auto_advance (set):   acquire; auto = d; release                          *)
(*                                                                            *)
(* NestedLock = TRUE is the code as it was found (advance_<unit> holds the     *)
(* lock while calling advance, which acquires it again): TLC reports the       *)
(* deadlock.  NestedLock = FALSE is the repaired code.  UseLock = FALSE is a   *)
(* negative configuration (lock removed) showing the properties are not vacuous.*)
EXTENDS Integers, Sequences, FiniteSets, TLC

CONSTANTS Threads, Amounts, Instants, ProgLen, NestedLock, UseLock, Auto0, ReadsOnly

VARIABLES now, auto, lock, pc, ip, tmp, hist, mnow, mauto, sched, Program
\* Program[t] = sequence of operations <<name, arg>> thread t performs (chosen in Init)

vars == <<now, auto, lock, pc, ip, tmp, hist, mnow, mauto, sched, Program>>
\* sched only records which thread moved (for replay on real threads); it is hidden from
\* the exhaustive search by this VIEW so that it does not multiply states.
View == <<now, auto, lock, pc, ip, tmp, hist, mnow, mauto, Program>>

Ops == IF ReadsOnly THEN {<<"read", 0>>}
       ELSE {<<"read", 0>>, <<"get_auto", 0>>}
            \cup {<<"advance", a>> : a \in Amounts}
            \cup {<<"advance_unit", a>> : a \in Amounts}
            \cup {<<"reset", i>> : i \in Instants}
            \cup {<<"set_auto", a>> : a \in Amounts}
Progs == [1..ProgLen -> Ops]

NoOne == "none"
Op(t) == Program[t][ip[t]]
Finished(t) == ip[t] > Len(Program[t])

Init == /\ now = 0 /\ auto = Auto0 /\ lock = NoOne
        /\ pc = [t \in Threads |-> "idle"]
        /\ ip = [t \in Threads |-> 1]
        /\ tmp = [t \in Threads |-> 0]
        /\ hist = <<>>            \* completed reads: <<thread, value>>
        /\ mnow = 0 /\ mauto = Auto0   \* the trivial model, stepped at linearization points
        /\ sched = <<>>
        /\ Program \in [Threads -> Progs]

Step(t) == sched' = Append(sched, t)

\* ---- lock ---------------------------------------------------------------
Acquire(t, next) ==
  /\ IF UseLock THEN lock = NoOne /\ lock' = t ELSE lock' = lock
  /\ pc' = [pc EXCEPT ![t] = next]
Release(t) == IF UseLock THEN lock' = NoOne ELSE lock' = lock

Begin(t) ==
  /\ pc[t] = "idle" /\ ~Finished(t)
  /\ LET o == Op(t)[1] IN
       \/ o = "read"     /\ Acquire(t, "read_load")
       \/ o = "advance"  /\ Acquire(t, "adv_add")
       \/ o = "advance_unit" /\ (IF NestedLock THEN Acquire(t, "advu_call")
                                  ELSE pc' = [pc EXCEPT ![t] = "advu_call"] /\ lock' = lock)
       \/ o = "reset"    /\ Acquire(t, "reset_store")
       \/ o = "get_auto" /\ Acquire(t, "geta_load")
       \/ o = "set_auto" /\ Acquire(t, "seta_store")
  /\ UNCHANGED <<now, auto, ip, tmp, hist, mnow, mauto, Program>> /\ Step(t)

\* the nested call inside advance_<unit>: `self.advance(...)` -> `with self.__lock:`
AdvUnitCall(t) ==
  /\ pc[t] = "advu_call"
  /\ IF UseLock THEN lock = NoOne /\ lock' = t ELSE lock' = lock   \* blocks forever if t itself holds it
  /\ pc' = [pc EXCEPT ![t] = "adv_add"]
  /\ UNCHANGED <<now, auto, ip, tmp, hist, mnow, mauto, Program>> /\ Step(t)

ReadLoad(t) ==      \* then = self.__now
  /\ pc[t] = "read_load"
  /\ tmp' = [tmp EXCEPT ![t] = now]
  /\ pc' = [pc EXCEPT ![t] = "read_add"]
  /\ UNCHANGED <<now, auto, lock, ip, hist, mnow, mauto, Program>> /\ Step(t)

ReadAdd(t) ==       \* self.__now += self.__auto_advance   (linearization point of a read)
  /\ pc[t] = "read_add"
  /\ now' = now + auto
  /\ mnow' = mnow + mauto
  /\ hist' = Append(hist, <<t, tmp[t], mnow>>)      \* returned value, model's value
  /\ pc' = [pc EXCEPT ![t] = "ret"]
  /\ UNCHANGED <<auto, lock, ip, tmp, mauto, Program>> /\ Step(t)

AdvAdd(t) ==        \* self.__now += duration
  /\ pc[t] = "adv_add"
  /\ now' = now + Op(t)[2]
  /\ mnow' = mnow + Op(t)[2]
  /\ pc' = [pc EXCEPT ![t] = "ret"]
  /\ UNCHANGED <<auto, lock, ip, tmp, hist, mauto, Program>> /\ Step(t)

ResetStore(t) ==
  /\ pc[t] = "reset_store"
  /\ now' = Op(t)[2] /\ mnow' = Op(t)[2]
  /\ pc' = [pc EXCEPT ![t] = "ret"]
  /\ UNCHANGED <<auto, lock, ip, tmp, hist, mauto, Program>> /\ Step(t)

GetAutoLoad(t) ==
  /\ pc[t] = "geta_load"
  /\ tmp' = [tmp EXCEPT ![t] = auto]
  /\ pc' = [pc EXCEPT ![t] = "ret"]
  /\ UNCHANGED <<now, auto, lock, ip, hist, mnow, mauto, Program>> /\ Step(t)

SetAutoStore(t) ==
  /\ pc[t] = "seta_store"
  /\ auto' = Op(t)[2] /\ mauto' = Op(t)[2]
  /\ pc' = [pc EXCEPT ![t] = "ret"]
  /\ UNCHANGED <<now, lock, ip, tmp, hist, mnow, Program>> /\ Step(t)

Return(t) ==        \* leave the with-block(s): release, operation complete
  /\ pc[t] = "ret"
  /\ Release(t)
  /\ pc' = [pc EXCEPT ![t] = "idle"]
  /\ ip' = [ip EXCEPT ![t] = ip[t] + 1]
  /\ UNCHANGED <<now, auto, tmp, hist, mnow, mauto, Program>> /\ Step(t)

Next == \E t \in Threads :
          Begin(t) \/ AdvUnitCall(t) \/ ReadLoad(t) \/ ReadAdd(t) \/ AdvAdd(t)
          \/ ResetStore(t) \/ GetAutoLoad(t) \/ SetAutoStore(t) \/ Return(t)

AllDone == \A t \in Threads : Finished(t)
Terminating == AllDone /\ UNCHANGED vars

Spec == Init /\ [][Next \/ Terminating]_vars /\ WF_vars(Next)

\* ---- properties ---------------------------------------------------------
\* the implementation state equals the trivial model's whenever no one is inside
ModelConformance ==
  /\ (lock = NoOne /\ \A t \in Threads : pc[t] \in {"idle"}) => (now = mnow /\ auto = mauto)
  /\ \A i \in 1..Len(hist) : hist[i][2] = hist[i][3]       \* every read returned the model's value

\* concurrent reads with a non-zero constant auto-advance never return the same instant twice
DistinctReads ==
  (Auto0 # 0 /\ ReadsOnly) =>
     \A i, j \in 1..Len(hist) : i # j => hist[i][2] # hist[j][2]

\* every operation completes (checked as: no deadlock + eventual completion)
Termination == <>AllDone

TypeOK == lock \in Threads \cup {NoOne}
=============================================================================
