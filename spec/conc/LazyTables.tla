------------------------------ MODULE LazyTables ------------------------------
(* Double-checked lazy initialisation of several tables behind one flag field        *)
(* (_PyodaFormatInfo.__ensure_months_initialized / __ensure_days_initialized):       *)
(*     if flag field is set: return            -- unlocked fast path                  *)
(*     lock; if flag field is set: unlock, return                                     *)
(*     assign the tables one by one; unlock                                           *)
(* and the reader then uses any of the tables.  The field tested on the fast path is   *)
(* one of the tables.  FlagLast = TRUE assigns it after all the others (a reader that   *)
(* passes the fast path finds every table), FlagLast = FALSE assigns it first, as the   *)
(* code did before commit f132a78: a reader can pass the fast path and use a table that  *)
(* is not there yet.  Each assignment is its own step (Python assigns field by field).   *)
EXTENDS Integers, Sequences, FiniteSets
CONSTANTS Threads, NTables, FlagLast
VARIABLES tables, lock, pc, nextAssign, used, sched
vars == <<tables, lock, pc, nextAssign, used, sched>>
Flag == 1                                   \* the table whose presence is the fast-path test
Order == IF FlagLast THEN [i \in 1..NTables |-> IF i = NTables THEN Flag ELSE i + 1]
         ELSE [i \in 1..NTables |-> i]      \* the order in which the initialising thread assigns the tables
Init == /\ tables = [i \in 1..NTables |-> FALSE] /\ lock = 0 /\ pc = [t \in Threads |-> "fast"]
        /\ nextAssign = [t \in Threads |-> 1] /\ used = {} /\ sched = <<>>
Step(t) == sched' = Append(sched, t)
Fast(t) == /\ pc[t] = "fast" /\ pc' = [pc EXCEPT ![t] = IF tables[Flag] THEN "use" ELSE "acquire"]
           /\ UNCHANGED <<tables, lock, nextAssign, used>> /\ Step(t)
Acquire(t) == /\ pc[t] = "acquire" /\ lock = 0 /\ lock' = t /\ pc' = [pc EXCEPT ![t] = "recheck"]
              /\ UNCHANGED <<tables, nextAssign, used>> /\ Step(t)
Recheck(t) == /\ pc[t] = "recheck" /\ pc' = [pc EXCEPT ![t] = IF tables[Flag] THEN "release" ELSE "assign"]
              /\ UNCHANGED <<tables, lock, nextAssign, used>> /\ Step(t)
Assign(t) == /\ pc[t] = "assign"
             /\ tables' = [tables EXCEPT ![Order[nextAssign[t]]] = TRUE]
             /\ nextAssign' = [nextAssign EXCEPT ![t] = @ + 1]
             /\ pc' = [pc EXCEPT ![t] = IF nextAssign[t] = NTables THEN "release" ELSE "assign"]
             /\ UNCHANGED <<lock, used>> /\ Step(t)
Release(t) == /\ pc[t] = "release" /\ lock' = 0 /\ pc' = [pc EXCEPT ![t] = "use"]
              /\ UNCHANGED <<tables, nextAssign, used>> /\ Step(t)
\* the caller reads some table; what it finds is recorded
Use(t) == /\ pc[t] = "use" /\ \E i \in 1..NTables : used' = used \cup {<<t, i, tables[i]>>}
          /\ pc' = [pc EXCEPT ![t] = "done"] /\ UNCHANGED <<tables, lock, nextAssign>> /\ Step(t)
Next == \E t \in Threads : Fast(t) \/ Acquire(t) \/ Recheck(t) \/ Assign(t) \/ Release(t) \/ Use(t)
Spec == Init /\ [][Next]_vars /\ \A t \in Threads : WF_vars(Fast(t) \/ Acquire(t) \/ Recheck(t) \/ Assign(t) \/ Release(t) \/ Use(t))
\* every table a caller reads is there
ReadersSeeAllTables == \A u \in used : u[3]
\* the tables are assigned once
AssignedOnce == Cardinality({t \in Threads : nextAssign[t] > 1}) <= 1
AllDone == <>(\A t \in Threads : pc[t] = "done")
\* the schedule history is bookkeeping for replay: hidden from the state graph of the exhaustive runs
View == <<tables, lock, pc, nextAssign, used>>
=============================================================================
