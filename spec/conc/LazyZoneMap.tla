------------------------------ MODULE LazyZoneMap ------------------------------
(* The provider's lazily filled id -> zone map (DateTimeZoneCache):               *)
(*     look the id up; if it has no zone yet: create it from the source, store it;  *)
(*     return the zone                                                              *)
(* WithLock = TRUE protects check-create-store with a lock (one zone per id is ever   *)
(* published); WithLock = FALSE is check-then-act with no protection: two threads can  *)
(* both create a zone and return different objects for one id.                         *)
EXTENDS Integers, Sequences, FiniteSets
CONSTANTS Threads, Ids, WithLock
VARIABLES map, lock, pc, want, got, fresh, returned
vars == <<map, lock, pc, want, got, fresh, returned>>
None == 0
Init == /\ map = [i \in Ids |-> None] /\ lock = None /\ pc = [t \in Threads |-> "idle"]
        /\ want \in [Threads -> Ids] /\ got = [t \in Threads |-> None] /\ fresh = 1 /\ returned = {}
Acquire(t) == /\ pc[t] = "idle" /\ (WithLock => lock = None)
              /\ lock' = (IF WithLock THEN t ELSE lock) /\ pc' = [pc EXCEPT ![t] = "check"]
              /\ UNCHANGED <<map, want, got, fresh, returned>>
CheckMap(t) == /\ pc[t] = "check"
               /\ IF map[want[t]] # None THEN got' = [got EXCEPT ![t] = map[want[t]]] /\ pc' = [pc EXCEPT ![t] = "ret"]
                  ELSE got' = got /\ pc' = [pc EXCEPT ![t] = "create"]
               /\ UNCHANGED <<map, lock, want, fresh, returned>>
Create(t) == /\ pc[t] = "create" /\ got' = [got EXCEPT ![t] = fresh] /\ fresh' = fresh + 1
             /\ pc' = [pc EXCEPT ![t] = "store"] /\ UNCHANGED <<map, lock, want, returned>>
Store(t) == /\ pc[t] = "store" /\ map' = [map EXCEPT ![want[t]] = got[t]] /\ pc' = [pc EXCEPT ![t] = "ret"]
            /\ UNCHANGED <<lock, want, got, fresh, returned>>
Return(t) == /\ pc[t] = "ret" /\ returned' = returned \cup {<<want[t], got[t]>>}
             /\ lock' = (IF WithLock /\ lock = t THEN None ELSE lock) /\ pc' = [pc EXCEPT ![t] = "done"]
             /\ UNCHANGED <<map, want, got, fresh>>
Next == \E t \in Threads : Acquire(t) \/ CheckMap(t) \/ Create(t) \/ Store(t) \/ Return(t)
Spec == Init /\ [][Next]_vars
\* repeated lookups of one id return the same zone object
IdentityStable == \A x, y \in returned : x[1] = y[1] => x[2] = y[2]
=============================================================================
