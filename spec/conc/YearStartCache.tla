---------------------------- MODULE YearStartCache ----------------------------
(* The year-start cache of every calendar calculator (and the zone-interval hash   *)
(* cache, which has the same shape): 2^IndexBits slots, each holding a value and a   *)
(* validator = the next ValidatorBits bits of the key.  A lookup is                  *)
(*     read slot -> if validator matches: return the cached value                     *)
(*                  else: compute, store a new entry (one reference assignment), return *)
(* with no lock.  Entries are immutable, so a reader sees either the old or the new     *)
(* entry.  Property (C13): every lookup returns F(key), whatever was asked before and    *)
(* however lookups of several threads interleave - provided the key span is below         *)
(* 2^(IndexBits + ValidatorBits), which the calendars' year ranges guarantee.             *)
EXTENDS Integers, Sequences, FiniteSets, TLC

CONSTANTS Threads, Keys, IndexBits, ValidatorBits, NOps
VARIABLES slots, pc, key, ent, ops, results, sched, prog

vars == <<slots, pc, key, ent, ops, results, sched, prog>>
View == <<slots, pc, key, ent, ops, results, prog>>

Pow2(n) == IF n = 0 THEN 1 ELSE IF n = 1 THEN 2 ELSE IF n = 2 THEN 4 ELSE IF n = 3 THEN 8 ELSE 16
NSlots == Pow2(IndexBits)
Index(k) == k % NSlots
Validator(k) == (k \div NSlots) % Pow2(ValidatorBits)
F(k) == 1000 + 7 * k                     \* the pure function being cached (stands for "start of year k")
Invalid == [v |-> Pow2(ValidatorBits) - 1 + 100, val |-> 0]     \* an entry no key validates

Init == /\ slots = [i \in 0..(NSlots - 1) |-> Invalid]
        /\ pc = [t \in Threads |-> "idle"]
        /\ key = [t \in Threads |-> 0]
        /\ ent = [t \in Threads |-> Invalid]
        /\ ops = [t \in Threads |-> 0]
        /\ results = <<>>
        /\ sched = <<>>
        /\ prog \in [Threads -> [1..NOps -> Keys]]

Step(t) == sched' = Append(sched, t)
Begin(t) == /\ pc[t] = "idle" /\ ops[t] < NOps
            /\ key' = [key EXCEPT ![t] = prog[t][ops[t] + 1]]
            /\ pc' = [pc EXCEPT ![t] = "read"]
            /\ UNCHANGED <<slots, ent, ops, results, prog>> /\ Step(t)
ReadSlot(t) == /\ pc[t] = "read"
               /\ ent' = [ent EXCEPT ![t] = slots[Index(key[t])]]
               /\ pc' = [pc EXCEPT ![t] = "check"]
               /\ UNCHANGED <<slots, key, ops, results, prog>> /\ Step(t)
Check(t) == /\ pc[t] = "check"
            /\ pc' = [pc EXCEPT ![t] = IF ent[t].v = Validator(key[t]) THEN "ret" ELSE "compute"]
            /\ UNCHANGED <<slots, key, ent, ops, results, prog>> /\ Step(t)
Compute(t) == /\ pc[t] = "compute"
              /\ ent' = [ent EXCEPT ![t] = [v |-> Validator(key[t]), val |-> F(key[t])]]
              /\ pc' = [pc EXCEPT ![t] = "store"]
              /\ UNCHANGED <<slots, key, ops, results, prog>> /\ Step(t)
Store(t) == /\ pc[t] = "store"
            /\ slots' = [slots EXCEPT ![Index(key[t])] = ent[t]]
            /\ pc' = [pc EXCEPT ![t] = "ret"]
            /\ UNCHANGED <<key, ent, ops, results, prog>> /\ Step(t)
Return(t) == /\ pc[t] = "ret"
             /\ results' = Append(results, <<t, key[t], ent[t].val>>)
             /\ ops' = [ops EXCEPT ![t] = ops[t] + 1]
             /\ pc' = [pc EXCEPT ![t] = "idle"]
             /\ UNCHANGED <<slots, key, ent, prog>> /\ Step(t)
Next == \E t \in Threads : Begin(t) \/ ReadSlot(t) \/ Check(t) \/ Compute(t) \/ Store(t) \/ Return(t)
Spec == Init /\ [][Next]_vars

\* every completed query returned the pure function of its argument
HistoryIndependent == \A i \in 1..Len(results) : results[i][3] = F(results[i][2])
\* every stored entry is right for the key range it claims
SlotsSound == \A i \in 0..(NSlots - 1) : slots[i] = Invalid \/ \E k \in Keys : Index(k) = i /\ slots[i] = [v |-> Validator(k), val |-> F(k)]
=============================================================================
